package c14

import (
	"bytes"
	"context"
	"crypto/sha256"
	"encoding/base64"
	"encoding/hex"
	"fmt"
	"math/big"
	"os"
	"os/exec"
	"path/filepath"
	"strings"
	"sync"
	"testing"
	"time"
	"unicode/utf8"

	"pgregory.net/rapid"
	"verif/pbt"
	"verif/ref/addr"
	"verif/ref/ec"
	"verif/ref/hd"
)

// ---------------------------------------------------------------------------------------------
// oracle 5: the wallet binary (black box): listing is deterministic, type-4 keys equal reference
// derivation along the configured path, every listed address is the address of the dumped key.

type binCase struct {
	Type       int      `json:"type"`                 // 3 or 4
	AType      string   `json:"atype"`                // p2kh segwit bech32 tap pks
	Testnet    bool     `json:"testnet"`              //
	Litecoin   bool     `json:"litecoin"`             // only with atype p2kh/segwit/pks
	Path       []uint32 `json:"path"`                 // type 4: hdpath (the last element is the first key's index)
	HDPathStr  string   `json:"hdpathstr,omitempty"`  // the hdpath as the user spells it (given with -hdpath); "" = canonical spelling of Path
	HDPathKind string   `json:"hdpathkind,omitempty"` // which spelling (for the histogram)
	HDSubs     int      `json:"hdsubs"`               //
	Bip39      int      `json:"bip39"`                // 0 | 12 15 18 21 24 | -1 (the password is a mnemonic)
	Entropy    string   `json:"entropy"`              // bip39=-1: the user's mnemonic is the reference mnemonic of this entropy
	Deco       int      `json:"deco"`                 // bip39=-1: how the user typed the sentence
	P39        string   `json:"p39"`                  // bip39=-1, password from file: BIP39 passphrase typed on stdin ("" = none)
	Scrypt     int      `json:"scrypt"`               // 0 = off
	KeyCnt     int      `json:"keycnt"`               //
	Password   string   `json:"password"`             // hex of the seed password bytes (unused with bip39=-1)
	SeedPfx    string   `json:"seedpfx"`              // hex of the wallet.cfg "seed=" value ("" = none)
	P39On      bool     `json:"p39on"`                // -p39 given (also implied by a non-empty P39 in older replay files)
	P39Term    string   `json:"p39term"`              // how the typed line ends: lf | crlf | eof
	Dialog     string   `json:"dialog"`               // first-time run without .secret, password typed at the prompts: save_y | save_n | retry_y | single_y | ask_p | mismatch ("" = not exercised)
	CfgNoNL    bool     `json:"cfgnonl"`              // wallet.cfg ends without a line end
	Imp        impSpec  `json:"imp"`                  // how the exported keys are written into the .others file of the importing wallet
	CRLF       bool     `json:"crlf"`                 // wallet.cfg written with CR LF line ends
	Via        string   `json:"via"`                  // stdin | file (.secret)
	Flags      bool     `json:"flags"`                // options as command-line switches instead of wallet.cfg lines
}

// p39 tells whether -p39 is used, the bytes typed on stdin and the passphrase the wallet's line reader delivers:
// sys.ReadPassword reads once (up to 1024 bytes) and cuts every trailing byte below 0x20 - CR, LF, but also a
// trailing TAB - off the line; leading white space and trailing spaces stay.
func (c binCase) p39() (on bool, typed []byte, effective string) {
	on = c.P39On || c.P39 != ""
	if !on || c.Via != "file" || c.Bip39 != -1 {
		return false, nil, ""
	}
	term := "\n"
	switch c.P39Term {
	case "crlf":
		term = "\r\n"
	case "eof":
		term = ""
	}
	typed = []byte(c.P39 + term)
	e := typed
	for len(e) > 0 && e[len(e)-1] < ' ' {
		e = e[:len(e)-1]
	}
	return true, typed, string(e)
}

var (
	walletOnce sync.Once
	walletPath string
	walletErr  error
)

// walletBinary returns the binary built from /repo/wallet: $VERIF_BUILD/<name> when the driver built it,
// otherwise (development runs) it is built once into a temporary directory.
func walletBinary(name string) (string, error) {
	walletOnce.Do(func() {
		if b := os.Getenv("VERIF_BUILD"); b != "" {
			p := filepath.Join(b, name)
			if _, err := os.Stat(p); err == nil {
				walletPath = p
				return
			}
		}
		dir, err := os.MkdirTemp("", "walletbin")
		if err != nil {
			walletErr = err
			return
		}
		p := filepath.Join(dir, name)
		cmd := exec.Command("go", "build", "-o", p, ".")
		cmd.Dir = "/repo/wallet"
		cmd.Env = append(os.Environ(), "GOFLAGS=-mod=mod", "GOPROXY=off", "GOSUMDB=off", "GOTOOLCHAIN=local")
		if out, err := cmd.CombinedOutput(); err != nil {
			walletErr = fmt.Errorf("building the wallet: %v\n%s", err, out)
			return
		}
		walletPath = p
	})
	return walletPath, walletErr
}

// walletTimeout bounds one run of the wallet binary; the child is killed when it expires (exec.CommandContext) and
// the case fails: a wallet that neither answers nor refuses is a violation, and no process may be left behind.
const walletTimeout = 60 * time.Second

type runResult struct {
	stdout, stderr string
	code           int
}

func runWallet(bin, dir string, stdin []byte, args ...string) (runResult, error) {
	ctx, cancel := context.WithTimeout(context.Background(), walletTimeout)
	defer cancel()
	cmd := exec.CommandContext(ctx, bin, args...)
	cmd.Dir = dir
	cmd.Env = []string{"PATH=/usr/bin:/bin", "HOME=" + dir}
	cmd.Stdin = bytes.NewReader(stdin)
	var so, se bytes.Buffer
	cmd.Stdout, cmd.Stderr = &so, &se
	err := cmd.Run()
	res := runResult{stdout: so.String(), stderr: se.String()}
	if err != nil {
		if ee, ok := err.(*exec.ExitError); ok && ctx.Err() == nil {
			res.code = ee.ExitCode()
			return res, nil
		}
		if ctx.Err() != nil {
			return res, fmt.Errorf("the wallet did not finish within %v (a normal run takes some 10 ms) and was killed: wallet %s\nstdout: %.600s\nstderr: %.600s", walletTimeout, strings.Join(args, " "), res.stdout, res.stderr)
		}
		return res, fmt.Errorf("running the wallet: %v", err)
	}
	return res, nil
}

// runWalletDialog runs the wallet with a pipe as stdin and types the answers the way a terminal delivers them:
// each step waits until the expected prompt has appeared on stdout (the wallet writes prompts unbuffered) and only
// then writes the line.  The wallet reads the password with one read() per prompt, so nothing may be sent early.
func runWalletDialog(bin, dir string, steps [][2]string, args ...string) (runResult, error) {
	ctx, cancel := context.WithTimeout(context.Background(), walletTimeout)
	defer cancel()
	cmd := exec.CommandContext(ctx, bin, args...)
	cmd.Dir = dir
	cmd.Env = []string{"PATH=/usr/bin:/bin", "HOME=" + dir}
	stdin, err := cmd.StdinPipe()
	if err != nil {
		return runResult{}, err
	}
	var mu sync.Mutex
	var so, se bytes.Buffer
	notify := make(chan struct{}, 1)
	cmd.Stdout = writerFunc(func(b []byte) (int, error) {
		mu.Lock()
		so.Write(b)
		mu.Unlock()
		select {
		case notify <- struct{}{}:
		default:
		}
		return len(b), nil
	})
	cmd.Stderr = &se
	if err := cmd.Start(); err != nil {
		return runResult{}, err
	}
	done := make(chan error, 1)
	go func() { done <- cmd.Wait() }()
	var werr error
	exited := false
	pos := 0
	for _, st := range steps {
		for !exited {
			mu.Lock()
			i := strings.Index(so.String()[pos:], st[0])
			if i >= 0 {
				pos += i + len(st[0])
			}
			mu.Unlock()
			if i >= 0 {
				break
			}
			select {
			case <-notify:
			case werr = <-done:
				exited = true
			case <-time.After(200 * time.Millisecond):
			}
		}
		if exited {
			break
		}
		if _, e := stdin.Write([]byte(st[1])); e != nil {
			break
		}
	}
	stdin.Close()
	if !exited {
		werr = <-done
	}
	mu.Lock()
	res := runResult{stdout: so.String(), stderr: se.String()}
	mu.Unlock()
	if werr != nil {
		if ee, ok := werr.(*exec.ExitError); ok && ctx.Err() == nil {
			res.code = ee.ExitCode()
			return res, nil
		}
		if ctx.Err() != nil {
			return res, fmt.Errorf("the wallet did not finish within %v and was killed: wallet %s\nstdout: %.600s", walletTimeout, strings.Join(args, " "), res.stdout)
		}
		return res, fmt.Errorf("running the wallet: %v", werr)
	}
	return res, nil
}

type writerFunc func([]byte) (int, error)

func (f writerFunc) Write(b []byte) (int, error) { return f(b) }

// typeable tells whether the password can be typed on one terminal line and comes back unchanged from the
// wallet's line reader (no control characters; the reader also cuts trailing ones).
func typeable(pw []byte) bool {
	if len(pw) == 0 || len(pw) > 200 {
		return false
	}
	for _, b := range pw {
		if b < 0x20 || b == 0x7f {
			return false
		}
	}
	return true
}

func pathString(p []uint32) string {
	s := "m"
	for _, i := range p {
		if i >= hd.Hardened {
			s += fmt.Sprintf("/%d'", i-hd.Hardened)
		} else {
			s += fmt.Sprintf("/%d", i)
		}
	}
	return s
}

// userMnemonic renders the sentence the way a user might type it; the wallet documents that it lower-cases
// the input and treats everything that is not a letter as a separator.
func userMnemonic(m string, deco int) string {
	ws := strings.Split(m, " ")
	switch deco {
	case 1:
		return strings.ToUpper(m)
	case 2:
		return strings.Join(ws, ", ")
	case 3:
		var b strings.Builder
		for i, w := range ws {
			fmt.Fprintf(&b, "%d. %s\n", i+1, strings.ToUpper(w[:1])+w[1:])
		}
		return b.String()
	case 4:
		return "  " + strings.Join(ws, "  ") + " \n"
	}
	return m
}

// setupWallet writes the files of the case into dir and returns the switches and the stdin bytes.
func setupWallet(dir string, c binCase) (args []string, stdin []byte, err error) {
	var cfg []string
	opt := func(cfgLine string, flags ...string) {
		if c.Flags {
			args = append(args, flags...)
		} else {
			cfg = append(cfg, cfgLine)
		}
	}
	opt(fmt.Sprintf("type=%d", c.Type), "-type", fmt.Sprint(c.Type))
	opt("atype="+c.AType, "-atype", c.AType)
	opt(fmt.Sprintf("keycnt=%d", c.KeyCnt), "-n", fmt.Sprint(c.KeyCnt))
	if c.Testnet {
		opt("testnet=true", "-t")
	}
	if c.Litecoin {
		opt("litecoin=true", "-ltc")
	}
	if c.Type == 4 {
		if c.HDPathStr != "" {
			args = append(args, "-hdpath", c.HDPathStr) // verbatim (a wallet.cfg value would be trimmed by the file syntax)
		} else {
			opt("hdpath="+pathString(c.Path), "-hdpath", pathString(c.Path))
		}
		if c.HDSubs != 1 {
			opt(fmt.Sprintf("hdsubs=%d", c.HDSubs), "-hdsubs", fmt.Sprint(c.HDSubs))
		}
		if c.Bip39 != 0 {
			opt(fmt.Sprintf("bip39=%d", c.Bip39), "-bip39", fmt.Sprint(c.Bip39))
		}
	}
	if c.Scrypt != 0 {
		opt(fmt.Sprintf("scrypt=%d", c.Scrypt), "-scrypt", fmt.Sprint(c.Scrypt))
	}
	if c.SeedPfx != "" {
		pfx, _ := hex.DecodeString(c.SeedPfx)
		cfg = append(cfg, "seed="+string(pfx))
	}
	if len(cfg) > 0 {
		eol := "\n"
		if c.CRLF {
			eol = "\r\n"
		}
		last := eol
		if c.CfgNoNL {
			last = ""
		}
		if err = os.WriteFile(filepath.Join(dir, "wallet.cfg"), []byte(strings.Join(cfg, eol)+last), 0o600); err != nil {
			return
		}
	}
	pw, _ := hex.DecodeString(c.Password)
	if c.Bip39 == -1 {
		ent, _ := hex.DecodeString(c.Entropy)
		m, e := hd.MnemonicFromEntropy(ent)
		if e != nil {
			return nil, nil, fmt.Errorf("bad case: %v", e)
		}
		pw = []byte(userMnemonic(m, c.Deco))
	}
	if c.Via == "file" {
		if err = os.WriteFile(filepath.Join(dir, ".secret"), pw, 0o600); err != nil {
			return
		}
		if on, typed, _ := c.p39(); on {
			args = append(args, "-p39")
			stdin = typed
		}
	} else if c.Via == "stdin" {
		args = append(args, "-stdin")
		stdin = pw
	} // ("none": neither file nor -stdin - the wallet asks)
	return
}

// addrForm is the address the reference assigns to compressed public key pub in the given mode.
func addrForm(pub []byte, atype string, testnet, ltc bool) string {
	verPub, verScr, hrp := byte(0), byte(5), "bc"
	if testnet {
		verPub, verScr, hrp = 111, 196, "tb"
	} else if ltc {
		verPub, verScr = 48, 50
	}
	switch atype {
	case "p2kh":
		return addr.Base58CheckEncode(append([]byte{verPub}, hd.Hash160(pub)...))
	case "segwit":
		return addr.Base58CheckEncode(append([]byte{verScr}, hd.Hash160(hd.P2WPKHScript(pub))...))
	case "bech32":
		return addr.SegwitEncode(hrp, 0, hd.Hash160(pub))
	case "tap":
		// the wallet's taproot addresses commit to the key itself as the output key (key-path only)
		return addr.SegwitEncode(hrp, 1, pub[1:])
	case "pks":
		return hex.EncodeToString(pub)
	}
	return "?"
}

// impSpec shapes the .others file (bit i of a mask concerns entry i).
type impSpec struct {
	N           int  `json:"n"`       // entries 1..3 (0 = three, as in older replay files)
	KeyCnt      int  `json:"keycnt"`  // deterministic keys of the importing wallet, listed behind the imported ones
	Uncompr     int  `json:"uncompr"` // entry written as uncompressed WIF
	CRLF        bool `json:"crlf"`
	NoNL        bool `json:"nonl"`        // the last line has no line end
	Blank       int  `json:"blank"`       // an empty line behind the entry
	Trail       int  `json:"trail"`       // spaces behind the entry
	NoLabel     int  `json:"nolabel"`     // entry without a label
	Comment     bool `json:"comment"`     // a comment line in front
	BlankSpaces bool `json:"blankspaces"` // the empty lines hold two spaces
}

type dumpedKey struct {
	wif  string
	key  []byte
	addr string // second column of -dump *: the P2PKH address
}

func parseDump(out string, wantVer byte) ([]dumpedKey, error) {
	var res []dumpedKey
	for _, l := range strings.Split(out, "\n") {
		f := strings.Fields(l)
		if len(f) < 2 {
			continue
		}
		ver, key, compr, ok := addr.WIFDecode(f[0])
		if !ok {
			continue
		}
		if ver != wantVer || !compr {
			return nil, fmt.Errorf("dumped key %s has version %02x compressed=%v, expected %02x compressed", f[0], ver, compr, wantVer)
		}
		res = append(res, dumpedKey{wif: f[0], key: key, addr: f[1]})
	}
	return res, nil
}

func listedLines(walletTxt string) (comments, lines []string) {
	for _, l := range strings.Split(walletTxt, "\n") {
		if l == "" {
			continue
		}
		if strings.HasPrefix(l, "#") {
			comments = append(comments, l)
		} else {
			lines = append(lines, l)
		}
	}
	return
}

func findTagged(lines []string, tag string) string {
	for _, l := range lines {
		l = strings.TrimPrefix(l, "# ")
		if strings.HasPrefix(l, tag) {
			return strings.TrimSpace(strings.TrimPrefix(l, tag))
		}
	}
	return ""
}

type binInfo struct {
	lookups         int    // address -> key look-ups made in the importing wallet
	impUncompr      bool   // an uncompressed key was imported
	pathRefused     bool   // the spelled hdpath was refused
	dialog          string // the first-time dialogue that was exercised
	builds          int    // wallets built inside the one process of the -sign .. -send .. -l invocation
	refusedEmptyP39 bool
	keys            int
	refKeys         bool // keys were compared with reference derivation
}

func checkBinary(c binCase) (info binInfo, err error) {
	bin, err := walletBinary("wallet-c14")
	if err != nil {
		return info, err
	}
	dir, err := os.MkdirTemp("", "c14w")
	if err != nil {
		return info, err
	}
	defer os.RemoveAll(dir)
	args, stdin, err := setupWallet(dir, c)
	if err != nil {
		return info, err
	}
	if c.Type == 4 && c.HDPathStr != "" {
		// the user's spelling: under the decimal reading of the BIP32 notation it is either a path (then exactly its
		// keys may be listed) or not a path (then only a refusal is right); the wallet may always refuse
		p, perr := hd.ParsePath(c.HDPathStr)
		r0, err := runWallet(bin, dir, stdin, append(append([]string{}, args...), "-l")...)
		if err != nil {
			return info, err
		}
		_, e := os.Stat(filepath.Join(dir, "wallet.txt"))
		if on, _, eff := c.p39(); e != nil && on && eff == "" {
			// (an empty BIP39 passphrase line is refused first, with exit code 0 - see below)
		} else if e != nil {
			if r0.code == 0 {
				return info, fmt.Errorf("hdpath %q: nothing was listed, yet the exit code is 0: exit %d\nstdout: %.600s\nstderr: %.600s", c.HDPathStr, r0.code, r0.stdout, r0.stderr)
			}
			info.pathRefused = true
			return info, nil
		}
		if e == nil && (perr != nil || len(p) == 0) {
			lst, _ := os.ReadFile(filepath.Join(dir, "wallet.txt"))
			return info, fmt.Errorf("hdpath %q is not a path in decimal BIP32 notation (%v), yet the wallet lists keys for it:\n%s", c.HDPathStr, perr, lst)
		}
		if perr != nil || len(p) == 0 {
			return info, nil // (refused for the empty passphrase; the path is not a path anyway)
		}
		c.Path = p // everything below compares with the reference derivation along the decimal reading
	}
	run := func(extra ...string) (runResult, error) {
		return runWallet(bin, dir, stdin, append(append([]string{}, args...), extra...)...)
	}
	desc := func(r runResult) string {
		return fmt.Sprintf("exit %d\nstdout: %.1500s\nstderr: %.800s", r.code, r.stdout, r.stderr)
	}

	p39on, _, effPass := c.p39()
	if p39on && effPass == "" {
		// -p39 with an empty line: the wallet documents that it refuses ("just do not use -p39")
		r0, err := run("-l")
		if err != nil {
			return info, err
		}
		if _, e := os.Stat(filepath.Join(dir, "wallet.txt")); e != nil {
			info.refusedEmptyP39 = true
			return info, nil
		}
		_ = r0 // a wallet was listed after all: it must then be the wallet of the empty passphrase (checked below)
	}

	// --- two listings -------------------------------------------------------------------------
	var listing [2][]byte
	var lres [2]runResult
	for i := range listing {
		os.Remove(filepath.Join(dir, "wallet.txt"))
		if lres[i], err = run("-l"); err != nil {
			return info, err
		}
		if lres[i].code != 0 {
			return info, fmt.Errorf("wallet -l failed: %s", desc(lres[i]))
		}
		if listing[i], err = os.ReadFile(filepath.Join(dir, "wallet.txt")); err != nil {
			return info, fmt.Errorf("wallet -l wrote no wallet.txt: %s", desc(lres[i]))
		}
	}
	if !bytes.Equal(listing[0], listing[1]) {
		return info, fmt.Errorf("two runs list different wallets:\n%s\n---\n%s", listing[0], listing[1])
	}
	comments, lines := listedLines(string(listing[0]))
	// the password is the same bytes whether it comes from the .secret file or from stdin
	if !p39on {
		other := c
		if c.Via == "file" {
			other.Via = "stdin"
		} else {
			other.Via = "file"
		}
		dir2, err := os.MkdirTemp("", "c14w")
		if err != nil {
			return info, err
		}
		defer os.RemoveAll(dir2)
		args2, stdin2, err := setupWallet(dir2, other)
		if err != nil {
			return info, err
		}
		r2, err := runWallet(bin, dir2, stdin2, append(args2, "-l")...)
		if err != nil {
			return info, err
		}
		l2, _ := os.ReadFile(filepath.Join(dir2, "wallet.txt"))
		if r2.code != 0 || !bytes.Equal(l2, listing[0]) {
			return info, fmt.Errorf("the same password gives a different wallet via %s than via %s:\n%s\n---\n%s\n%s", other.Via, c.Via, listing[0], l2, desc(r2))
		}
	}
	// the same lines are printed to stdout, in the same order
	{
		so := strings.Split(lres[0].stdout, "\n")
		k := 0
		for _, l := range so {
			if k < len(lines) && l == lines[k] {
				k++
			}
		}
		if k != len(lines) {
			return info, fmt.Errorf("stdout of -l does not show line %d of wallet.txt (%q)", k, lines[k])
		}
	}
	subs := 1
	if c.Type == 4 && len(c.Path) >= 2 {
		subs = c.HDSubs
	}
	want := subs * c.KeyCnt
	if len(lines) != want {
		return info, fmt.Errorf("listing has %d addresses, expected %d", len(lines), want)
	}
	info.keys = want

	// --- dumped private keys --------------------------------------------------------------------
	wifVer := byte(0x80)
	if c.Testnet {
		wifVer = 0xef
	} else if c.Litecoin {
		wifVer = 0xb0
	}
	dres, err := run("-dump", "*")
	if err != nil {
		return info, err
	}
	if dres.code != 0 {
		return info, fmt.Errorf("wallet -dump * failed: %s", desc(dres))
	}
	dump, err := parseDump(dres.stdout, wifVer)
	if err != nil {
		return info, err
	}
	if len(dump) != want {
		return info, fmt.Errorf("-dump * shows %d keys, expected %d: %s", len(dump), want, desc(dres))
	}
	pubs := make([][]byte, want)
	seen := map[string]bool{}
	for i, d := range dump {
		k := new(big.Int).SetBytes(d.key)
		if k.Sign() == 0 || k.Cmp(ec.N) >= 0 {
			return info, fmt.Errorf("key %d (%x) is not a valid secret", i, d.key)
		}
		if seen[d.wif] {
			return info, fmt.Errorf("key %d (%s) appears twice", i, d.wif)
		}
		seen[d.wif] = true
		pubs[i] = ec.SerializeCompressed(ec.BaseMul(k))
		// every listed address is the address of the dumped key at the same position
		listed := strings.Fields(lines[i])[0]
		if exp := addrForm(pubs[i], c.AType, c.Testnet, c.Litecoin); listed != exp {
			return info, fmt.Errorf("address %d is listed as %s, but the key dumped for it (%s) has address %s", i, listed, d.wif, exp)
		}
		if exp := addrForm(pubs[i], "p2kh", c.Testnet, c.Litecoin); d.addr != exp {
			return info, fmt.Errorf("-dump * shows %s next to key %s whose P2PKH address is %s", d.addr, d.wif, exp)
		}
	}
	// asking for the key of a listed address returns that key
	if c.AType != "pks" {
		for _, i := range []int{0, want - 1, want / 2} {
			listed := strings.Fields(lines[i])[0]
			r1, err := run("-dump", listed)
			if err != nil {
				return info, err
			}
			got := ""
			for _, l := range strings.Split(r1.stdout, "\n") {
				if strings.HasPrefix(l, "Private encoded:") {
					got = strings.TrimSpace(strings.TrimPrefix(l, "Private encoded:"))
				}
			}
			if r1.code != 0 || got != dump[i].wif {
				return info, fmt.Errorf("-dump %s gives %q, the key listed at that position is %s: %s", listed, got, dump[i].wif, desc(r1))
			}
			if want <= 2 {
				break
			}
		}
	}
	// first-time use: no .secret file, the password typed at the prompt(s), optionally saved, then read back from the
	// saved file by later runs.  Every run that gets the password must list this same wallet, and a saved .secret
	// holds exactly the password bytes.
	if c.Dialog != "" && !p39on {
		pw, _ := hex.DecodeString(c.Password)
		if c.Bip39 == -1 {
			ent, _ := hex.DecodeString(c.Entropy)
			m, _ := hd.MnemonicFromEntropy(ent)
			pw = []byte(userMnemonic(m, c.Deco))
		}
		if typeable(pw) {
			info.dialog = c.Dialog
			first := c
			first.Via = "none"
			dird, err := os.MkdirTemp("", "c14w")
			if err != nil {
				return info, err
			}
			defer os.RemoveAll(dird)
			argsd, _, err := setupWallet(dird, first)
			if err != nil {
				return info, err
			}
			const pEnter, pAgain, pSave = "seed password: ", "(to be sure): ", "(y/n) : "
			line := string(pw) + "\n"
			var steps [][2]string
			extra := []string{"-l"}
			saved, listed := false, true
			switch c.Dialog {
			case "save_y":
				steps, saved = [][2]string{{pEnter, line}, {pAgain, line}, {pSave, "y\n"}}, true
			case "save_n":
				steps = [][2]string{{pEnter, line}, {pAgain, line}, {pSave, "n\n"}}
			case "retry_y":
				steps, saved = [][2]string{{pEnter, line}, {pAgain, line}, {pSave, "yes\n"}, {pSave, "\n"}, {pSave, "Y\n"}}, true
			case "single_y":
				steps, saved, extra = [][2]string{{pEnter, line}, {pSave, "y\n"}}, true, []string{"-l", "-1"}
			case "ask_p":
				steps, extra = [][2]string{{pEnter, line}, {pAgain, line}}, []string{"-l", "-p"}
			case "mismatch":
				steps, listed = [][2]string{{pEnter, line}, {pAgain, string(pw) + "x\n"}}, false
			default:
				return info, fmt.Errorf("bad case: dialog %q", c.Dialog)
			}
			rd, err := runWalletDialog(bin, dird, steps, append(append([]string{}, argsd...), extra...)...)
			if err != nil {
				return info, err
			}
			ld, lerr := os.ReadFile(filepath.Join(dird, "wallet.txt"))
			sec, serr := os.ReadFile(filepath.Join(dird, ".secret"))
			if !listed {
				if lerr == nil || serr == nil {
					return info, fmt.Errorf("the repeated password did not match, yet wallet.txt / .secret were written (%v %v): %s", lerr == nil, serr == nil, desc(rd))
				}
			} else {
				if lerr != nil || !bytes.Equal(ld, listing[0]) {
					return info, fmt.Errorf("typing the password %q at the prompt (%s) lists a different wallet than giving it by file/stdin:\n%s\n---\n%s\n%s", pw, c.Dialog, listing[0], ld, desc(rd))
				}
				if saved != (serr == nil) {
					return info, fmt.Errorf("dialog %s: .secret written = %v: %s", c.Dialog, serr == nil, desc(rd))
				}
				if saved {
					if !bytes.Equal(sec, pw) {
						return info, fmt.Errorf("the password %q was saved to .secret as %d bytes %q", pw, len(sec), sec)
					}
					// later runs read the saved file
					for round := 2; round <= 3; round++ {
						os.Remove(filepath.Join(dird, "wallet.txt"))
						r2, err := runWallet(bin, dird, nil, append(append([]string{}, argsd...), "-l")...)
						if err != nil {
							return info, err
						}
						l2, _ := os.ReadFile(filepath.Join(dird, "wallet.txt"))
						if r2.code != 0 || !bytes.Equal(l2, listing[0]) {
							return info, fmt.Errorf("run %d, reading the password saved by the first run, lists a different wallet:\n%s\n---\n%s\n%s", round, listing[0], l2, desc(r2))
						}
					}
				}
			}
		}
	}
	// some invocations build the wallet a second time inside one process (main(): -sign ... together with -send makes
	// the wallet for sign_message() and again afterwards).  The later wallet must be the same wallet: with -l the
	// listing then shows the keys of every build, and each build must equal the listing above; the message signature
	// must be one of the listed key.  (The password has to come from the .secret file: stdin can be read only once.)
	if !p39on {
		twice := c
		twice.Via = "file"
		dirt, err := os.MkdirTemp("", "c14w")
		if err != nil {
			return info, err
		}
		defer os.RemoveAll(dirt)
		argst, stdint, err := setupWallet(dirt, twice)
		if err != nil {
			return info, err
		}
		k := (want - 1) / 2
		msg := "verif " + dump[k].addr
		var first []byte
		for round := 0; round < 2; round++ {
			os.Remove(filepath.Join(dirt, "wallet.txt"))
			rt, err := runWallet(bin, dirt, stdint, append(append([]string{}, argst...), "-sign", dump[k].addr, "-msg", msg, "-send", dump[0].addr+"=0.001", "-l")...)
			if err != nil {
				return info, err
			}
			lt, _ := os.ReadFile(filepath.Join(dirt, "wallet.txt"))
			_, lt2 := listedLines(string(lt))
			if rt.code != 0 || len(lt2) == 0 || len(lt2)%want != 0 {
				return info, fmt.Errorf("wallet -sign .. -msg .. -send .. -l lists %d addresses for a wallet of %d: %s", len(lt2), want, desc(rt))
			}
			for i, l := range lt2 {
				if l != lines[i%want] {
					return info, fmt.Errorf("wallet built a second time in one process (-sign .. -send .. -l): build %d lists %q at position %d, the wallet's listing has %q", i/want+1, l, i%want, lines[i%want])
				}
			}
			if round == 0 {
				first = lt
				info.builds = len(lt2) / want
			} else if !bytes.Equal(first, lt) {
				return info, fmt.Errorf("two runs of -sign .. -send .. -l list different wallets:\n%s\n---\n%s", first, lt)
			}
			// the message signature: 65 bytes, header 27 + recovery id (+4 for a compressed key), r, s
			ok := false
			for _, l := range strings.Split(rt.stdout, "\n") {
				sig, e := base64.StdEncoding.DecodeString(strings.TrimSpace(l))
				if e != nil || len(sig) != 65 || sig[0] < 31 || sig[0] > 34 {
					continue
				}
				magic := "Bitcoin Signed Message:\n"
				if c.Litecoin {
					magic = "Litecoin Signed Message:\n"
				}
				pre := append(append([]byte{byte(len(magic))}, magic...), byte(len(msg)))
				h1 := sha256.Sum256(append(pre, msg...))
				h2 := sha256.Sum256(h1[:])
				pt, rok := ec.Recover(new(big.Int).SetBytes(sig[1:33]), new(big.Int).SetBytes(sig[33:65]), new(big.Int).SetBytes(h2[:]), int(sig[0]-31))
				if !rok || !bytes.Equal(ec.SerializeCompressed(pt), pubs[k]) {
					return info, fmt.Errorf("the signature of %q by %s (%s) does not recover the key listed for that address", msg, dump[k].addr, l)
				}
				ok = true
			}
			if !ok {
				return info, fmt.Errorf("wallet -sign %s -msg .. printed no signature: %s", dump[k].addr, desc(rt))
			}
		}
	}
	// the wallet.cfg seed= value is documented as a prefix of the password: the same wallet must come out when the
	// prefix is typed as part of the password instead (this holds for every wallet type and bip39 mode)
	if c.SeedPfx != "" && c.Bip39 != -1 {
		pfx, _ := hex.DecodeString(c.SeedPfx)
		pw, _ := hex.DecodeString(c.Password)
		joined := c
		joined.SeedPfx = ""
		joined.Password = hex.EncodeToString(append(append([]byte{}, bytes.Trim(pfx, " \t\r\n")...), pw...))
		dirj, err := os.MkdirTemp("", "c14w")
		if err != nil {
			return info, err
		}
		defer os.RemoveAll(dirj)
		argsj, stdinj, err := setupWallet(dirj, joined)
		if err != nil {
			return info, err
		}
		rj, err := runWallet(bin, dirj, stdinj, append(argsj, "-l")...)
		if err != nil {
			return info, err
		}
		lj, _ := os.ReadFile(filepath.Join(dirj, "wallet.txt"))
		if rj.code != 0 || !bytes.Equal(lj, listing[0]) {
			return info, fmt.Errorf("seed=%q in wallet.cfg plus password %q gives a different wallet than the password %q without a prefix:\n%s\n---\n%s\n%s",
				pfx, pw, append(append([]byte{}, bytes.Trim(pfx, " \t\r\n")...), pw...), listing[0], lj, desc(rj))
		}
	}
	// exported WIF keys re-import (through the .others file of another wallet) to the same keys and addresses, in
	// every shape load_others accepts: lines "WIF [label]" ended by LF or CR LF, the last one also by the end of the
	// file, empty lines and comment lines between them, spaces at the line ends; keys also re-encoded as
	// uncompressed WIF (another public key form, hence another address).  Then every address -> key look-up the
	// front ends offer must find the key whose address was listed.
	{
		dir3, err := os.MkdirTemp("", "c14w")
		if err != nil {
			return info, err
		}
		defer os.RemoveAll(dir3)
		im := c.Imp
		nimp := im.N
		if nimp <= 0 || nimp > 3 {
			nimp = 3
		}
		if nimp > want {
			nimp = want
		}
		detKeys := im.KeyCnt
		if detKeys < 1 || detKeys > 3 {
			detKeys = 1
		}
		imp := binCase{Type: 3, AType: c.AType, Testnet: c.Testnet, Litecoin: c.Litecoin, KeyCnt: detKeys, HDSubs: 1,
			Password: hex.EncodeToString([]byte("another wallet")), Via: "file", Flags: c.Flags, CRLF: c.CRLF, CfgNoNL: c.CfgNoNL}
		args3, stdin3, err := setupWallet(dir3, imp)
		if err != nil {
			return info, err
		}
		eol := "\n"
		if im.CRLF {
			eol = "\r\n"
		}
		type impKey struct {
			wif   string
			key   []byte
			pub   []byte // in the form the WIF says
			compr bool
		}
		var imps []impKey
		var others strings.Builder
		if im.Comment {
			others.WriteString("# exported keys" + eol)
		}
		for i := 0; i < nimp; i++ {
			src := dump[want-1-i]
			k := impKey{wif: src.wif, key: src.key, pub: pubs[want-1-i], compr: true}
			if im.Uncompr>>uint(i)&1 == 1 {
				k.compr = false
				k.wif = addr.WIFEncode(wifVer, src.key, false)
				k.pub = ec.SerializeUncompressed(ec.BaseMul(new(big.Int).SetBytes(src.key)))
				info.impUncompr = true
			}
			imps = append(imps, k)
			line := k.wif
			if im.NoLabel>>uint(i)&1 == 0 {
				line += fmt.Sprintf(" imported %d", i)
			}
			if im.Trail>>uint(i)&1 == 1 {
				line += "  "
			}
			others.WriteString(line)
			if i < nimp-1 || !im.NoNL {
				others.WriteString(eol)
			}
			if im.Blank>>uint(i)&1 == 1 && (i < nimp-1 || !im.NoNL) {
				if im.BlankSpaces {
					others.WriteString("  ") // a "blank" line that holds spaces
				}
				others.WriteString(eol)
			}
		}
		if err = os.WriteFile(filepath.Join(dir3, ".others"), []byte(others.String()), 0o600); err != nil {
			return info, err
		}
		run3 := func(extra ...string) (runResult, error) {
			return runWallet(bin, dir3, stdin3, append(append([]string{}, args3...), extra...)...)
		}
		r3, err := run3("-dump", "*")
		if err != nil {
			return info, err
		}
		// -dump *: WIF, P2PKH address, label - imported keys first, in file order
		type dumped struct {
			wif, addr string
			key       []byte
			compr     bool
		}
		var d3 []dumped
		for _, l := range strings.Split(r3.stdout, "\n") {
			f := strings.Fields(l)
			if len(f) < 2 {
				continue
			}
			if ver, key, compr, ok := addr.WIFDecode(f[0]); ok && ver == wifVer {
				d3 = append(d3, dumped{wif: f[0], addr: f[1], key: key, compr: compr})
			}
		}
		r4, err := run3("-l")
		if err != nil {
			return info, err
		}
		l4, _ := os.ReadFile(filepath.Join(dir3, "wallet.txt"))
		_, lines4 := listedLines(string(l4))
		if r3.code != 0 || r4.code != 0 || len(d3) != nimp+detKeys || len(lines4) != nimp+detKeys {
			return info, fmt.Errorf("a wallet with %d imported keys (.others: %q) and %d own keys shows %d keys / %d addresses: %s\n%s", nimp, others.String(), detKeys, len(d3), len(lines4), desc(r3), desc(r4))
		}
		verPub := byte(0)
		if c.Testnet {
			verPub = 111
		} else if c.Litecoin {
			verPub = 48
		}
		type lookup struct {
			address string
			pos     int
		}
		var lookups []lookup
		for i := range d3 {
			pub := ec.SerializeCompressed(ec.BaseMul(new(big.Int).SetBytes(d3[i].key)))
			if i < nimp {
				if d3[i].wif != imps[i].wif || !bytes.Equal(d3[i].key, imps[i].key) {
					return info, fmt.Errorf("exported key %s re-imports as %s", imps[i].wif, d3[i].wif)
				}
				pub = imps[i].pub
			} else if !d3[i].compr {
				return info, fmt.Errorf("the wallet's own key %s is not compressed", d3[i].wif)
			}
			p2pkh := addr.Base58CheckEncode(append([]byte{verPub}, hd.Hash160(pub)...))
			if d3[i].addr != p2pkh {
				return info, fmt.Errorf("-dump * shows %s next to key %s whose P2PKH address is %s", d3[i].addr, d3[i].wif, p2pkh)
			}
			listed := strings.Fields(lines4[i])[0]
			exp := ""
			switch {
			case len(pub) == 33:
				exp = addrForm(pub, c.AType, c.Testnet, c.Litecoin)
				if i < nimp {
					// the same key had this address in the wallet it was exported from
					if orig := strings.Fields(lines[want-1-i])[0]; orig != exp {
						return info, fmt.Errorf("exported key %s had address %s there, the reference says %s", d3[i].wif, orig, exp)
					}
				}
			case c.AType == "p2kh":
				exp = p2pkh
			case c.AType == "pks":
				exp = hex.EncodeToString(pub)
			default:
				exp = "-=CompressedKey=-" // the wallet's marker: no segwit address exists for an uncompressed key
			}
			if listed != exp {
				return info, fmt.Errorf("key %s (position %d of the importing wallet) is listed as %s, expected %s", d3[i].wif, i, listed, exp)
			}
			// the address forms under which the wallet can find this key again
			lookups = append(lookups, lookup{p2pkh, i})
			if len(pub) == 33 && !c.Litecoin {
				lookups = append(lookups, lookup{addrForm(pub, "bech32", c.Testnet, false), i}, lookup{addrForm(pub, "tap", c.Testnet, false), i})
			}
			if len(pub) == 33 && (c.AType == "p2kh" || c.AType == "segwit" || c.AType == "pks") {
				lookups = append(lookups, lookup{addrForm(pub, "segwit", c.Testnet, c.Litecoin), i})
			}
		}
		for _, lu := range lookups {
			r5, err := run3("-dump", lu.address)
			if err != nil {
				return info, err
			}
			got := ""
			for _, l := range strings.Split(r5.stdout, "\n") {
				if strings.HasPrefix(l, "Private encoded:") {
					got = strings.TrimSpace(strings.TrimPrefix(l, "Private encoded:"))
				}
			}
			if r5.code != 0 || got != d3[lu.pos].wif {
				return info, fmt.Errorf("-dump %s finds %q, the address belongs to key %s at position %d (imported keys: %d, uncompressed mask %b): %s", lu.address, got, d3[lu.pos].wif, lu.pos, nimp, im.Uncompr, desc(r5))
			}
			info.lookups++
		}
		// message signing looks the key up by address as well: the first and the last key
		for _, i := range []int{0, len(d3) - 1} {
			msg := "lookup " + d3[i].addr
			r6, err := run3("-sign", d3[i].addr, "-msg", msg)
			if err != nil {
				return info, err
			}
			pubC := ec.SerializeCompressed(ec.BaseMul(new(big.Int).SetBytes(d3[i].key)))
			ok := false
			for _, l := range strings.Split(r6.stdout, "\n") {
				sig, e := base64.StdEncoding.DecodeString(strings.TrimSpace(l))
				if e != nil || len(sig) != 65 || sig[0] < 27 || sig[0] > 34 {
					continue
				}
				magic := "Bitcoin Signed Message:\n"
				if c.Litecoin {
					magic = "Litecoin Signed Message:\n"
				}
				pre := append(append([]byte{byte(len(magic))}, magic...), byte(len(msg)))
				h1 := sha256.Sum256(append(pre, msg...))
				h2 := sha256.Sum256(h1[:])
				pt, rok := ec.Recover(new(big.Int).SetBytes(sig[1:33]), new(big.Int).SetBytes(sig[33:65]), new(big.Int).SetBytes(h2[:]), int((sig[0]-27)&3))
				if !rok || !bytes.Equal(ec.SerializeCompressed(pt), pubC) || (sig[0] >= 31) != d3[i].compr {
					return info, fmt.Errorf("-sign %s: the signature %s does not recover key %s (or has the wrong compression flag)", d3[i].addr, l, d3[i].wif)
				}
				ok = true
			}
			if !ok {
				return info, fmt.Errorf("-sign %s -msg .. printed no signature: %s", d3[i].addr, desc(r6))
			}
		}
	}
	if c.Type != 4 {
		return info, nil
	}

	// --- type 4: reference derivation -----------------------------------------------------------
	pass, _ := hex.DecodeString(c.Password)
	if c.SeedPfx != "" {
		pfx, _ := hex.DecodeString(c.SeedPfx)
		pfx = bytes.Trim(pfx, " \t\r\n") // wallet.cfg syntax: white space around a value does not belong to it
		pass = append(append([]byte{}, pfx...), pass...)
	}
	if c.Scrypt != 0 {
		pass = hd.Scrypt(pass, []byte("Gocoin scrypt password salt"), 1<<uint(c.Scrypt), 8, 1, 32)
	}
	seed := pass
	var rawSeed []byte // set when the BIP39 passphrase is changed by NFKD: the seed of the bytes as typed
	if c.Bip39 != 0 {
		wres, err := run("-words")
		if err != nil {
			return info, err
		}
		// the words are printed as " 1: word  2: word ..." between two lines of '=' signs
		var ws []string
		inside := false
		for _, l := range strings.Split(wres.stdout, "\n") {
			if strings.Contains(l, "= BIP39 mnemonic =") {
				inside = true
				continue
			}
			if !inside {
				continue
			}
			if strings.HasPrefix(l, "=====") {
				break
			}
			f := strings.Fields(l)
			for k := 0; k+1 < len(f); k += 2 {
				if strings.HasSuffix(f[k], ":") {
					ws = append(ws, f[k+1])
				}
			}
		}
		mn := strings.Join(ws, " ")
		if wres.code != 0 || len(ws) == 0 {
			return info, fmt.Errorf("wallet -words failed: %s", desc(wres))
		}
		if _, e := hd.EntropyFromMnemonic(mn); e != nil {
			return info, fmt.Errorf("wallet -words shows %q which is not a valid BIP39 sentence: %v", mn, e)
		}
		if c.Bip39 == -1 {
			ent, _ := hex.DecodeString(c.Entropy)
			um, _ := hd.MnemonicFromEntropy(ent)
			if mn != um {
				return info, fmt.Errorf("the user's mnemonic %q is shown by -words as %q", um, mn)
			}
		} else if len(ws) != c.Bip39 {
			return info, fmt.Errorf("bip39=%d but -words shows %d words", c.Bip39, len(ws))
		}
		// BIP39: PBKDF2 over the NFKD forms of sentence and passphrase
		if s, ok := hd.SeedNFKD(mn, effPass); ok {
			seed = s
			if !hd.NFKDStable(effPass) {
				rawSeed = hd.Seed(mn, effPass)
			}
		} else {
			seed = hd.Seed(mn, effPass) // (not generated: a character the reference cannot normalise)
		}
	}
	// everything below is decided by the seed: keys, extended keys
	verify := func(seed []byte) error {
		master, e := hd.MasterAnyLength(seed, hd.VerXprv)
		if e != nil {
			return nil // unreachable without an HMAC pre-image
		}
		L := len(c.Path)
		var refKeys [][]byte
		var parents []*hd.ExtKey
		for s := 0; s < subs; s++ {
			pp := append([]uint32{}, c.Path[:L-1]...)
			if L >= 2 {
				pp[L-2] += uint32(s)
			}
			parent, e := master.Derive(pp)
			if e != nil {
				return nil
			}
			parents = append(parents, parent)
			for i := 0; i < c.KeyCnt; i++ {
				k, e := parent.Child(c.Path[L-1] + uint32(i))
				if e != nil {
					return nil
				}
				refKeys = append(refKeys, k.PrivKey())
			}
		}
		for i := range refKeys {
			if !bytes.Equal(refKeys[i], dump[i].key) {
				return fmt.Errorf("key %d is %x, reference derivation along %s (sub-account %d, child +%d) gives %x",
					i, dump[i].key, pathString(c.Path), i/c.KeyCnt, i%c.KeyCnt, refKeys[i])
			}
		}
		info.refKeys = true

		// --- exported extended keys -----------------------------------------------------------------
		sameBody := func(what, s string, want *hd.ExtKey, private bool) error {
			k, e := hd.Parse(s)
			if e != nil {
				return fmt.Errorf("%s %q is not a valid extended key: %v", what, s, e)
			}
			if k.IsPrivate() != private || hd.IsTestnetVersion(k.Version) != c.Testnet {
				return fmt.Errorf("%s %q has version %08x (private=%v, testnet=%v expected)", what, s, k.Version, private, c.Testnet)
			}
			w := want
			if !private {
				w = want.Neuter()
			}
			if !bytes.Equal(k.Serialize()[4:], w.Serialize()[4:]) {
				return fmt.Errorf("%s is %s, reference (same version) %s", what, s, (&hd.ExtKey{Version: k.Version, Depth: w.Depth, ParentFP: w.ParentFP, Index: w.Index, ChainCode: w.ChainCode, Key: w.Key}).String())
			}
			return nil
		}
		xres, err := run("-xprv")
		if err != nil {
			return err
		}
		xl := strings.Split(xres.stdout, "\n")
		root, leaf := findTagged(xl, "Root:"), findTagged(xl, "Leaf:")
		if xres.code != 0 || root == "" || leaf == "" {
			return fmt.Errorf("wallet -xprv failed: %s", desc(xres))
		}
		if err := sameBody("-xprv Root", root, master, true); err != nil {
			return err
		}
		if err := sameBody("-xprv Leaf", leaf, parents[0], true); err != nil {
			return err
		}
		// extended public keys shown with the listing derive the public counterparts of the listed keys
		if s := findTagged(comments, "Root:"); s != "" {
			if err := sameBody("listed Root", s, master, false); err != nil {
				return err
			}
			k, _ := hd.Parse(s)
			for sub := 0; sub < subs; sub++ {
				pp := append([]uint32{}, c.Path[:L-1]...)
				if L >= 2 {
					pp[L-2] += uint32(sub)
				}
				par, e := k.Derive(pp)
				if e != nil {
					return fmt.Errorf("listed Root %s cannot derive %s: %v", s, pathString(pp), e)
				}
				for i := 0; i < c.KeyCnt; i++ {
					ch, e := par.Child(c.Path[L-1] + uint32(i))
					if e != nil || !bytes.Equal(ch.PubKey(), pubs[sub*c.KeyCnt+i]) {
						return fmt.Errorf("listed Root %s does not derive the public key of key %d", s, sub*c.KeyCnt+i)
					}
				}
			}
		}
		if s := findTagged(comments, "Leaf:"); s != "" {
			if err := sameBody("listed Leaf", s, parents[0], false); err != nil {
				return err
			}
			k, _ := hd.Parse(s)
			for i := 0; i < c.KeyCnt; i++ {
				ch, e := k.Child(c.Path[L-1] + uint32(i))
				if e != nil || !bytes.Equal(ch.PubKey(), pubs[i]) {
					return fmt.Errorf("listed Leaf %s does not derive the public key of key %d (%v)", s, i, e)
				}
			}
		}
		if s := findTagged(comments, "Prnt:"); s != "" && L >= 2 {
			gp, e := master.Derive(c.Path[:L-2])
			if e != nil {
				return nil
			}
			if err := sameBody("listed Prnt", s, gp, false); err != nil {
				return err
			}
			if c.Path[L-2] < hd.Hardened {
				k, _ := hd.Parse(s)
				for sub := 0; sub < subs; sub++ {
					par, e := k.Child(c.Path[L-2] + uint32(sub))
					if e != nil {
						return fmt.Errorf("listed Prnt %s: %v", s, e)
					}
					for i := 0; i < c.KeyCnt; i++ {
						ch, e := par.Child(c.Path[L-1] + uint32(i))
						if e != nil || !bytes.Equal(ch.PubKey(), pubs[sub*c.KeyCnt+i]) {
							return fmt.Errorf("listed Prnt %s does not derive the public key of key %d", s, sub*c.KeyCnt+i)
						}
					}
				}
			}
		}
		return nil
	}
	err = verify(seed)
	if err != nil && rawSeed != nil {
		// class of the open finding C14-bip39-no-nfkd: the passphrase holds a character NFKD changes; is this the
		// wallet of the passphrase hashed as typed?
		if e2 := verify(rawSeed); e2 == nil {
			return info, &knownFinding{key: kfNoNFKD, msg: fmt.Sprintf("BIP39 passphrase %+q is hashed as typed, not in NFKD form: %v", effPass, err)}
		}
	}
	if err != nil && p39on {
		err = fmt.Errorf("with the BIP39 passphrase %+q: %v", effPass, err)
	}
	if err != nil && c.HDPathStr != "" {
		if _, isKnown := err.(*knownFinding); !isKnown {
			err = fmt.Errorf("with hdpath spelled %q: %v", c.HDPathStr, err)
		}
	}
	return info, err
}

// ------------------------------------------------------------------------------------------------

var pwRunes = []rune("abcdefghijklmnopqrstuvwxyzABCDEFGHIJKLMNOPQRSTUVWXYZ0123456789 !\"#$%&'()*+,-./:;<=>?@[\\]^_`{|}~")
var pwWide = []rune("äöüßéèñçøåœπλжщ日本語パスワード密码🔑")

func genPassword(t *rapid.T, label string, allowRaw bool) []byte {
	n := rapid.IntRange(1, 40).Draw(t, label+"_len")
	kind := rapid.IntRange(0, 4).Draw(t, label+"_kind")
	if kind >= 3 && !allowRaw {
		kind = 1
	}
	switch kind {
	case 4: // a printable password followed by white space, e.g. `echo password > .secret`
		rs := make([]rune, n)
		for i := range rs {
			rs[i] = pwRunes[rapid.IntRange(0, len(pwRunes)-1).Draw(t, label+"_r")]
		}
		return []byte(string(rs) + rapid.SampledFrom([]string{"\n", "\r\n", " ", "\n\n", "\t"}).Draw(t, label+"_ws"))
	case 0: // printable ASCII
		rs := make([]rune, n)
		for i := range rs {
			rs[i] = pwRunes[rapid.IntRange(0, len(pwRunes)-1).Draw(t, label+"_r")]
		}
		return []byte(string(rs))
	case 1, 2: // UTF-8 with non-ASCII characters
		rs := make([]rune, n)
		for i := range rs {
			if rapid.Bool().Draw(t, label+"_w") {
				rs[i] = pwWide[rapid.IntRange(0, len(pwWide)-1).Draw(t, label+"_wr")]
			} else {
				rs[i] = pwRunes[rapid.IntRange(0, len(pwRunes)-1).Draw(t, label+"_r")]
			}
		}
		return []byte(string(rs))
	}
	// arbitrary bytes (control characters, invalid UTF-8, embedded newlines)
	return rapid.SliceOfN(rapid.Byte(), n, n).Draw(t, label+"_raw")
}

func genPathElem(t *rapid.T, label string, room uint32) uint32 {
	var v uint32
	switch rapid.IntRange(0, 5).Draw(t, label+"_k") {
	case 0:
		v = 0
	case 1:
		v = rapid.SampledFrom([]uint32{1, 2, 44, 49, 84, 86}).Draw(t, label+"_s")
	case 2:
		v = 0x7fffffff - room
	case 3:
		v = rapid.Uint32Range(0, 0x7fffffff-room).Draw(t, label+"_r")
	default:
		v = rapid.Uint32Range(0, 20).Draw(t, label+"_small")
	}
	if rapid.Bool().Draw(t, label+"_h") {
		v |= hd.Hardened
	}
	return v
}

// genP39 draws what the user types after "Enter the BIP39 password:" (without the line end).
func genP39(t *rapid.T) string {
	word := func() string { return genPassRunes(t, rapid.IntRange(1, 10).Draw(t, "p39len"), 0) }
	switch rapid.IntRange(0, 12).Draw(t, "p39kind") {
	case 0: // white space in front
		return rapid.SampledFrom([]string{" ", "  ", "\t", " \t "}).Draw(t, "p39lead") + strings.TrimSpace(word()) + "x"
	case 1: // spaces behind
		return "x" + strings.TrimSpace(word()) + rapid.SampledFrom([]string{" ", "  ", "   "}).Draw(t, "p39trail")
	case 2: // both
		return " TREZOR "
	case 3: // nothing but spaces
		return rapid.SampledFrom([]string{" ", "  ", "     "}).Draw(t, "p39spaces")
	case 4: // tabs behind (the line reader cuts trailing control characters) / nothing but tabs / nothing at all
		return rapid.SampledFrom([]string{"a\t", "TREZOR \t", "\t", "", "", "\t\t"}).Draw(t, "p39tabs")
	case 5: // runs of spaces and tabs inside
		return "a  b" + rapid.SampledFrom([]string{"   ", "\t", " \t "}).Draw(t, "p39inner") + "c"
	case 6, 9, 10: // characters NFKD changes
		return genPassRunes(t, rapid.IntRange(1, 10).Draw(t, "p39len"), 50)
	case 7, 11: // long
		return genPassRunes(t, rapid.IntRange(100, 250).Draw(t, "p39long"), 0)
	case 8:
		return "TREZOR"
	}
	return word()
}

// spellPath writes the path the way a user might: one or two elements (or the frame) in an unusual spelling.
// Whether a spelling still denotes the path is decided by ref/hd.ParsePath, not here.
func spellPath(t *rapid.T, path []uint32) (string, string) {
	els := make([]string, len(path))
	for i, v := range path {
		els[i] = fmt.Sprint(v &^ hd.Hardened)
		if v >= hd.Hardened {
			els[i] += "'"
		}
	}
	kinds := []string{"leading_zeros", "leading_zeros", "leading_zeros", "plus_sign", "h_marker", "hex", "octal_binary", "underscore", "white_space",
		"empty_element", "minus", "double_marker", "out_of_range", "capital_m", "trailing_slash", "leading_slash", "only_m"}
	kind := rapid.SampledFrom(kinds).Draw(t, "spellkind")
	k := rapid.IntRange(0, len(path)-1).Draw(t, "spellpos")
	v, hard := path[k]&^hd.Hardened, ""
	if path[k] >= hd.Hardened {
		hard = "'"
	}
	frame := "m/"
	switch kind {
	case "leading_zeros":
		// every element may get zeros in front, so that numbers like 044, 010, 00084 appear
		for i, p := range path {
			if i == k || rapid.Bool().Draw(t, "zeros_more") {
				els[i] = strings.Repeat("0", rapid.IntRange(1, 3).Draw(t, "zeros")) + els[i]
				_ = p
			}
		}
	case "plus_sign":
		els[k] = "+" + els[k]
	case "h_marker":
		els[k] = fmt.Sprint(v) + rapid.SampledFrom([]string{"h", "H"}).Draw(t, "hmark")
	case "hex":
		els[k] = fmt.Sprintf("0x%x%s", v, hard)
	case "octal_binary":
		els[k] = fmt.Sprintf(rapid.SampledFrom([]string{"0o%o%s", "0b%b%s", "0O%o%s"}).Draw(t, "obfmt"), v, hard)
	case "underscore":
		d := fmt.Sprint(v)
		if len(d) < 2 {
			d = "1" + d
		}
		els[k] = d[:1] + "_" + d[1:] + hard
	case "white_space":
		els[k] = rapid.SampledFrom([]string{" %s", "%s ", "\t%s", " %s "}).Draw(t, "wsfmt")
		els[k] = fmt.Sprintf(els[k], fmt.Sprint(v)+hard)
	case "empty_element":
		els[k] = rapid.SampledFrom([]string{"", "'"}).Draw(t, "empty")
	case "minus":
		els[k] = "-" + els[k] // -0 has the value 0, everything else is negative
	case "double_marker":
		els[k] = fmt.Sprint(v) + rapid.SampledFrom([]string{"''", "'h", "h'"}).Draw(t, "dbl")
	case "out_of_range":
		els[k] = rapid.SampledFrom([]string{"2147483648", "4294967296", "2147483648'", "4294967295", "99999999999999999999"}).Draw(t, "oor")
	case "capital_m":
		frame = "M/"
	case "trailing_slash":
		return "m/" + strings.Join(els, "/") + "/", kind
	case "leading_slash":
		frame = "/m/"
	case "only_m":
		return rapid.SampledFrom([]string{"m", "m/", ""}).Draw(t, "onlym"), kind
	}
	return frame + strings.Join(els, "/"), kind
}

func genBinCase(t *rapid.T) binCase {
	c := binCase{Type: 4, HDSubs: 1}
	if rapid.IntRange(0, 4).Draw(t, "type3") == 0 {
		c.Type = 3
	}
	c.AType = rapid.SampledFrom([]string{"p2kh", "segwit", "bech32", "tap", "p2kh", "segwit", "bech32", "tap", "pks"}).Draw(t, "atype")
	c.Testnet = rapid.IntRange(0, 2).Draw(t, "testnet") == 0
	if c.AType != "bech32" && c.AType != "tap" {
		c.Litecoin = rapid.IntRange(0, 5).Draw(t, "ltc") == 0
	}
	c.KeyCnt = rapid.IntRange(1, 10).Draw(t, "keycnt")
	c.Via = rapid.SampledFrom([]string{"stdin", "file"}).Draw(t, "via")
	c.Flags = rapid.Bool().Draw(t, "flags")
	if rapid.IntRange(0, 2).Draw(t, "scrypt_on") == 0 {
		c.Scrypt = rapid.IntRange(1, 6).Draw(t, "scrypt")
	}
	if c.Type == 4 {
		depth := rapid.IntRange(1, 6).Draw(t, "depth")
		if depth >= 2 && rapid.Bool().Draw(t, "subs") {
			c.HDSubs = rapid.IntRange(2, 3).Draw(t, "hdsubs")
		}
		for i := 0; i < depth; i++ {
			room := uint32(0)
			if i >= depth-2 {
				room = 16 // key count / sub-account count are added to the last two elements
			}
			c.Path = append(c.Path, genPathElem(t, fmt.Sprintf("p%d", i), room))
		}
		if rapid.IntRange(0, 2).Draw(t, "spell") == 0 {
			c.HDPathStr, c.HDPathKind = spellPath(t, c.Path)
		}
		c.Bip39 = rapid.SampledFrom([]int{-1, -1, -1, 0, 0, 12, 15, 18, 21, 24}).Draw(t, "bip39")
	}
	c.CRLF = rapid.IntRange(0, 4).Draw(t, "crlf") == 0
	c.CfgNoNL = rapid.IntRange(0, 2).Draw(t, "cfgnonl") == 0
	c.Imp = impSpec{N: rapid.IntRange(1, 3).Draw(t, "imp_n"), KeyCnt: rapid.IntRange(1, 3).Draw(t, "imp_keycnt"),
		CRLF: rapid.IntRange(0, 2).Draw(t, "imp_crlf") == 0, NoNL: rapid.Bool().Draw(t, "imp_nonl"),
		Comment: rapid.IntRange(0, 3).Draw(t, "imp_comment") == 0}
	if rapid.Bool().Draw(t, "imp_unc") {
		c.Imp.Uncompr = rapid.IntRange(1, 7).Draw(t, "imp_uncmask")
	}
	if rapid.IntRange(0, 2).Draw(t, "imp_shape") == 0 {
		c.Imp.BlankSpaces = rapid.Bool().Draw(t, "imp_blankspaces")
		c.Imp.Blank, c.Imp.Trail, c.Imp.NoLabel = rapid.IntRange(0, 7).Draw(t, "imp_blank"), rapid.IntRange(0, 7).Draw(t, "imp_trail"), rapid.IntRange(0, 7).Draw(t, "imp_nolabel")
	}
	c.Dialog = rapid.SampledFrom([]string{"save_y", "save_y", "save_n", "retry_y", "single_y", "ask_p", "mismatch", "", ""}).Draw(t, "dialog")
	if c.Bip39 == -1 {
		c.Scrypt = 0 // the wallet refuses scrypt together with a user mnemonic
		n := rapid.SampledFrom([]int{16, 20, 24, 28, 32}).Draw(t, "entlen")
		c.Entropy = hex.EncodeToString(rapid.SliceOfN(rapid.Byte(), n, n).Draw(t, "ent"))
		c.Deco = rapid.IntRange(0, 4).Draw(t, "deco")
		if rapid.IntRange(0, 5).Draw(t, "p39file") != 0 {
			c.Via = "file" // the BIP39 passphrase is typed on stdin, so the sentence has to come from the .secret file
		}
		if c.Via == "file" && rapid.IntRange(0, 5).Draw(t, "p39on") != 0 {
			c.P39On = true
			c.P39 = genP39(t)
			c.P39Term = rapid.SampledFrom([]string{"lf", "lf", "crlf", "eof"}).Draw(t, "p39term")
		}
	} else {
		c.Password = hex.EncodeToString(genPassword(t, "pw", true))
		if rapid.IntRange(0, 3).Draw(t, "pfx_sizes") == 0 {
			// prefixes of 1..70 characters, mostly just above / at / below the sizes byte slices are allocated in,
			// combined with short and long passwords (what is left of the allocation may or may not hold the password)
			n := rapid.SampledFrom([]int{1, 2, 7, 8, 9, 15, 16, 17, 18, 24, 25, 26, 32, 33, 34, 36, 40, 47, 48, 49, 50, 63, 64, 65, 66, 70}).Draw(t, "pfx_n")
			if rapid.IntRange(0, 3).Draw(t, "pfx_nrand") == 0 {
				n = rapid.IntRange(1, 70).Draw(t, "pfx_nr")
			}
			p := make([]byte, n)
			for i := range p {
				p[i] = "abcdefghijklmnopqrstuvwxyzABCDEFGHIJKLMNOPQRSTUVWXYZ0123456789-_.:/"[rapid.IntRange(0, 66).Draw(t, "pfx_c")]
			}
			c.SeedPfx = hex.EncodeToString(p)
			m := rapid.IntRange(1, 8).Draw(t, "pw_short")
			if rapid.IntRange(0, 3).Draw(t, "pw_long") == 0 {
				m = rapid.IntRange(9, 60).Draw(t, "pw_longn")
			}
			pw := make([]byte, m)
			for i := range pw {
				pw[i] = byte(rapid.IntRange(33, 126).Draw(t, "pw_c"))
			}
			c.Password = hex.EncodeToString(pw)
		} else if rapid.IntRange(0, 2).Draw(t, "pfx") == 0 {
			p := bytes.TrimSpace(genPassword(t, "pfx", false))
			p = bytes.Trim(p, "\"") // (the cfg parser does not unquote seed=, but keep clear of quoting questions)
			if len(p) > 0 {
				if rapid.IntRange(0, 3).Draw(t, "pfx_eq") == 0 {
					// characters with a meaning elsewhere in the file format, inside the value
					k := rapid.IntRange(0, len(p)).Draw(t, "pfx_eqpos")
					p = []byte(string(p[:k]) + rapid.SampledFrom([]string{"=", "==", "=x=", "#", " = "}).Draw(t, "pfx_eqs") + string(p[k:]))
				}
				// white space around the value is wallet.cfg syntax, not part of the prefix
				p = []byte(rapid.SampledFrom([]string{"", "", " ", "\t", "  "}).Draw(t, "pfx_lead") + string(p) + rapid.SampledFrom([]string{"", "", " ", "\t "}).Draw(t, "pfx_trail"))
				c.SeedPfx = hex.EncodeToString(p)
			}
		}
	}
	return c
}

func TestWalletBinary(t *testing.T) {
	if _, err := walletBinary("wallet-c14"); err != nil {
		t.Fatal(err)
	}
	pbt.Check(t, pbt.Cfg{Name: "wallet_bin", Quick: 520, Thorough: 12000}, func(r *pbt.Run) {
		c := genBinCase(r.T)
		r.Case(c)
		r.Class(fmt.Sprintf("type%d", c.Type))
		r.Class("atype_" + c.AType)
		if c.Testnet {
			r.Class("testnet")
		}
		if c.Litecoin {
			r.Class("litecoin")
		}
		if c.Type == 4 {
			r.Class(fmt.Sprintf("bip39_%d", c.Bip39))
			r.Class(fmt.Sprintf("depth%d", len(c.Path)))
			if c.HDSubs > 1 {
				r.Class("hdsubs")
			}
		}
		if c.Scrypt > 0 {
			r.Class("scrypt")
		}
		if c.SeedPfx != "" {
			r.Class("seed_prefix")
		}
		if on, _, eff := c.p39(); on {
			r.Class("bip39_passphrase")
			switch {
			case eff == "":
				r.Class("p39_empty_line")
			case strings.Trim(eff, " \t") == "":
				r.Class("p39_only_white_space")
			}
			if eff != "" && eff != strings.TrimSpace(eff) {
				r.Class("p39_outer_white_space")
			}
			if eff != c.P39 {
				r.Class("p39_trailing_control_characters_cut")
			}
			if strings.Contains(eff, "  ") || strings.Contains(strings.TrimSpace(eff), "\t") {
				r.Class("p39_inner_white_space_runs")
			}
			if !hd.NFKDStable(eff) {
				r.Class("p39_changed_by_nfkd")
			} else if len(eff) != len([]rune(eff)) {
				r.Class("p39_non_ascii_nfkd_stable")
			}
			if len(eff) > 100 {
				r.Class("p39_long")
			}
			r.Class("p39_line_end_" + map[string]string{"": "lf", "lf": "lf", "crlf": "crlf", "eof": "eof"}[c.P39Term])
		}
		if c.CRLF && !c.Flags {
			r.Class("cfg_crlf")
		}
		if pw, _ := hex.DecodeString(c.Password); !utf8.Valid(pw) || bytes.IndexFunc(pw, func(r rune) bool { return r > 126 || r < 32 }) >= 0 {
			r.Class("non_ascii_password")
		}
		r.Class("via_" + c.Via)
		if c.Flags {
			r.Class("switches")
		} else {
			r.Class("cfg_file")
		}
		if !(c.Type == 3 && c.AType == "p2kh" && !c.Testnet && !c.Litecoin && c.Scrypt == 0 && c.SeedPfx == "") {
			r.NonTrivial()
		}
		info, err := checkBinary(c)
		pbt.AddExtra("wallet_keys_checked", int64(info.keys))
		if info.refKeys {
			r.Class("keys_equal_reference_derivation")
		}
		if c.HDPathStr != "" {
			r.Class("hdpath_spelled")
			r.Class("hdpath_" + c.HDPathKind)
			if _, e := hd.ParsePath(c.HDPathStr); e != nil {
				r.Class("hdpath_not_a_path")
			} else {
				r.Class("hdpath_decimal_reading_exists")
			}
			if info.pathRefused {
				r.Class("hdpath_refused")
			} else {
				r.Class("hdpath_accepted")
			}
		}
		if info.lookups > 0 {
			r.Class("address_lookups_in_importing_wallet")
			pbt.AddExtra("address_to_key_lookups", int64(info.lookups))
			if info.impUncompr {
				r.Class("imported_uncompressed_key")
			}
			if c.Imp.NoNL {
				r.Class("others_last_line_without_newline")
			}
			if c.Imp.CRLF {
				r.Class("others_crlf")
			}
			if c.Imp.Blank|c.Imp.Trail != 0 || c.Imp.Comment {
				r.Class("others_blank_comment_trailing_spaces")
			}
		}
		if c.CfgNoNL && !c.Flags {
			r.Class("cfg_last_line_without_newline")
		}
		if info.dialog != "" {
			r.Class("first_time_dialog")
			r.Class("dialog_" + info.dialog)
		}
		if info.builds >= 2 {
			r.Class("wallet_built_twice_in_one_process")
			if pfx, _ := hex.DecodeString(c.SeedPfx); len(pfx) > 0 {
				r.Class("built_twice_with_seed_prefix")
				pw, _ := hex.DecodeString(c.Password)
				if spare := (8 - len(pfx)%8) % 8; spare > 0 && len(pw) <= spare {
					r.Class("built_twice_prefix_password_within_8_byte_granule")
				}
			}
		}
		if info.refusedEmptyP39 {
			r.Class("p39_empty_line_refused")
		}
		if err != nil {
			failOrExclude(r, err)
		}
	})
}
