package c14

import (
	"bytes"
	"encoding/hex"
	"encoding/json"
	"fmt"
	"math/big"
	"strings"
	"sync"
	"testing"

	"github.com/piotrnar/gocoin/lib/btc"
	"github.com/piotrnar/gocoin/lib/others/bip39"
	"pgregory.net/rapid"
	"verif/pbt"
	"verif/ref/addr"
	"verif/ref/ec"
	"verif/ref/hd"
)

func TestMain(m *testing.M) {
	pbt.RegisterReplay("hd_derive", func(raw json.RawMessage) error {
		var c hdCase
		if err := json.Unmarshal(raw, &c); err != nil {
			return err
		}
		return checkHD(c)
	})
	pbt.RegisterReplay("hd_siblings", func(raw json.RawMessage) error {
		var c sibCase
		if err := json.Unmarshal(raw, &c); err != nil {
			return err
		}
		_, err := checkSiblings(c)
		return err
	})
	pbt.RegisterReplay("bip39", func(raw json.RawMessage) error {
		var c mnCase
		if err := json.Unmarshal(raw, &c); err != nil {
			return err
		}
		_, err := checkMnemonic(c)
		return err
	})
	pbt.RegisterReplay("derive_next_pure", func(raw json.RawMessage) error {
		var c type2Case
		if err := json.Unmarshal(raw, &c); err != nil {
			return err
		}
		return checkType2(c)
	})
	pbt.RegisterReplay("wif_roundtrip", func(raw json.RawMessage) error {
		var c wifCase
		if err := json.Unmarshal(raw, &c); err != nil {
			return err
		}
		return checkWIF(c)
	})
	pbt.RegisterReplay("concurrent_export", func(raw json.RawMessage) error {
		var c concCase
		if err := json.Unmarshal(raw, &c); err != nil {
			return err
		}
		return checkConcurrent(c)
	})
	pbt.RegisterReplay("wallet_bin", func(raw json.RawMessage) error {
		var c binCase
		if err := json.Unmarshal(raw, &c); err != nil {
			return err
		}
		_, err := checkBinary(c)
		return err
	})
	pbt.Main(m, "C14")
}

// ---------------------------------------------------------------------------------------------
// oracle 1: BIP32 derivation along a path, every exported view of every node on the way

type hdCase struct {
	Seed string   `json:"seed"` // hex, 16..64 bytes
	Ver  int      `json:"ver"`  // index into hd.PrivateVersions (x y z t u v)
	Path []uint32 `json:"path"` // 1..6 child indexes
}

func gocoinVersion(v uint32) uint32 {
	// the constants are compared numerically: gocoin's prefix table must be the SLIP-132 one
	return v
}

// compareNode checks every exported view of gocoin's node w against the reference node r.
func compareNode(w *btc.HDWallet, r *hd.ExtKey, where string) error {
	if len(w.Key) != 33 || len(w.ChCode) != 32 {
		return fmt.Errorf("%s: key/chain code have %d/%d bytes", where, len(w.Key), len(w.ChCode))
	}
	ser := w.Serialize()
	if len(ser) != 82 || !bytes.Equal(ser[:78], r.Serialize()) {
		return fmt.Errorf("%s: Serialize %x, reference %x", where, ser, r.Serialize())
	}
	if w.String() != r.String() {
		return fmt.Errorf("%s: String %s, reference %s", where, w.String(), r.String())
	}
	rp := r.Neuter()
	wp := w.Pub()
	if wp.String() != rp.String() {
		return fmt.Errorf("%s: Pub().String %s, reference %s", where, wp.String(), rp.String())
	}
	if got, want := w.PubAddr().String(), r.SLIP132Addr(); got != want {
		return fmt.Errorf("%s: PubAddr %s, reference %s", where, got, want)
	}
	if got, want := wp.PubAddr().String(), rp.SLIP132Addr(); got != want {
		return fmt.Errorf("%s: Pub().PubAddr %s, reference %s", where, got, want)
	}
	// export -> re-import identity, private and public
	for _, x := range []*btc.HDWallet{w, wp} {
		s := x.String()
		if err := btc.StringCheck(s); err != nil {
			return fmt.Errorf("%s: StringCheck(%s): %v", where, s, err)
		}
		y, err := btc.StringWallet(s)
		if err != nil {
			return fmt.Errorf("%s: StringWallet(%s): %v", where, s, err)
		}
		if y.Prefix != x.Prefix || y.Depth != x.Depth || y.I != x.I || y.Checksum != x.Checksum ||
			!bytes.Equal(y.ChCode, x.ChCode) || !bytes.Equal(y.Key, x.Key) || y.String() != s {
			return fmt.Errorf("%s: %s re-imports to different fields (%s)", where, s, y.String())
		}
	}
	return nil
}

func checkHD(c hdCase) error {
	seed, err := hex.DecodeString(c.Seed)
	if err != nil || c.Ver < 0 || c.Ver >= len(hd.PrivateVersions) {
		return fmt.Errorf("bad case")
	}
	ver := hd.PrivateVersions[c.Ver]
	testnet := hd.IsTestnetVersion(ver)
	r, err := hd.MasterAnyLength(seed, ver)
	if err != nil {
		return nil // I_L = 0 or >= n: needs an HMAC pre-image, outside what can be generated
	}
	w := btc.MasterKey(seed, testnet)
	base := hd.VerXprv
	if testnet {
		base = hd.VerTprv
	}
	if w.Prefix != base {
		return fmt.Errorf("MasterKey(testnet=%v) has prefix %08x", testnet, w.Prefix)
	}
	w.Prefix = gocoinVersion(ver) // exactly what the wallet does after MasterKey
	if err := compareNode(w, r, "m"); err != nil {
		return err
	}
	where := "m"
	for _, idx := range c.Path {
		if idx >= hd.Hardened {
			where += fmt.Sprintf("/%d'", idx-hd.Hardened)
		} else {
			where += fmt.Sprintf("/%d", idx)
		}
		wparPub, rparPub := w.Pub(), r.Neuter()
		if r, err = r.Child(idx); err != nil {
			return nil // unreachable (see above)
		}
		w = w.Child(idx)
		if err := compareNode(w, r, where); err != nil {
			return err
		}
		if idx < hd.Hardened {
			// public derivation from the parent's extended public key
			pc := wparPub.Child(idx)
			rc, err := rparPub.Child(idx)
			if err != nil {
				return nil
			}
			if pc.String() != rc.String() {
				return fmt.Errorf("%s: public derivation gives %s, reference %s", where, pc.String(), rc.String())
			}
			if pc.String() != w.Pub().String() {
				return fmt.Errorf("%s: xprv.Child(i).Pub() = %s but xprv.Pub().Child(i) = %s", where, w.Pub().String(), pc.String())
			}
		}
	}
	return nil
}

var edgeIndexes = []uint32{0, 1, 0x7fffffff, 0x80000000, 0x80000001, 0xffffffff, 0x7ffffffe, 0xfffffffe, 44 + 0x80000000, 84 + 0x80000000}

func genIndex(t *rapid.T, label string) uint32 {
	if rapid.IntRange(0, 9).Draw(t, label+"_edge") < 6 {
		return rapid.SampledFrom(edgeIndexes).Draw(t, label)
	}
	return rapid.Uint32().Draw(t, label)
}

func genSeed(t *rapid.T) []byte {
	n := rapid.IntRange(16, 64).Draw(t, "seedlen")
	switch rapid.IntRange(0, 9).Draw(t, "seedkind") {
	case 0:
		return bytes.Repeat([]byte{0}, n)
	case 1:
		return bytes.Repeat([]byte{0xff}, n)
	}
	return rapid.SliceOfN(rapid.Byte(), n, n).Draw(t, "seed")
}

func TestHDDerive(t *testing.T) {
	pbt.Check(t, pbt.Cfg{Name: "hd_derive", Quick: 12000, Thorough: 600000}, func(r *pbt.Run) {
		t := r.T
		c := hdCase{Seed: hex.EncodeToString(genSeed(t)), Ver: rapid.IntRange(0, 5).Draw(t, "ver")}
		depth := rapid.IntRange(1, 6).Draw(t, "depth")
		for i := 0; i < depth; i++ {
			c.Path = append(c.Path, genIndex(t, fmt.Sprintf("i%d", i)))
		}
		r.Case(c)
		h, n := 0, 0
		for _, i := range c.Path {
			if i >= hd.Hardened {
				h++
			} else {
				n++
			}
		}
		r.Class(fmt.Sprintf("depth%d", depth))
		r.Class([]string{"xprv", "yprv", "zprv", "tprv", "uprv", "vprv"}[c.Ver])
		if h > 0 && n > 0 {
			r.Class("mixed_hardened_and_not")
			r.NonTrivial()
		}
		if err := checkHD(c); err != nil {
			r.Failf("%v", err)
		}
	})
}

// ---------------------------------------------------------------------------------------------
// oracle 2: many siblings under one parent (1/256 of the child keys start with a zero byte)

type sibCase struct {
	Seed     string   `json:"seed"`
	Parent   []uint32 `json:"parent"` // 0..2 steps from the master key to the parent
	Hardened bool     `json:"hardened"`
	Start    uint32   `json:"start"` // first child number (without the hardened bit)
	Count    int      `json:"count"`
}

type sibStats struct{ leadingZero, fullCompares int }

func checkSiblings(c sibCase) (st sibStats, err error) {
	seed, e := hex.DecodeString(c.Seed)
	if e != nil {
		return st, fmt.Errorf("bad case")
	}
	r, e := hd.MasterAnyLength(seed, hd.VerXprv)
	if e != nil {
		return st, nil
	}
	w := btc.MasterKey(seed, false)
	for _, i := range c.Parent {
		if r, e = r.Child(i); e != nil {
			return st, nil
		}
		w = w.Child(i)
	}
	wpub := w.Pub()
	rfp := r.Fingerprint()
	for k := 0; k < c.Count; k++ {
		idx := (c.Start + uint32(k)) & 0x7fffffff
		if c.Hardened {
			idx |= hd.Hardened
		}
		rc, e := r.Child(idx)
		if e != nil {
			continue
		}
		wc := w.Child(idx)
		if !bytes.Equal(wc.Key, rc.Key) || !bytes.Equal(wc.ChCode, rc.ChainCode) {
			return st, fmt.Errorf("child %08x: key %x chain %x, reference key %x chain %x", idx, wc.Key, wc.ChCode, rc.Key, rc.ChainCode)
		}
		if wc.Checksum != rfp || wc.I != idx || wc.Depth != r.Depth+1 {
			return st, fmt.Errorf("child %08x: fingerprint/index/depth %x/%08x/%d, reference %x/%08x/%d", idx, wc.Checksum, wc.I, wc.Depth, rfp, idx, r.Depth+1)
		}
		lz := wc.Key[1] == 0
		if lz {
			st.leadingZero++
		}
		if lz || k%32 == 0 {
			st.fullCompares++
			rpub := rc.PubKey()
			if got := wc.Pub().Key; !bytes.Equal(got, rpub) {
				return st, fmt.Errorf("child %08x: public key %x, reference %x", idx, got, rpub)
			}
			if wc.String() != rc.String() {
				return st, fmt.Errorf("child %08x: %s, reference %s", idx, wc.String(), rc.String())
			}
			if !c.Hardened {
				pc := wpub.Child(idx)
				if !bytes.Equal(pc.Key, rpub) || !bytes.Equal(pc.ChCode, rc.ChainCode) {
					return st, fmt.Errorf("child %08x: public derivation key %x chain %x, reference %x %x", idx, pc.Key, pc.ChCode, rpub, rc.ChainCode)
				}
			}
			// the child of a child: a short key must also work as a parent
			g1, g2 := idx^1, uint32(7)
			rg, e1 := rc.Child(g1)
			rh, e2 := rc.Child(g2)
			if e1 == nil && e2 == nil {
				if wg := wc.Child(g1); wg.String() != rg.String() {
					return st, fmt.Errorf("child %08x/%08x: %s, reference %s", idx, g1, wg.String(), rg.String())
				}
				if wh := wc.Child(g2); wh.String() != rh.String() {
					return st, fmt.Errorf("child %08x/%08x: %s, reference %s", idx, g2, wh.String(), rh.String())
				}
			}
		}
	}
	return st, nil
}

func TestHDSiblings(t *testing.T) {
	pbt.Check(t, pbt.Cfg{Name: "hd_siblings", Quick: 1600, Thorough: 80000}, func(r *pbt.Run) {
		t := r.T
		c := sibCase{Seed: hex.EncodeToString(genSeed(t)), Hardened: rapid.Bool().Draw(t, "hardened"), Count: 512}
		np := rapid.IntRange(0, 2).Draw(t, "np")
		for i := 0; i < np; i++ {
			c.Parent = append(c.Parent, genIndex(t, fmt.Sprintf("p%d", i)))
		}
		c.Start = rapid.SampledFrom([]uint32{0, 0x7fffff00, 1000, 0x12345678, 0x7ffffe00}).Draw(t, "start")
		if rapid.Bool().Draw(t, "rndstart") {
			c.Start = rapid.Uint32Range(0, 0x7fffffff).Draw(t, "start2")
		}
		r.Case(c)
		st, err := checkSiblings(c)
		pbt.AddExtra("siblings_compared", int64(c.Count))
		pbt.AddExtra("sibling_keys_with_leading_zero_byte", int64(st.leadingZero))
		if c.Hardened {
			r.Class("hardened")
		} else {
			r.Class("non_hardened")
		}
		if st.leadingZero > 0 {
			r.Class("leading_zero_key")
			r.NonTrivial()
		}
		if err != nil {
			r.Failf("%v", err)
		}
	})
}

// ---------------------------------------------------------------------------------------------
// oracle 3: BIP39

type mnCase struct {
	Entropy string `json:"entropy"` // hex
	Pass    string `json:"pass"`    // passphrase (NFKD-stable characters only)
	Mut     string `json:"mut"`     // mutation applied to the reference mnemonic
	A       int    `json:"a"`
	B       int    `json:"b"`
}

// mutateMnemonic applies the case's mutation to the word sequence ws.
func mutateMnemonic(ws []string, c mnCase) string {
	list := hd.WordList()
	n := len(ws)
	pos := ((c.A % n) + n) % n
	switch c.Mut {
	case "swap": // another word of the list at one position
		ws[pos] = list[((c.B%2048)+2048)%2048]
	case "cksum": // flip one bit of the checksum (the low bits of the last word)
		cs := n / 3
		idx := -1
		for i, w := range list {
			if w == ws[n-1] {
				idx = i
			}
		}
		ws[n-1] = list[idx^(1<<uint(((c.B%cs)+cs)%cs))]
	case "transpose":
		q := ((c.B % n) + n) % n
		ws[pos], ws[q] = ws[q], ws[pos]
	case "drop":
		k := 1 + ((c.B%4)+4)%4
		if k >= n {
			k = n - 1
		}
		ws = ws[:n-k]
	case "dropmid":
		ws = append(ws[:pos], ws[pos+1:]...)
	case "add":
		k := 1 + ((c.B%4)+4)%4
		for i := 0; i < k; i++ {
			ws = append(ws, list[(c.A*31+i*977+c.B)&2047])
		}
	case "unknown":
		ws[pos] = []string{"abandonn", "zzz", "bitcoin", "abando", "x", "über", "zoo.", "a-b"}[((c.B%8)+8)%8]
	case "upper":
		ws[pos] = strings.ToUpper(ws[pos])
	case "title":
		ws[pos] = strings.ToUpper(ws[pos][:1]) + ws[pos][1:]
	case "space":
		s := strings.Join(ws, " ")
		switch ((c.B % 5) + 5) % 5 {
		case 0:
			return " " + s
		case 1:
			return s + " "
		case 2:
			return strings.Replace(s, " ", "  ", 1)
		case 3:
			return strings.Replace(s, " ", "\t", 1)
		default:
			return strings.Replace(s, " ", "\n", 1)
		}
	}
	return strings.Join(ws, " ")
}

// checkMnemonic returns whether the (mutated) sentence is valid by the reference.
func checkMnemonic(c mnCase) (valid bool, err error) {
	ent, e := hex.DecodeString(c.Entropy)
	if e != nil {
		return false, fmt.Errorf("bad case")
	}
	rm, rerr := hd.MnemonicFromEntropy(ent)
	gm, gerr := bip39.NewMnemonic(ent)
	if (rerr == nil) != (gerr == nil) {
		return false, fmt.Errorf("NewMnemonic(%d bytes): err=%v, reference err=%v", len(ent), gerr, rerr)
	}
	if rerr != nil {
		return false, nil
	}
	if gm != rm {
		return false, fmt.Errorf("NewMnemonic(%x) = %q, reference %q", ent, gm, rm)
	}
	s := mutateMnemonic(strings.Split(rm, " "), c)

	// PBKDF2 without validation: defined for every string.  BIP39 feeds both strings in NFKD form.
	rseed, normalisable := hd.SeedNFKD(s, c.Pass)
	if !normalisable {
		rseed = hd.Seed(s, c.Pass) // (not generated: a character the reference cannot normalise)
	}
	var known error
	if got := bip39.NewSeed(s, c.Pass); !bytes.Equal(got, rseed) {
		raw := hd.Seed(s, c.Pass)
		if normalisable && !(hd.NFKDStable(s) && hd.NFKDStable(c.Pass)) && bytes.Equal(got, raw) {
			// class of the open finding C14-bip39-no-nfkd: a string NFKD changes, hashed as typed
			known = &knownFinding{key: kfNoNFKD, msg: fmt.Sprintf("NewSeed(%+q,%+q) = %x hashes the strings as given; BIP39 (NFKD of both) gives %x", s, c.Pass, got, rseed)}
			rseed = raw
		} else {
			return false, fmt.Errorf("NewSeed(%q,%q) = %x, reference %x", s, c.Pass, got, rseed)
		}
	}
	defer func() {
		if err == nil && known != nil {
			err = known
		}
	}()

	want, werr := hd.EntropyFromMnemonic(s)
	valid = werr == nil
	got, gerr := bip39.EntropyFromMnemonic(s)
	verr := bip39.IsMnemonicValid(s)
	seed, serr := bip39.NewSeedWithErrorChecking(s, c.Pass)

	if c.Mut == "space" {
		// BIP39 defines the sentence as words joined by single spaces; how a reader treats other
		// white space is not specified.  Accepting is allowed only with the entropy of the same words.
		if gerr == nil {
			w2, e2 := hd.EntropyFromWords(strings.Fields(s))
			if e2 != nil || !bytes.Equal(got, w2) {
				return valid, fmt.Errorf("EntropyFromMnemonic(%q) = %x, the words give %x (%v)", s, got, w2, e2)
			}
		}
		if serr == nil && !bytes.Equal(seed, rseed) && !bytes.Equal(seed, hd.Seed(strings.Join(strings.Fields(s), " "), c.Pass)) {
			return valid, fmt.Errorf("NewSeedWithErrorChecking(%q): seed %x is neither that of the string nor of its words", s, seed)
		}
		return valid, nil
	}

	if (gerr == nil) != valid {
		return valid, fmt.Errorf("EntropyFromMnemonic(%q): err=%v, reference err=%v", s, gerr, werr)
	}
	if (verr == nil) != valid {
		return valid, fmt.Errorf("IsMnemonicValid(%q): err=%v, reference err=%v", s, verr, werr)
	}
	if (serr == nil) != valid {
		return valid, fmt.Errorf("NewSeedWithErrorChecking(%q): err=%v, reference err=%v", s, serr, werr)
	}
	if !valid {
		return valid, nil
	}
	if !bytes.Equal(got, want) {
		return valid, fmt.Errorf("EntropyFromMnemonic(%q) = %x, reference %x", s, got, want)
	}
	if !bytes.Equal(seed, rseed) {
		return valid, fmt.Errorf("NewSeedWithErrorChecking(%q,%q) = %x, reference %x", s, c.Pass, seed, rseed)
	}
	// mutual inverses
	back, berr := bip39.NewMnemonic(got)
	if berr != nil || back != s {
		return valid, fmt.Errorf("NewMnemonic(EntropyFromMnemonic(%q)) = %q (%v)", s, back, berr)
	}
	return valid, nil
}

// knownFinding is the error of a disagreement that lies in the documented class of a known finding.
type knownFinding struct{ key, msg string }

func (k *knownFinding) Error() string { return k.msg }

// kfNoNFKD: gocoin hashes BIP39 mnemonic / passphrase bytes as typed, BIP39 prescribes their NFKD form.
// Class: the string contains a character that NFKD changes (and the result equals the un-normalised hash).
const kfNoNFKD = "C14-bip39-no-nfkd"

// failOrExclude reports err: a disagreement inside the class of an OPEN known finding is counted, anything
// else fails the case.
func failOrExclude(r *pbt.Run, err error) {
	if kf, ok := err.(*knownFinding); ok && pbt.FindingOpen(kf.key) {
		r.Excluded(kf.key)
		return
	}
	r.Failf("%v", err)
}

// passRunes: characters NFKD leaves alone; passRunesNFKD: characters it changes (composed letters,
// ligatures, width variants, Hangul, kana with sound marks, the ideographic space).  All of them are in
// ref/hd's NFKD table, so the reference normalises exactly as BIP39 says.
var passRunes = []rune("abcXYZ019 !#$%&()*+,-./:;<=>?@[]^_{|}~ßøæđłпарольΩλ日本語中文")
var passRunesNFKD = []rune("éèüöäñçÅåôǖệﬁ²½ｶＡ㎏한がйё\u3000ſ™パド")

func genPassRunes(t *rapid.T, n int, pNFKD int) string {
	rs := make([]rune, n)
	for i := range rs {
		if rapid.IntRange(0, 99).Draw(t, "pnf") < pNFKD {
			rs[i] = passRunesNFKD[rapid.IntRange(0, len(passRunesNFKD)-1).Draw(t, "prn")]
		} else {
			rs[i] = passRunes[rapid.IntRange(0, len(passRunes)-1).Draw(t, "pr")]
		}
	}
	return string(rs)
}

func genPass(t *rapid.T) string {
	switch rapid.IntRange(0, 8).Draw(t, "passkind") {
	case 0:
		return ""
	case 1:
		return "TREZOR"
	case 2: // characters NFKD changes
		return genPassRunes(t, rapid.IntRange(1, 12).Draw(t, "passlen"), 40)
	case 3: // white space around / only white space
		return rapid.SampledFrom([]string{" TREZOR", "TREZOR ", "  x  ", " ", "   ", "\ta", "a\t", "a  b   c", "TREZOR\n", "\r\n"}).Draw(t, "passws")
	case 4: // long
		return genPassRunes(t, rapid.IntRange(100, 300).Draw(t, "passlong"), 0)
	}
	return genPassRunes(t, rapid.IntRange(1, 24).Draw(t, "passlen"), 0)
}

func genEntropy(t *rapid.T) []byte {
	n := rapid.SampledFrom([]int{16, 20, 24, 28, 32}).Draw(t, "entlen")
	switch rapid.IntRange(0, 11).Draw(t, "entkind") {
	case 0:
		return bytes.Repeat([]byte{0}, n)
	case 1:
		return bytes.Repeat([]byte{0xff}, n)
	case 2: // leading zero bytes (big-integer implementations tend to drop them)
		b := rapid.SliceOfN(rapid.Byte(), n, n).Draw(t, "ent")
		k := rapid.IntRange(1, n).Draw(t, "lead")
		for i := 0; i < k; i++ {
			b[i] = 0
		}
		return b
	case 3: // illegal length
		m := rapid.IntRange(0, 40).Draw(t, "badlen")
		return rapid.SliceOfN(rapid.Byte(), m, m).Draw(t, "ent")
	}
	return rapid.SliceOfN(rapid.Byte(), n, n).Draw(t, "ent")
}

func TestBIP39(t *testing.T) {
	muts := []string{"", "", "", "swap", "swap", "cksum", "transpose", "drop", "dropmid", "add", "unknown", "upper", "title", "space"}
	pbt.Check(t, pbt.Cfg{Name: "bip39", Quick: 14000, Thorough: 600000}, func(r *pbt.Run) {
		t := r.T
		c := mnCase{Entropy: hex.EncodeToString(genEntropy(t)), Pass: genPass(t), Mut: rapid.SampledFrom(muts).Draw(t, "mut"),
			A: rapid.IntRange(0, 1000).Draw(t, "a"), B: rapid.IntRange(0, 5000).Draw(t, "b")}
		r.Case(c)
		valid, err := checkMnemonic(c)
		m := c.Mut
		if m == "" {
			m = "pristine"
		}
		r.Class("mut_" + m)
		ent, _ := hex.DecodeString(c.Entropy)
		if _, e := hd.MnemonicFromEntropy(ent); e != nil {
			r.Class("illegal_entropy_length")
		} else {
			r.Class(fmt.Sprintf("words%d", len(ent)*3/4))
			if valid {
				r.Class("ref_valid")
			} else {
				r.Class("ref_invalid")
			}
		}
		if !hd.NFKDStable(c.Pass) {
			r.Class("passphrase_changed_by_nfkd")
		}
		if c.Pass != strings.TrimSpace(c.Pass) {
			r.Class("passphrase_with_outer_white_space")
		}
		r.NonTrivial()
		if err != nil {
			failOrExclude(r, err)
		}
	})
}

// ---------------------------------------------------------------------------------------------
// oracle 4: WIF export -> import identity (the decoder as such is C15's subject)

type wifCase struct {
	Key string `json:"key"` // hex, 32 bytes, 1 <= key < n
	Ver byte   `json:"ver"`
	// Uncompressed: the 37-byte form without the compression flag (keys of old wallets, wallet -u)
	Uncompressed bool `json:"uncompressed,omitempty"`
}

func checkWIF(c wifCase) error {
	key, err := hex.DecodeString(c.Key)
	if err != nil || len(key) != 32 {
		return fmt.Errorf("bad case")
	}
	d := new(big.Int).SetBytes(key)
	if d.Sign() == 0 || d.Cmp(ec.N) >= 0 {
		return nil
	}
	rpub := ec.SerializeCompressed(ec.BaseMul(d))
	if c.Uncompressed {
		rpub = ec.SerializeUncompressed(ec.BaseMul(d))
	}
	if got := btc.PublicFromPrivate(key, !c.Uncompressed); !bytes.Equal(got, rpub) {
		return fmt.Errorf("PublicFromPrivate(%x) = %x, reference %x", key, got, rpub)
	}
	pa := btc.NewPrivateAddr(append([]byte{}, key...), c.Ver, !c.Uncompressed)
	s := pa.String()
	if want := addr.WIFEncode(c.Ver, key, !c.Uncompressed); s != want {
		return fmt.Errorf("WIF of %x/%02x is %s, reference %s", key, c.Ver, s, want)
	}
	wantAddr := addr.Base58CheckEncode(append([]byte{c.Ver - 0x80}, hd.Hash160(rpub)...))
	if got := pa.BtcAddr.String(); got != wantAddr {
		return fmt.Errorf("address of %x is %s, reference %s", key, got, wantAddr)
	}
	back, err := btc.DecodePrivateAddr(s)
	if err != nil {
		return fmt.Errorf("own WIF %s is refused: %v", s, err)
	}
	if !bytes.Equal(back.Key, key) || back.Version != c.Ver || !bytes.Equal(back.BtcAddr.Pubkey, rpub) || back.BtcAddr.String() != wantAddr || back.String() != s {
		return fmt.Errorf("WIF %s re-imports to key %x version %02x address %s", s, back.Key, back.Version, back.BtcAddr.String())
	}
	if err := btc.VerifyKeyPair(key, rpub); err != nil {
		return fmt.Errorf("VerifyKeyPair(%x): %v", key, err)
	}
	return nil
}

func TestWIFRoundTrip(t *testing.T) {
	pbt.Check(t, pbt.Cfg{Name: "wif_roundtrip", Quick: 4000, Thorough: 200000}, func(r *pbt.Run) {
		t := r.T
		key := rapid.SliceOfN(rapid.Byte(), 32, 32).Draw(t, "key")
		kind := rapid.IntRange(0, 5).Draw(t, "kind")
		switch kind {
		case 0: // leading zero bytes
			k := rapid.IntRange(1, 31).Draw(t, "lead")
			for i := 0; i < k; i++ {
				key[i] = 0
			}
			if key[31] == 0 {
				key[31] = 1
			}
		case 1: // just below n
			d := new(big.Int).Sub(ec.N, big.NewInt(int64(rapid.IntRange(1, 1000).Draw(t, "below"))))
			key = ec.Bytes32(d)
		case 2: // last key byte 0x00 / 0x01 / 0xff: where a compression flag would sit in the longer form
			key[31] = rapid.SampledFrom([]byte{0, 1, 1, 0xff}).Draw(t, "last")
		}
		if d := new(big.Int).SetBytes(key); d.Sign() == 0 || d.Cmp(ec.N) >= 0 {
			key[0] = 1
		}
		c := wifCase{Key: hex.EncodeToString(key), Ver: rapid.SampledFrom([]byte{0x80, 0xef, 0xb0}).Draw(t, "ver")}
		c.Uncompressed = rapid.IntRange(0, 2).Draw(t, "uncompressed") == 0
		r.Case(c)
		r.Class([]string{"leading_zeros", "near_n", "last_byte_flaglike", "random", "random", "random"}[kind])
		if c.Uncompressed {
			r.Class("uncompressed_form")
		}
		r.NonTrivial()
		if err := checkWIF(c); err != nil {
			r.Failf("%v", err)
		}
	})
}

// ---------------------------------------------------------------------------------------------
// oracle 6: the export functions are pure - the exported string of a key does not depend on what other
// goroutines export at the same time (the client's web handlers call these functions concurrently)

type concCase struct {
	Seed    string   `json:"seed"`
	Ver     int      `json:"ver"`    // index into hd.PrivateVersions
	Parent  []uint32 `json:"parent"` // 0..2 steps to the parent of the batch
	Start   uint32   `json:"start"`  // first child number of the batch
	NKeys   int      `json:"nkeys"`
	Workers int      `json:"workers"`
	Rounds  int      `json:"rounds"`
}

// expItem is one exportable view of one key with the string recorded for it.
type expItem struct {
	what   string
	hdw    *btc.HDWallet    // xprv / xpub
	pa     *btc.PrivateAddr // WIF
	h160   []byte           // Base58 addresses
	ver    byte
	script []byte // segwit addresses
	tn     bool
	want   string
}

// export renders the item afresh (address objects cache their string, so they are rebuilt every time).
func (it *expItem) export() string {
	switch {
	case it.hdw != nil:
		return it.hdw.String()
	case it.pa != nil:
		return it.pa.String()
	case it.h160 != nil:
		return btc.NewAddrFromHash160(it.h160, it.ver).String()
	}
	return btc.NewAddrFromPkScript(it.script, it.tn).String()
}

// reimport checks that the exported string s leads back to the item's key material.
func (it *expItem) reimport(s string) error {
	switch {
	case it.hdw != nil:
		y, err := btc.StringWallet(s)
		if err != nil {
			return fmt.Errorf("StringWallet(%s): %v", s, err)
		}
		if y.Prefix != it.hdw.Prefix || y.Depth != it.hdw.Depth || y.I != it.hdw.I || y.Checksum != it.hdw.Checksum ||
			!bytes.Equal(y.ChCode, it.hdw.ChCode) || !bytes.Equal(y.Key, it.hdw.Key) {
			return fmt.Errorf("%s re-imports to a different extended key", s)
		}
	case it.pa != nil:
		y, err := btc.DecodePrivateAddr(s)
		if err != nil {
			return fmt.Errorf("DecodePrivateAddr(%s): %v", s, err)
		}
		if !bytes.Equal(y.Key, it.pa.Key) || y.Version != it.pa.Version {
			return fmt.Errorf("%s re-imports to key %x", s, y.Key)
		}
	case it.h160 != nil:
		y, err := btc.NewAddrFromString(s)
		if err != nil || y == nil {
			return fmt.Errorf("NewAddrFromString(%s): %v", s, err)
		}
		if y.Version != it.ver || !bytes.Equal(y.Hash160[:], it.h160) {
			return fmt.Errorf("%s decodes to version %d hash %x", s, y.Version, y.Hash160)
		}
	default:
		y, err := btc.NewAddrFromString(s)
		if err != nil || y == nil || y.SegwitProg == nil {
			return fmt.Errorf("NewAddrFromString(%s): %v", s, err)
		}
		if !bytes.Equal(y.OutScript(), it.script) {
			return fmt.Errorf("%s decodes to script %x", s, y.OutScript())
		}
	}
	return nil
}

func checkConcurrent(c concCase) error {
	seed, err := hex.DecodeString(c.Seed)
	if err != nil || c.Ver < 0 || c.Ver >= len(hd.PrivateVersions) || c.NKeys < 1 || c.Workers < 1 || c.Rounds < 1 {
		return fmt.Errorf("bad case")
	}
	ver := hd.PrivateVersions[c.Ver]
	tn := hd.IsTestnetVersion(ver)
	r, e := hd.MasterAnyLength(seed, ver)
	if e != nil {
		return nil
	}
	w := btc.MasterKey(seed, tn)
	w.Prefix = ver
	for _, i := range c.Parent {
		if r, e = r.Child(i); e != nil {
			return nil
		}
		w = w.Child(i)
	}
	wifVer, verKey, verScr, hrp := byte(0x80), byte(0), byte(5), "bc"
	if tn {
		wifVer, verKey, verScr, hrp = 0xef, 111, 196, "tb"
	}
	// the batch; strings recorded sequentially and compared with the reference
	var items []*expItem
	for k := 0; k < c.NKeys; k++ {
		idx := c.Start + uint32(k)
		rc, e := r.Child(idx)
		if e != nil {
			continue
		}
		wc := w.Child(idx)
		pub := rc.PubKey()
		tag := fmt.Sprintf("child %08x", idx)
		items = append(items,
			&expItem{what: "xprv of " + tag, hdw: wc, want: rc.String()},
			&expItem{what: "xpub of " + tag, hdw: wc.Pub(), want: rc.Neuter().String()},
			&expItem{what: "WIF of " + tag, pa: btc.NewPrivateAddr(append([]byte{}, wc.Key[1:]...), wifVer, true), want: addr.WIFEncode(wifVer, rc.PrivKey(), true)},
			&expItem{what: "P2PKH address of " + tag, h160: hd.Hash160(pub), ver: verKey, want: hd.P2PKHAddr(pub, tn)},
			&expItem{what: "P2SH-P2WPKH address of " + tag, h160: hd.Hash160(hd.P2WPKHScript(pub)), ver: verScr, want: hd.P2SHP2WPKHAddr(pub, tn)},
			&expItem{what: "P2WPKH address of " + tag, script: hd.P2WPKHScript(pub), tn: tn, want: hd.P2WPKHAddr(pub, tn)},
			&expItem{what: "P2TR address of " + tag, script: append([]byte{0x51, 32}, pub[1:]...), tn: tn, want: addr.SegwitEncode(hrp, 1, pub[1:])},
		)
	}
	for _, it := range items {
		if got := it.export(); got != it.want {
			return fmt.Errorf("sequential export: %s is %s, reference %s", it.what, got, it.want)
		}
		if err := it.reimport(it.want); err != nil {
			return fmt.Errorf("sequential re-import: %s: %v", it.what, err)
		}
	}
	if len(items) == 0 {
		return nil
	}
	// the same exports from several goroutines at once
	var ready, done sync.WaitGroup
	start := make(chan struct{})
	errs := make([]error, c.Workers)
	for wk := 0; wk < c.Workers; wk++ {
		ready.Add(1)
		done.Add(1)
		go func(wk int) {
			defer done.Done()
			defer func() {
				if p := recover(); p != nil {
					errs[wk] = fmt.Errorf("worker %d of %d panicked while exporting concurrently: %v", wk, c.Workers, p)
				}
			}()
			ready.Done()
			<-start
			n := 0
			for round := 0; round < c.Rounds; round++ {
				for j := range items {
					it := items[(j+wk*7)%len(items)]
					got := it.export()
					if got != it.want {
						errs[wk] = fmt.Errorf("worker %d of %d, round %d: %s is exported as %s, sequentially (and by the reference) as %s", wk, c.Workers, round, it.what, got, it.want)
						return
					}
					if n++; n%5 == 0 {
						if err := it.reimport(got); err != nil {
							errs[wk] = fmt.Errorf("worker %d of %d, round %d: %s: %v", wk, c.Workers, round, it.what, err)
							return
						}
					}
				}
			}
		}(wk)
	}
	ready.Wait()
	close(start)
	done.Wait()
	for _, e := range errs {
		if e != nil {
			return e
		}
	}
	return nil
}

func TestConcurrentExport(t *testing.T) {
	pbt.Check(t, pbt.Cfg{Name: "concurrent_export", Quick: 128, Thorough: 6000}, func(r *pbt.Run) {
		t := r.T
		c := concCase{Seed: hex.EncodeToString(genSeed(t)), Ver: rapid.IntRange(0, 5).Draw(t, "ver"),
			Start: rapid.SampledFrom([]uint32{0, 0x80000000, 0x7ffffff8, 1000}).Draw(t, "start"),
			NKeys: rapid.IntRange(2, 6).Draw(t, "nkeys"), Workers: 18 - rapid.IntRange(2, 16).Draw(t, "workers"),
			Rounds: rapid.IntRange(40, 120).Draw(t, "rounds")}
		np := rapid.IntRange(0, 2).Draw(t, "np")
		for i := 0; i < np; i++ {
			c.Parent = append(c.Parent, genIndex(t, fmt.Sprintf("p%d", i)))
		}
		r.Case(c)
		switch {
		case c.Workers <= 3:
			r.Class("workers_2_3")
		case c.Workers <= 7:
			r.Class("workers_4_7")
		default:
			r.Class("workers_8_16")
		}
		pbt.AddExtra("concurrent_exports", int64(c.Workers*c.Rounds*c.NKeys*7))
		r.NonTrivial()
		if err := checkConcurrent(c); err != nil {
			r.Failf("%v", err)
		}
	})
}
