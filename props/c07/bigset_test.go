package c07

// A restart from a snapshot of a LARGE unspent set.  The histories of the other tests keep the set at a few hundred
// records; the snapshot loader reads records in packs of 65536 and hands them to map-filling goroutines, so a loader
// defect that only shows from the first full pack on is out of their reach.  Here a set of 65530..196700 records (sizes
// around one, two and three full packs) is committed, the database is closed (clean shutdown) or simply abandoned after
// the snapshot was written (process death after a completed save), reopened, and compared record by record: the set
// after the restart must be exactly the set of the snapshot's block - and a second close / reopen must reproduce it.

import (
	"bytes"
	"crypto/sha256"
	"encoding/binary"
	"encoding/json"
	"fmt"
	"os"
	"testing"
	"time"

	"github.com/piotrnar/gocoin/lib/btc"
	"github.com/piotrnar/gocoin/lib/utxo"
	"pgregory.net/rapid"
	"verif/pbt"
)

type bigSetCase struct {
	Seed     uint64 `json:"seed"`
	Records  int    `json:"records"`
	Compress bool   `json:"compress_utxo"`
	Blocks   int    `json:"blocks"`    // the records arrive in that many block commits
	Abandon  bool   `json:"abandon"`   // do not Close: wait for the snapshot of the last block, then just reopen
	Spend    int    `json:"spend_pct"` // that share of the records of the first block is spent again by the last one
}

func init() {
	pbt.RegisterReplay("large_set_restart", func(raw json.RawMessage) error {
		var c bigSetCase
		if err := json.Unmarshal(raw, &c); err != nil {
			return err
		}
		return checkBigSet(c)
	})
}

func bigSetRec(seed uint64, i int, height uint32) *utxo.UtxoRec {
	var k [24]byte
	binary.LittleEndian.PutUint64(k[:], seed)
	binary.LittleEndian.PutUint64(k[8:], uint64(i))
	id := sha256.Sum256(k[:])
	rec := &utxo.UtxoRec{TxID: id, InBlock: height, Coinbase: i%97 == 0, Outs: make([]*utxo.UtxoTxOut, 1+i%3)}
	last := len(rec.Outs) - 1
	s := append([]byte{0x51, 0x20}, id[:]...) // a P2TR-shaped script: stored as it is in both formats
	rec.Outs[last] = &utxo.UtxoTxOut{Value: uint64(1000 + i), PKScr: s}
	return rec
}

func checkBigSet(c bigSetCase) (err error) {
	defer func() {
		if p := recover(); p != nil {
			err = fmt.Errorf("panic: %v", p)
		}
	}()
	utxo.UTXO_WRITING_TIME_TARGET = 0
	dir, e := os.MkdirTemp("", "c07big")
	if e != nil {
		return nil
	}
	defer os.RemoveAll(dir)
	dir += string(os.PathSeparator)
	open := func(rescan bool) *utxo.UnspentDB {
		return utxo.NewUnspentDb(&utxo.NewUnspentOpts{Dir: dir, Rescan: rescan, CompressRecords: c.Compress})
	}
	// start from the snapshot of the empty set (a rescan start would pre-size 256 maps for 100k records each)
	var hdr [48]byte
	if c.Compress {
		hdr[7] = 0x80
	}
	os.WriteFile(dir+"UTXO.db", hdr[:], 0o660)
	db := open(false)
	want := map[[32]byte]*utxo.UtxoRec{}
	per := (c.Records + c.Blocks - 1) / c.Blocks
	var firstBlock []*utxo.UtxoRec
	var hash [32]byte
	h := uint32(0)
	for i := 0; i < c.Records; {
		h++
		var recs []*utxo.UtxoRec
		for j := 0; j < per && i < c.Records; j, i = j+1, i+1 {
			r := bigSetRec(c.Seed, i, h)
			recs = append(recs, r)
			want[r.TxID] = r
		}
		if h == 1 {
			firstBlock = recs
		}
		ch := &utxo.BlockChanges{Height: h, LastKnownHeight: h, AddList: recs, DeledTxs: map[[32]byte][]bool{}}
		if int(h) == c.Blocks && c.Spend > 0 {
			for j, r := range firstBlock {
				if j%100 < c.Spend {
					sp := make([]bool, len(r.Outs))
					sp[len(r.Outs)-1] = true
					ch.DeledTxs[r.TxID] = sp
					delete(want, r.TxID)
				}
			}
		}
		binary.LittleEndian.PutUint32(hash[:], h)
		hash[31] = 0xc7
		// AddList records are consumed by the commit: keep our own copy for the comparison
		for k, r := range recs {
			cp := *r
			cp.Outs = append([]*utxo.UtxoTxOut{}, r.Outs...)
			want[r.TxID] = &cp
			_ = k
		}
		if int(h) == c.Blocks && c.Spend > 0 {
			for id := range ch.DeledTxs {
				delete(want, id)
			}
		}
		db.CommitBlockTxs(ch, hash[:])
	}
	compare := func(db *utxo.UnspentDB, when string) error {
		if db.LastBlockHeight != h || !bytes.Equal(db.LastBlockHash, hash[:]) {
			return fmt.Errorf("%s: the set is at height %d / block %x, the last committed block is %d / %x", when, db.LastBlockHeight, db.LastBlockHash[:4], h, hash[:4])
		}
		n := 0
		for i := range db.HashMap {
			n += len(db.HashMap[i])
		}
		missing := 0
		var firstMissing [32]byte
		for id, r := range want {
			for vout, o := range r.Outs {
				if o == nil {
					continue
				}
				got := db.UnspentGet(&btc.TxPrevOut{Hash: id, Vout: uint32(vout)})
				if got == nil {
					if missing == 0 {
						firstMissing = id
					}
					missing++
					continue
				}
				if got.Value != o.Value || !bytes.Equal(got.Pk_script, o.PKScr) || got.BlockHeight != r.InBlock || got.WasCoinbase != r.Coinbase {
					return fmt.Errorf("%s: output %x:%d differs from what was committed", when, id[:6], vout)
				}
			}
		}
		if missing > 0 || n != len(want) {
			return fmt.Errorf("%s: %d records in the set, %d were committed and not spent; %d of them cannot be found (first: %x)", when, n, len(want), missing, firstMissing[:8])
		}
		return nil
	}
	if e := compare(db, "before the restart"); e != nil {
		return e
	}
	if c.Abandon {
		// the snapshot of the last block completes, then the process "dies" (nothing is closed)
		db.Idle()
		for i := 0; i < 30000 && (db.WritingInProgress.Get() || db.DirtyDB.Get()); i++ {
			time.Sleep(time.Millisecond)
		}
		db.Close() // (only waits for the writer's file handle; nothing is dirty any more)
	} else {
		db.Close()
	}
	db2 := open(false)
	if e := compare(db2, "after the restart"); e != nil {
		db2.Close()
		return e
	}
	// one more block, clean shutdown, second restart
	h++
	r := bigSetRec(c.Seed, c.Records+7, h)
	cp := *r
	cp.Outs = append([]*utxo.UtxoTxOut{}, r.Outs...)
	want[r.TxID] = &cp
	binary.LittleEndian.PutUint32(hash[:], h)
	db2.CommitBlockTxs(&utxo.BlockChanges{Height: h, LastKnownHeight: h, AddList: []*utxo.UtxoRec{r}, DeledTxs: map[[32]byte][]bool{}}, hash[:])
	db2.Close()
	db3 := open(false)
	defer db3.Close()
	return compare(db3, "after one more block and a second restart")
}

func TestLargeSetRestart(t *testing.T) {
	pbt.Check(t, pbt.Cfg{Name: "large_set_restart", Quick: 16, Thorough: 160}, func(r *pbt.Run) {
		c := bigSetCase{Seed: rapid.Uint64().Draw(r.T, "seed"), Compress: rapid.IntRange(0, 2).Draw(r.T, "compress") == 0,
			Abandon: rapid.Bool().Draw(r.T, "abandon")}
		c.Records = rapid.SampledFrom([]int{65530, 65535, 65536, 65537, 70000, 131071, 131072, 131073, 140000, 196700}).Draw(r.T, "records")
		c.Blocks = rapid.IntRange(1, 5).Draw(r.T, "blocks")
		if c.Blocks > 1 && rapid.Bool().Draw(r.T, "spendsome") {
			c.Spend = rapid.SampledFrom([]int{1, 10, 50}).Draw(r.T, "spend")
		}
		r.Case(c)
		switch {
		case c.Records < 65536:
			r.Class("just_below_one_full_pack")
		case c.Records < 131072:
			r.Class("one_full_pack")
		default:
			r.Class("two_or_more_full_packs")
		}
		if c.Abandon {
			r.Class("no_clean_shutdown")
		}
		r.NonTrivial()
		if err := checkBigSet(c); err != nil {
			r.Failf("%v", err)
		}
	})
}
