package c07

// A restart from a snapshot of a LARGE unspent set.  The histories of the other tests keep the set at a few hundred
// records; the snapshot loader reads records in packs of 65536 and hands them to map-filling goroutines, so a loader
// defect that only shows from the first full pack on is out of their reach.  Here a set of 65530..196700 records (sizes
// around one, two and three full packs) is committed, the database is closed (clean shutdown) or simply abandoned after
// the snapshot was written (process death after a completed save), reopened, and compared record by record: the set
// after the restart must be exactly the set of the snapshot's block - and a second close / reopen must reproduce it.

import (
	"bytes"
	"crypto/sha256"
	"encoding/binary"
	"encoding/json"
	"fmt"
	"os"
	"path/filepath"
	"runtime"
	"testing"
	"time"

	"github.com/piotrnar/gocoin/lib/btc"
	"github.com/piotrnar/gocoin/lib/utxo"
	"pgregory.net/rapid"
	"verif/pbt"
)

type bigSetCase struct {
	Seed     uint64 `json:"seed"`
	Records  int    `json:"records"`
	Compress bool   `json:"compress_utxo"`
	Blocks   int    `json:"blocks"`    // the records arrive in that many block commits
	Abandon  bool   `json:"abandon"`   // do not Close: wait for the snapshot of the last block, then just reopen
	Spend    int    `json:"spend_pct"` // that share of the records of the first block is spent again by the last one
	// AbortedSave: the snapshot of the last block is started and the next block arrives DelayUs later (the save is
	// aborted, or has just finished); the process dies right then (the directory is copied) and the copy is opened
	AbortedSave bool `json:"aborted_save,omitempty"`
	DelayUs     int  `json:"delay_us,omitempty"`
	Procs       int  `json:"gomaxprocs,omitempty"` // while the save runs (with one processor the file writer falls behind)
}

func init() {
	pbt.RegisterReplay("large_set_restart", func(raw json.RawMessage) error {
		var c bigSetCase
		if err := json.Unmarshal(raw, &c); err != nil {
			return err
		}
		return checkBigSet(c)
	})
}

func bigSetRec(seed uint64, i int, height uint32) *utxo.UtxoRec {
	var k [24]byte
	binary.LittleEndian.PutUint64(k[:], seed)
	binary.LittleEndian.PutUint64(k[8:], uint64(i))
	id := sha256.Sum256(k[:])
	rec := &utxo.UtxoRec{TxID: id, InBlock: height, Coinbase: i%97 == 0, Outs: make([]*utxo.UtxoTxOut, 1+i%3)}
	last := len(rec.Outs) - 1
	s := append([]byte{0x51, 0x20}, id[:]...) // a P2TR-shaped script: stored as it is in both formats
	rec.Outs[last] = &utxo.UtxoTxOut{Value: uint64(1000 + i), PKScr: s}
	return rec
}

func checkBigSet(c bigSetCase) (err error) {
	defer func() {
		if p := recover(); p != nil {
			err = fmt.Errorf("panic: %v", p)
		}
	}()
	utxo.UTXO_WRITING_TIME_TARGET = 0
	dir, e := os.MkdirTemp("", "c07big")
	if e != nil {
		return nil
	}
	defer os.RemoveAll(dir)
	dir += string(os.PathSeparator)
	open := func(rescan bool) *utxo.UnspentDB {
		return utxo.NewUnspentDb(&utxo.NewUnspentOpts{Dir: dir, Rescan: rescan, CompressRecords: c.Compress})
	}
	// start from the snapshot of the empty set (a rescan start would pre-size 256 maps for 100k records each)
	var hdr [48]byte
	if c.Compress {
		hdr[7] = 0x80
	}
	os.WriteFile(dir+"UTXO.db", hdr[:], 0o660)
	db := open(false)
	want := map[[32]byte]*utxo.UtxoRec{}
	per := (c.Records + c.Blocks - 1) / c.Blocks
	var firstBlock []*utxo.UtxoRec
	var hash [32]byte
	h := uint32(0)
	for i := 0; i < c.Records; {
		h++
		var recs []*utxo.UtxoRec
		for j := 0; j < per && i < c.Records; j, i = j+1, i+1 {
			r := bigSetRec(c.Seed, i, h)
			recs = append(recs, r)
			want[r.TxID] = r
		}
		if h == 1 {
			firstBlock = recs
		}
		ch := &utxo.BlockChanges{Height: h, LastKnownHeight: h, AddList: recs, DeledTxs: map[[32]byte][]bool{}}
		if int(h) == c.Blocks && c.Spend > 0 {
			for j, r := range firstBlock {
				if j%100 < c.Spend {
					sp := make([]bool, len(r.Outs))
					sp[len(r.Outs)-1] = true
					ch.DeledTxs[r.TxID] = sp
					delete(want, r.TxID)
				}
			}
		}
		binary.LittleEndian.PutUint32(hash[:], h)
		hash[31] = 0xc7
		// AddList records are consumed by the commit: keep our own copy for the comparison
		for k, r := range recs {
			cp := *r
			cp.Outs = append([]*utxo.UtxoTxOut{}, r.Outs...)
			want[r.TxID] = &cp
			_ = k
		}
		if int(h) == c.Blocks && c.Spend > 0 {
			for id := range ch.DeledTxs {
				delete(want, id)
			}
		}
		db.CommitBlockTxs(ch, hash[:])
	}
	compare := func(db *utxo.UnspentDB, when string) error {
		if db.LastBlockHeight != h || !bytes.Equal(db.LastBlockHash, hash[:]) {
			return fmt.Errorf("%s: the set is at height %d / block %x, the last committed block is %d / %x", when, db.LastBlockHeight, db.LastBlockHash[:4], h, hash[:4])
		}
		n := 0
		for i := range db.HashMap {
			n += len(db.HashMap[i])
		}
		missing := 0
		var firstMissing [32]byte
		for id, r := range want {
			for vout, o := range r.Outs {
				if o == nil {
					continue
				}
				got := db.UnspentGet(&btc.TxPrevOut{Hash: id, Vout: uint32(vout)})
				if got == nil {
					if missing == 0 {
						firstMissing = id
					}
					missing++
					continue
				}
				if got.Value != o.Value || !bytes.Equal(got.Pk_script, o.PKScr) || got.BlockHeight != r.InBlock || got.WasCoinbase != r.Coinbase {
					return fmt.Errorf("%s: output %x:%d differs from what was committed", when, id[:6], vout)
				}
			}
		}
		if missing > 0 || n != len(want) {
			return fmt.Errorf("%s: %d records in the set, %d were committed and not spent; %d of them cannot be found (first: %x)", when, n, len(want), missing, firstMissing[:8])
		}
		return nil
	}
	if e := compare(db, "before the restart"); e != nil {
		return e
	}
	if c.AbortedSave {
		return abortedSaveThenCrash(c, db, dir, open, want, h, hash)
	}
	if c.Abandon {
		// the snapshot of the last block completes, then the process "dies" (nothing is closed)
		db.Idle()
		for i := 0; i < 30000 && (db.WritingInProgress.Get() || db.DirtyDB.Get()); i++ {
			time.Sleep(time.Millisecond)
		}
		db.Close() // (only waits for the writer's file handle; nothing is dirty any more)
	} else {
		db.Close()
	}
	db2 := open(false)
	if e := compare(db2, "after the restart"); e != nil {
		db2.Close()
		return e
	}
	// one more block, clean shutdown, second restart
	h++
	r := bigSetRec(c.Seed, c.Records+7, h)
	cp := *r
	cp.Outs = append([]*utxo.UtxoTxOut{}, r.Outs...)
	want[r.TxID] = &cp
	binary.LittleEndian.PutUint32(hash[:], h)
	db2.CommitBlockTxs(&utxo.BlockChanges{Height: h, LastKnownHeight: h, AddList: []*utxo.UtxoRec{r}, DeledTxs: map[[32]byte][]bool{}}, hash[:])
	db2.Close()
	db3 := open(false)
	defer db3.Close()
	return compare(db3, "after one more block and a second restart")
}

// abortedSaveThenCrash: the set (height h) is complete and not yet saved.  Idle starts its snapshot; DelayUs later one
// more block is committed, which aborts the save (or finds it finished); when the writer has settled the directory
// is copied - the image a process death leaves - and the copy is opened.  The loader must come back (no hang) with
// the set of the last COMPLETE snapshot: that of block h, or the empty set the directory started with.
func abortedSaveThenCrash(c bigSetCase, db *utxo.UnspentDB, dir string, open func(bool) *utxo.UnspentDB, want map[[32]byte]*utxo.UtxoRec, h uint32, hash [32]byte) error {
	if c.Procs > 0 {
		defer runtime.GOMAXPROCS(runtime.GOMAXPROCS(c.Procs))
	}
	db.Idle()
	time.Sleep(time.Duration(c.DelayUs) * time.Microsecond)
	r := bigSetRec(c.Seed, c.Records+9, h+1)
	var h2 [32]byte
	binary.LittleEndian.PutUint32(h2[:], h+1)
	h2[31] = 0xc8
	db.CommitBlockTxs(&utxo.BlockChanges{Height: h + 1, LastKnownHeight: h + 1, AddList: []*utxo.UtxoRec{r}, DeledTxs: map[[32]byte][]bool{}}, h2[:])
	for i := 0; i < 30000; i++ {
		tmp, _ := filepath.Glob(dir + "*.db.tmp")
		if len(tmp) == 0 && !db.WritingInProgress.Get() {
			break
		}
		time.Sleep(time.Millisecond)
	}
	img, e := os.MkdirTemp("", "c07img")
	if e != nil {
		return nil
	}
	defer os.RemoveAll(img)
	img += string(os.PathSeparator)
	ents, _ := os.ReadDir(dir)
	for _, en := range ents {
		if b, e := os.ReadFile(dir + en.Name()); e == nil {
			os.WriteFile(img+en.Name(), b, 0o660)
		}
	}
	defer db.Close()
	type res struct {
		db  *utxo.UnspentDB
		err error
	}
	done := make(chan res, 1)
	go func() {
		defer func() {
			if p := recover(); p != nil {
				done <- res{nil, fmt.Errorf("opening the directory a process death left behind: panic: %v", p)}
			}
		}()
		done <- res{utxo.NewUnspentDb(&utxo.NewUnspentOpts{Dir: img, CompressRecords: c.Compress}), nil}
	}()
	var db2 *utxo.UnspentDB
	select {
	case r := <-done:
		if r.err != nil {
			return r.err
		}
		db2 = r.db
	case <-time.After(90 * time.Second):
		return fmt.Errorf("process death %d us after a save of %d records began (aborted by the next block): opening the directory does not return (90 s)", c.DelayUs, c.Records)
	}
	defer db2.Close()
	n := 0
	for i := range db2.HashMap {
		n += len(db2.HashMap[i])
	}
	switch db2.LastBlockHeight {
	case 0:
		if n != 0 {
			return fmt.Errorf("after the process death the set is at height 0 but holds %d records", n)
		}
	case h:
		if !bytes.Equal(db2.LastBlockHash, hash[:]) || n != len(want) {
			return fmt.Errorf("after the process death the set is at height %d / block %x with %d records; the snapshot of that block has %d records", h, db2.LastBlockHash[:4], n, len(want))
		}
		for id, r := range want {
			last := len(r.Outs) - 1
			got := db2.UnspentGet(&btc.TxPrevOut{Hash: id, Vout: uint32(last)})
			if got == nil || got.Value != r.Outs[last].Value || !bytes.Equal(got.Pk_script, r.Outs[last].PKScr) {
				return fmt.Errorf("after the process death (set at height %d): output %x:%d is missing or differs", h, id[:6], last)
			}
		}
	default:
		return fmt.Errorf("after the process death %d us after the save of height %d began, the set is at height %d - neither the new snapshot nor the one before", c.DelayUs, h, db2.LastBlockHeight)
	}
	return nil
}

func TestLargeSetRestart(t *testing.T) {
	pbt.Check(t, pbt.Cfg{Name: "large_set_restart", Quick: 48, Thorough: 480}, func(r *pbt.Run) {
		c := bigSetCase{Seed: rapid.Uint64().Draw(r.T, "seed"), Compress: rapid.IntRange(0, 2).Draw(r.T, "compress") == 0,
			Abandon: rapid.Bool().Draw(r.T, "abandon")}
		c.Records = rapid.SampledFrom([]int{65530, 65535, 65536, 65537, 70000, 131071, 131072, 131073, 140000, 196700}).Draw(r.T, "records")
		c.Blocks = rapid.IntRange(1, 5).Draw(r.T, "blocks")
		if c.Blocks > 1 && rapid.Bool().Draw(r.T, "spendsome") {
			c.Spend = rapid.SampledFrom([]int{1, 10, 50}).Draw(r.T, "spend")
		}
		if rapid.IntRange(0, 2).Draw(r.T, "abortedsave") == 0 {
			c.Abandon = false
			c.AbortedSave = true
			c.DelayUs = rapid.SampledFrom([]int{0, 0, 100, 500, 2000, 10000, 50000}).Draw(r.T, "delay")
			c.Procs = rapid.SampledFrom([]int{1, 1, 2}).Draw(r.T, "procs")
			c.Records = rapid.SampledFrom([]int{131073, 140000, 196700, 262200}).Draw(r.T, "bigrecords")
			r.Class("process_death_after_an_aborted_save")
		}
		r.Case(c)
		switch {
		case c.Records < 65536:
			r.Class("just_below_one_full_pack")
		case c.Records < 131072:
			r.Class("one_full_pack")
		default:
			r.Class("two_or_more_full_packs")
		}
		if c.Abandon {
			r.Class("no_clean_shutdown")
		}
		r.NonTrivial()
		if err := checkBigSet(c); err != nil {
			r.Failf("%v", err)
		}
	})
}
