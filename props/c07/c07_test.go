package c07

import (
	"bufio"
	"bytes"
	"context"
	"crypto/sha256"
	"encoding/hex"
	"encoding/json"
	"fmt"
	"os"
	"os/exec"
	"path/filepath"
	"strconv"
	"strings"
	"sync"
	"testing"
	"time"

	"github.com/piotrnar/gocoin/lib/btc"
	"github.com/piotrnar/gocoin/lib/utxo"
	"pgregory.net/rapid"
	"verif/env"
	"verif/pbt"
	"verif/sim"
)

// C07: crash at any point, restart consistent.  Every run that touches gocoin happens in a child
// process (this test binary re-executed with VERIF_C07_MODE set), because gocoin keeps process-global
// state (record format function variables) and because the run is meant to be killed.
//
//	template  build a data directory holding the prefix blocks, close it cleanly
//	run       execute the workload in the directory (may be killed by VERIF_CRASH_AT); log step progress
//	recover   reopen the directory the way the client does, check tip / UTXO against the model, feed the
//	          remaining blocks, check the final state; write the verdict as JSON

type Case struct {
	Sim            sim.Case `json:"sim"`
	CompressUTXO   bool     `json:"compress_utxo"`
	CompressBlocks bool     `json:"compress_blocks"`
	MaxDataFile    uint64   `json:"max_data_file,omitempty"`   // block data rolls over to a new file beyond this size (0: one file)
	Observer       bool     `json:"utxo_callbacks,omitempty"`  // UTXO callbacks installed (the client with its wallet on)
	KeepDataFiles  uint32   `json:"keep_data_files,omitempty"` // the node removes block data files older than that many (0: keeps all)
	Crash          string   `json:"crash,omitempty"`           // "<name>#<n>"; empty in a generated case = enumerate all
	Truncate       string   `json:"truncate,omitempty"`        // "<file>:<length>" applied after a clean run
}

func (c Case) opts() env.Options {
	o := env.Options{CompressUTXO: c.CompressUTXO, CompressBlocks: c.CompressBlocks, MaxDataFile: c.MaxDataFile, KeepDataFiles: c.KeepDataFiles}
	if c.Observer { // UTXO callbacks installed, as in the client while its wallet is on
		o.UTXOCallbacks = env.ObserverCallbacks()
	}
	return o
}

func TestMain(m *testing.M) {
	if mode := os.Getenv("VERIF_C07_MODE"); mode != "" {
		childMain(mode)
		return
	}
	for _, name := range []string{"crash_workloads", "reorg_after_snapshot", "failed_reorg_unflushed", "truncate_workloads"} {
		pbt.RegisterReplay(name, replayCase)
	}
	pbt.RegisterReplay("crash", replayCase)
	pbt.Main(m, "C07")
}

func replayCase(raw json.RawMessage) error {
	{
		var c Case
		if err := json.Unmarshal(raw, &c); err != nil {
			return err
		}
		if c.Crash == "" && c.Truncate == "" {
			_, err := enumerate(c, nil, 1<<30)
			return err
		}
		// which of several equal-work stored branches the node re-applies first depends on map order inside
		// gocoin: give a recorded point a few chances to show
		var err error
		for i := 0; i < 6 && err == nil; i++ {
			err = onePoint(c)
		}
		return err
	}
}

// ---------------------------------------------------------------------------------------------
// child side

func readCase() Case {
	var c Case
	b, err := os.ReadFile(os.Getenv("VERIF_C07_CASE"))
	if err != nil {
		fatal("case: %v", err)
	}
	if err := json.Unmarshal(b, &c); err != nil {
		fatal("case: %v", err)
	}
	return c
}

func fatal(f string, a ...any) {
	fmt.Fprintf(os.Stderr, "C07-CHILD-FATAL: "+f+"\n", a...)
	os.Exit(3)
}

func childMain(mode string) {
	env.Quiet()
	c := readCase()
	dir := os.Getenv("VERIF_C07_DIR")
	switch mode {
	case "template":
		tc := c.Sim
		tc.Ops = nil
		s, err := sim.RunCaseCfg(tc, c.opts(), sim.Hooks{}, nil, sim.Config{Dir: dir})
		if err != nil {
			fatal("template: %v", err)
		}
		s.Node.Ch.Idle()
		s.WaitSnapshot()
		s.Close()
	case "run":
		logf, err := os.OpenFile(os.Getenv("VERIF_C07_LOG"), os.O_CREATE|os.O_WRONLY|os.O_APPEND, 0o644)
		if err != nil {
			fatal("log: %v", err)
		}
		cfg := sim.Config{Dir: dir, AssumePrefix: true, StepLog: func(phase string, i int) {
			fmt.Fprintf(logf, "%s %d\n", phase, i)
			if phase == "done" && i < len(c.Sim.Ops) && c.Sim.Ops[i].Kind == "idle" && c.Sim.Ops[i].Arg%2 == 1 {
				// a completed snapshot: everything up to here in the block files is needed to reopen
				fmt.Fprintf(logf, "snap %d %d\n", fileSize(dir, "blockchain.new"), fileSize(dir, "blockchain.dat"))
			}
		}}
		s, err := sim.RunCaseCfg(c.Sim, c.opts(), sim.Hooks{}, func(string) bool { return true }, cfg)
		if err != nil {
			if _, ok := err.(*sim.Excluded); !ok {
				// a disagreement while everything is up belongs to C04/C06; here it makes the workload unusable
				fmt.Fprintf(logf, "diverged %v\n", err)
				os.Exit(4)
			}
		}
		if os.Getenv("VERIF_C07_NOCLOSE") != "" {
			fmt.Fprintf(logf, "sizes %d %d\n", fileSize(dir, "blockchain.new"), fileSize(dir, "blockchain.dat"))
			os.Exit(0) // the process ends without shutting the chain down
		}
		if s != nil {
			s.Close()
		}
		fmt.Fprintf(logf, "closed\n")
	case "recover":
		res := recoverAndCheck(c, dir, os.Getenv("VERIF_C07_LOG"))
		b, _ := json.Marshal(res)
		os.WriteFile(os.Getenv("VERIF_C07_OUT"), b, 0o644)
	default:
		fatal("unknown mode %s", mode)
	}
	os.Exit(0)
}

func fileSize(dir, name string) int64 {
	if name == "blockchain.dat" {
		name = lastDatFile(dir)
	}
	st, err := os.Stat(filepath.Join(dir, name))
	if err != nil {
		return 0
	}
	return st.Size()
}

// lastDatFile is the name of the block data file being appended to.
func lastDatFile(dir string) string {
	best := "blockchain.dat"
	for _, pat := range []string{"bl????????.dat", "blockchain-????????.dat"} {
		m, _ := filepath.Glob(filepath.Join(dir, pat))
		for _, f := range m {
			if b := filepath.Base(f); best == "blockchain.dat" || b > best {
				best = b
			}
		}
	}
	return best
}

type verdict struct {
	OK         bool   `json:"ok"`
	Err        string `json:"err,omitempty"`
	TipHeight  uint32 `json:"tip_height"`
	InFlight   int    `json:"in_flight"`
	Closed     bool   `json:"closed"`
	Stage      int    `json:"stage"`       // 1 reopen, 2 tip identity, 3 unspent set at the recovered tip, 4 after feeding the rest
	Discarded  int    `json:"discarded"`   // stored blocks that failed to connect while the node re-applied them at start-up
	StuckBelow bool   `json:"stuck_below"` // stage 4 ended on a valid block of the history that is not the most-work tip
	// state right after the reopen (stage 3 passed: tip and unspent set agree with the model), for the comparison
	// with what the client's own start-up code reaches on a copy of the same directory
	SecondDeaths int    `json:"second_deaths,omitempty"` // the directory was opened once more as a second process death right after the restart leaves it
	OpenTip      string `json:"open_tip,omitempty"`
	OpenRecords  int    `json:"open_records,omitempty"`
	OpenDigest   string `json:"open_digest,omitempty"`
}

// utxoDigest: number of stored records and the xor of their SHA-256 (the same function as in the client-side driver
// /repo/client/verif_recover_test.go)
func utxoDigest(db *utxo.UnspentDB) (n int, dig string) {
	var d [32]byte
	for i := range db.HashMap {
		for _, v := range db.HashMap[i] {
			x := sha256.Sum256(*v)
			for j := range d {
				d[j] ^= x[j]
			}
			n++
		}
	}
	return n, hex.EncodeToString(d[:])
}

func readLog(fn string) (inflight int, closed bool, diverged string) {
	inflight = -1
	f, err := os.Open(fn)
	if err != nil {
		return
	}
	defer f.Close()
	sc := bufio.NewScanner(f)
	for sc.Scan() {
		w := strings.Fields(sc.Text())
		switch {
		case len(w) == 2 && w[0] == "start":
			inflight, _ = strconv.Atoi(w[1])
		case len(w) >= 1 && w[0] == "closed":
			closed = true
		case len(w) >= 1 && w[0] == "diverged":
			diverged = sc.Text()
		}
	}
	return
}

func recoverAndCheck(c Case, dir, logfn string) (res verdict) {
	// the stage reached so far is on disk whenever this process dies inside gocoin
	mark := func(stage int) {
		res.Stage = stage
		b, _ := json.Marshal(res)
		os.WriteFile(os.Getenv("VERIF_C07_OUT"), b, 0o644)
	}
	inflight, closed, _ := readLog(logfn)
	res.InFlight, res.Closed = inflight, closed
	// the model alone regenerates every block of the history deterministically
	ms, err := sim.RunCaseCfg(c.Sim, c.opts(), sim.Hooks{}, func(string) bool { return true }, sim.Config{ModelOnly: true})
	if err != nil {
		res.Err = "model replay: " + err.Error()
		return
	}
	// 1. reopening must succeed without manual repair (a panic or os.Exit kills this child: the parent sees it)
	mark(1)
	node, err := env.Open(dir, ms.P, c.opts())
	if err != nil {
		res.Err = "reopen failed: " + err.Error()
		return
	}
	mark(2)
	h, height := node.Tip()
	res.TipHeight = height
	// 2. the tip is a block whose delivery had at least begun and whose chain is valid
	var tip *sim.MNode
	for _, n := range ms.Nodes {
		if n.Idx.Hash == h {
			tip = n
		}
	}
	switch {
	case tip == nil:
		res.Err = fmt.Sprintf("recovered tip %x (height %d) is not a block of the history", h[:6], height)
		return
	case !ms.Valid(tip):
		res.Err = fmt.Sprintf("recovered tip %s is not valid in the reference model", tip.Describe())
		return
	case tip != ms.Root && tip.DelivStep > inflight:
		res.Err = fmt.Sprintf("recovered tip %s was delivered in step %d, the process died in step %d", tip.Describe(), tip.DelivStep, inflight)
		return
	}
	// 3. the unspent set is the replay of that tip's chain
	mark(3)
	if d := env.DiffEntries(node.DumpUTXO(), env.EntriesOf(tip.View)); d != "" {
		res.Err = fmt.Sprintf("after reopening at tip %s the unspent-output set differs from the replay of its chain:\n%s", tip.Describe(), d)
		return
	}
	res.OpenTip = hex.EncodeToString(h[:])
	res.OpenRecords, res.OpenDigest = utxoDigest(node.Ch.Unspent)
	// 3b. the process dies AGAIN right after this start-up, before anything new was saved (nothing is closed; the node
	// is quiescent: no save and no block write is under way): the directory as it is on the disk now must open as well,
	// at a valid tip with the unspent set of that tip's chain
	if sha256.Sum256([]byte(dir))[0]%2 == 0 || os.Getenv("VERIF_C07_ALWAYS_AGAIN") != "" {
		img := filepath.Join(filepath.Dir(dir), "again-"+filepath.Base(dir))
		if err := copyDir(dir, img); err == nil {
			nodeB, errB := env.Open(img, ms.P, c.opts())
			if errB != nil {
				res.Err = "second process death right after the restart: reopening failed: " + errB.Error()
				return
			}
			hB, heightB := nodeB.Tip()
			var tipB *sim.MNode
			for _, n := range ms.Nodes {
				if n.Idx.Hash == hB {
					tipB = n
				}
			}
			switch {
			case tipB == nil || !ms.Valid(tipB):
				res.Err = fmt.Sprintf("second process death right after the restart: recovered tip %x (height %d) is not a valid block of the history", hB[:6], heightB)
			case tipB != ms.Root && tipB.DelivStep > inflight:
				res.Err = fmt.Sprintf("second process death right after the restart: recovered tip %s was delivered in step %d, the process died in step %d", tipB.Describe(), tipB.DelivStep, inflight)
			default:
				if d := env.DiffEntries(nodeB.DumpUTXO(), env.EntriesOf(tipB.View)); d != "" {
					res.Err = fmt.Sprintf("second process death right after the restart: at tip %s the unspent-output set differs from the replay of its chain:\n%s", tipB.Describe(), d)
				}
			}
			nodeB.Close()
			os.RemoveAll(img)
			if res.Err != "" {
				return
			}
			res.SecondDeaths = 1
		}
	}
	// clean shutdown: exactly the pre-shutdown state
	if closed && tip != ms.Tip {
		// (a tie resolved differently inside the F21 class is still a maximal valid tip)
		if tip.Idx.InvWork.Cmp(ms.Tip.Idx.InvWork) != 0 {
			res.Err = fmt.Sprintf("clean shutdown at tip %s, after restart the tip is %s", ms.Tip.Describe(), tip.Describe())
			return
		}
	}
	// 4. feeding the remaining blocks leads to the final state of the uninterrupted run
	mark(4)
	for _, n := range ms.Nodes[1:] {
		if n.CheckErr != nil || !n.Delivered {
			continue
		}
		node.Deliver(n.Raw) // already known / invalid blocks are refused; only the end state is judged
	}
	h2, height2 := node.Tip()
	var tip2 *sim.MNode
	for _, n := range ms.Nodes {
		if n.Idx.Hash == h2 {
			tip2 = n
		}
	}
	res.Discarded = len(node.RecoveryDiscarded)
	if tip2 != nil && ms.Valid(tip2) && tip2.Idx.InvWork.Cmp(ms.Tip.Idx.InvWork) < 0 {
		res.StuckBelow = true
	}
	if tip2 == nil || !ms.Valid(tip2) || tip2.Idx.InvWork.Cmp(ms.Tip.Idx.InvWork) != 0 {
		res.Err = fmt.Sprintf("after feeding the remaining blocks the tip is %x (height %d); the uninterrupted run ends at %s", h2[:6], height2, ms.Tip.Describe())
		return
	}
	if d := env.DiffEntries(node.DumpUTXO(), env.EntriesOf(tip2.View)); d != "" {
		res.Err = fmt.Sprintf("after feeding the remaining blocks (tip %s) the unspent-output set differs from the replay:\n%s", tip2.Describe(), d)
		return
	}
	// 5. a clean shutdown and a second restart reproduce that state, and every block of the active chain can be
	// read back from the block files byte for byte
	mark(5)
	node.Close()
	node2, err := env.Open(dir, ms.P, c.opts())
	if err != nil {
		res.Err = "second restart (after a clean shutdown) failed: " + err.Error()
		return
	}
	if h3, height3 := node2.Tip(); h3 != h2 {
		res.Err = fmt.Sprintf("clean shutdown at tip %s, after the restart the tip is %x (height %d)", tip2.Describe(), h3[:6], height3)
		return
	}
	if d := env.DiffEntries(node2.DumpUTXO(), env.EntriesOf(tip2.View)); d != "" {
		res.Err = fmt.Sprintf("after a clean shutdown and restart at tip %s the unspent-output set differs from the replay:\n%s", tip2.Describe(), d)
		return
	}
	readBack := 60
	if c.KeepDataFiles > 0 {
		readBack = 4 // older blocks may sit in data files the node has removed by design
	}
	for n, cnt := tip2, 0; n != nil && n.Parent != nil && cnt < readBack; n, cnt = n.Parent, cnt+1 {
		data, _, e := node2.Ch.Blocks.BlockGet(btc.NewUint256(n.Idx.Hash[:]))
		if e != nil {
			res.Err = fmt.Sprintf("block %s of the active chain cannot be read back after the restart: %v", n.Describe(), e)
			return
		}
		if !bytes.Equal(data, n.Raw) {
			res.Err = fmt.Sprintf("block %s of the active chain reads back different bytes after the restart (%d bytes, stored %d)", n.Describe(), len(data), len(n.Raw))
			return
		}
	}
	node2.Close()
	res.OK = true
	return
}

// ---------------------------------------------------------------------------------------------
// parent side

var (
	tmplMu sync.Mutex
	tmpls  = map[string]string{}
)

func child(mode string, c Case, dir string, extra ...string) (out string, exit int) {
	cf := filepath.Join(filepath.Dir(dir), "case-"+filepath.Base(dir)+".json")
	b, _ := json.Marshal(c)
	os.WriteFile(cf, b, 0o644)
	cmd := exec.Command(os.Args[0], "-test.run", "^$")
	cmd.Env = append(os.Environ(), "VERIF_C07_MODE="+mode, "VERIF_C07_CASE="+cf, "VERIF_C07_DIR="+dir,
		"VERIF_REPLAY=", "VERIF_STATS=")
	cmd.Env = append(cmd.Env, extra...)
	ob, err := cmd.CombinedOutput()
	exit = 0
	if err != nil {
		exit = -1
		if ee, ok := err.(*exec.ExitError); ok {
			exit = ee.ExitCode()
		}
	}
	return string(ob), exit
}

func copyDir(src, dst string) error {
	return filepath.Walk(src, func(p string, info os.FileInfo, err error) error {
		if err != nil {
			return err
		}
		rel, _ := filepath.Rel(src, p)
		t := filepath.Join(dst, rel)
		if info.IsDir() {
			return os.MkdirAll(t, 0o770)
		}
		b, err := os.ReadFile(p)
		if err != nil {
			return err
		}
		return os.WriteFile(t, b, 0o660)
	})
}

// template returns a directory holding the prefix of the case (built once per configuration).
func template(c Case) (string, error) {
	key := fmt.Sprintf("%+v/%v/%v", c.Sim.Params, c.CompressUTXO, c.CompressBlocks)
	tmplMu.Lock()
	defer tmplMu.Unlock()
	if d, ok := tmpls[key]; ok {
		return d, nil
	}
	d, err := os.MkdirTemp("", "c07tmpl")
	if err != nil {
		return "", err
	}
	if out, rc := child("template", c, d); rc != 0 {
		return "", fmt.Errorf("template build failed (rc=%d): %s", rc, tail(out))
	}
	tmpls[key] = d
	return d, nil
}

func tail(s string) string {
	if len(s) > 1500 {
		s = s[len(s)-1500:]
	}
	return s
}

type runResult struct {
	trace      []string
	v          verdict
	err        error // infrastructure error
	viol       string
	clientRuns int // the client's own start-up code ran on a copy of the directory too
}

// execute runs the workload once in a copy of the template with the given crash spec / truncation and
// judges the recovery.
func execute(c Case, wantTrace bool) (r runResult) { return executeOpt(c, wantTrace, false) }

func executeOpt(c Case, wantTrace, noClose bool) (r runResult) {
	tm, err := template(c)
	if err != nil {
		r.err = err
		return
	}
	work, err := os.MkdirTemp("", "c07run")
	if err != nil {
		r.err = err
		return
	}
	defer os.RemoveAll(work)
	dir := filepath.Join(work, "d")
	if err := copyDir(tm, dir); err != nil {
		r.err = err
		return
	}
	logfn := filepath.Join(work, "progress.log")
	tracefn := filepath.Join(work, "trace.log")
	extra := []string{"VERIF_C07_LOG=" + logfn}
	if wantTrace {
		extra = append(extra, "VERIF_TRACE="+tracefn)
	}
	if c.Crash != "" {
		extra = append(extra, "VERIF_CRASH_AT="+c.Crash)
	}
	if noClose || c.Truncate != "" {
		extra = append(extra, "VERIF_C07_NOCLOSE=1")
	}
	out, rc := child("run", c, dir, extra...)
	if rc == 3 || rc == 4 {
		r.err = fmt.Errorf("workload unusable (rc=%d): %s", rc, tail(out))
		return
	}
	if rc != 0 && c.Crash == "" {
		r.viol = fmt.Sprintf("the uninterrupted run died (rc=%d): %s", rc, tail(out))
		return
	}
	if wantTrace {
		if b, err := os.ReadFile(tracefn); err == nil {
			r.trace = strings.Fields(string(b))
		}
	}
	if c.Truncate != "" {
		i := strings.LastIndexByte(c.Truncate, ':')
		n, _ := strconv.ParseInt(c.Truncate[i+1:], 10, 64)
		fname := c.Truncate[:i]
		if fname == "blockchain.dat" {
			fname = lastDatFile(dir)
		}
		if err := os.Truncate(filepath.Join(dir, fname), n); err != nil {
			r.err = err
			return
		}
	}
	// for one execution in three the client's own start-up code brings a COPY of the directory forward first (and
	// shuts it down); the directory it leaves is judged exactly like the original
	if useClient(c) {
		dir2 := filepath.Join(work, "client-copy")
		cl, clErr := clientStartup(c, dir, dir2, work)
		if clErr != "" {
			r.viol = clErr
			return
		}
		if cl != nil {
			r.clientRuns = 1
			pbt.AddExtra("runs_of_the_clients_own_startup_code", 1)
			if cl.Fed > 0 {
				pbt.AddExtra("runs_of_the_clients_own_startup_code_with_blocks_to_feed", 1)
			}
			outfn2 := filepath.Join(work, "verdict2.json")
			out3, rc3 := child("recover", c, dir2, "VERIF_C07_LOG="+logfn, "VERIF_C07_OUT="+outfn2)
			var v2 verdict
			b2, err2 := os.ReadFile(outfn2)
			if err2 == nil {
				json.Unmarshal(b2, &v2)
			}
			v2.Discarded += int(cl.Discarded) // (blocks that failed to connect were discarded by the client's code this time)
			pre := fmt.Sprintf("after the client's own start-up code (host_init-like open, do_the_blocks / HandleNetBlock: %d stored blocks fed, %d discarded) and a clean shutdown: ", cl.Fed, cl.Discarded)
			if rc3 != 0 || err2 != nil {
				r.v = v2
				r.viol = pre + fmt.Sprintf("judging the directory killed the process (rc=%d, stage %d): %s", rc3, v2.Stage, tail(out3))
				return
			}
			if !v2.OK {
				r.v = v2
				r.viol = pre + v2.Err
				return
			}
		}
		os.RemoveAll(dir2)
	}
	outfn := filepath.Join(work, "verdict.json")
	out2, rc2 := child("recover", c, dir, "VERIF_C07_LOG="+logfn, "VERIF_C07_OUT="+outfn)
	b, err := os.ReadFile(outfn)
	if err == nil {
		json.Unmarshal(b, &r.v)
	}
	if rc2 != 0 || err != nil {
		what := "reopening the data directory"
		if r.v.Stage >= 4 {
			what = "feeding the remaining blocks after the restart"
		}
		if r.v.Stage >= 5 {
			what = "the second restart / reading the stored blocks back"
		}
		r.viol = fmt.Sprintf("%s killed the process (rc=%d, stage %d): %s", what, rc2, r.v.Stage, tail(out2))
		return
	}
	if r.v.SecondDeaths > 0 {
		pbt.AddExtra("second_process_death_right_after_the_restart", int64(r.v.SecondDeaths))
	}
	if !r.v.OK {
		r.viol = r.v.Err
		return
	}
	return
}

// The recovery path of env.Open is a literal mirror of package main code (client/main.go do_the_blocks,
// LocalAcceptBlock), which cannot be imported.  For one execution in three the real thing runs too: the test binary of
// /repo/client built with the tag verif holds a driver (verif_recover_test.go) that opens a COPY of the directory the
// way host_init does and lets do_the_blocks / HandleNetBlock bring it forward.
type clientResult struct {
	Tip       string `json:"tip"`
	Height    uint32 `json:"height"`
	Records   int    `json:"records"`
	Digest    string `json:"digest"`
	Fed       int    `json:"fed"`
	Discarded uint64 `json:"discarded"`
	log       string
}

func clientBinary() string {
	if b := os.Getenv("VERIF_BUILD"); b != "" {
		fn := filepath.Join(b, "c07client.test")
		if _, err := os.Stat(fn); err == nil {
			return fn
		}
	}
	return ""
}

func useClient(c Case) bool {
	if clientBinary() == "" {
		return false
	}
	h := sha256.Sum256([]byte(caseKey(c) + c.Crash + c.Truncate))
	return h[0]%3 == 0
}

func clientStartup(c Case, dir, dir2, work string) (*clientResult, string) {
	if err := copyDir(dir, dir2); err != nil {
		return nil, ""
	}
	p := sim.Params(c.Sim.Params)
	o := c.opts()
	if o.MaxCached == 0 {
		o.MaxCached = 20
	}
	out := filepath.Join(work, "client-result.json")
	job := map[string]any{"dir": dir2 + string(os.PathSeparator), "out": out, "genesis": hex.EncodeToString(p.GenesisHash[:]),
		"pow_bits": p.PowLimitBits, "pow_limit": p.PowLimit.Text(16), "genesis_time": p.GenesisTime,
		"bip34": p.BIP34Height, "bip65": p.BIP65Height, "bip66": p.BIP66Height, "csv": p.CSVHeight, "segwit": p.SegwitHeight, "taproot": p.TaprootHeight,
		"compress_utxo": o.CompressUTXO, "compress_blocks": o.CompressBlocks, "max_cached": o.MaxCached, "max_data_file": o.MaxDataFile,
		"keep_data_files": o.KeepDataFiles, "callbacks": c.Observer}
	jb, _ := json.Marshal(job)
	jf := filepath.Join(work, "client-job.json")
	os.WriteFile(jf, jb, 0o644)
	ctx, cancel := context.WithTimeout(context.Background(), 150*time.Second)
	defer cancel()
	cmd := exec.CommandContext(ctx, clientBinary(), "-test.run", "^TestVerifRecoverChild$", "-test.timeout", "140s")
	cmd.Env = append(os.Environ(), "VERIF_CLIENT_JOB="+jf, "VERIF_CRASH_AT=", "VERIF_TRACE=", "VERIF_YIELD=")
	cmd.Dir = work
	ob, err := cmd.CombinedOutput()
	if err != nil {
		return nil, fmt.Sprintf("the client's own start-up code (host_init-like open, do_the_blocks, HandleNetBlock) on a copy of the directory died or hung (%v): %s", err, tail(string(ob)))
	}
	var res clientResult
	b, e := os.ReadFile(out)
	if e != nil || json.Unmarshal(b, &res) != nil {
		return nil, fmt.Sprintf("the client's own start-up code left no result: %s", tail(string(ob)))
	}
	res.log = string(ob)
	return &res, ""
}

func onePoint(c Case) error {
	r := execute(c, false)
	if r.err != nil {
		return fmt.Errorf("infrastructure: %v", r.err)
	}
	if r.viol != "" {
		return fmt.Errorf("crash at %q truncate %q: %s", c.Crash, c.Truncate, r.viol)
	}
	return nil
}

func caseKey(c Case) string {
	b, _ := json.Marshal(c.Sim)
	h := sha256.Sum256(b)
	return hex.EncodeToString(h[:6])
}

// knownClass: F13 (undo files are keyed by height only) needs a snapshot, a reorganisation after it that
// rewrites undo files of the snapshot's branch, and a crash before the next snapshot.  The predicate is over
// the workload: it contains an idle (snapshot) op followed later by a block built off the active tip.
func inF13Class(c Case) bool {
	seenIdle := false
	for _, op := range c.Sim.Ops {
		if op.Kind == "idle" {
			seenIdle = true
		}
		if seenIdle && (op.Kind == "deliver" || op.Kind == "block" && op.Parent != -1) {
			return true
		}
	}
	return false
}

// hasInvalidBlock: the workload delivers a block that fails when it is connected (class of F26: at start-up the
// client re-applies only the path to the farthest stored block; if a block on it fails to connect it carries on
// from where it is and leaves other stored, valid branches unconnected until a new block arrives).
func hasInvalidBlock(c Case) bool {
	for _, op := range c.Sim.Ops {
		if op.Kind == "block" && op.Viol != "" {
			return true
		}
	}
	return false
}

// enumerate runs the workload once with a trace and then once per crash point (at most limit points,
// spread evenly), returning the first violation as an error whose case carries the crash point.
func enumerate(c Case, d *pbt.Direct, limit int) (fail *Case, err error) {
	tr := execute(c, true)
	if tr.err != nil {
		return nil, fmt.Errorf("infrastructure: %v", tr.err)
	}
	if tr.viol != "" {
		if hasInvalidBlock(c) && tr.v.Stage == 4 && tr.v.Discarded > 0 && tr.v.StuckBelow && pbt.FindingOpen("F26-recovery-stops-at-failed-branch") {
			if d != nil {
				d.Excluded("F26-recovery-stops-at-failed-branch")
			}
			return nil, nil
		}
		cc := c
		return &cc, fmt.Errorf("uninterrupted run + restart: %s", tr.viol)
	}
	counts := map[string]int{}
	var points []string
	for _, name := range tr.trace {
		counts[name]++
		points = append(points, fmt.Sprintf("%s#%d", name, counts[name]))
	}
	if len(points) > limit {
		step := float64(len(points)) / float64(limit)
		var sel []string
		for i := 0; i < limit; i++ {
			sel = append(sel, points[int(float64(i)*step)])
		}
		points = sel
	}
	key := caseKey(c)
	// F13 can only bite once a reorganisation has begun to rewrite undo files after a snapshot: crash points that
	// come after the first undone block of a workload in the F13 class
	firstUndo := -1
	for i, name := range tr.trace {
		if name == "utxo.undoblock.done" {
			firstUndo = i
			break
		}
	}
	order := map[string]int{}
	{
		cnt := map[string]int{}
		for i, name := range tr.trace {
			cnt[name]++
			order[fmt.Sprintf("%s#%d", name, cnt[name])] = i
		}
	}
	for _, pt := range points {
		cc := c
		cc.Crash = pt
		r := execute(cc, false)
		if r.err != nil {
			return nil, fmt.Errorf("infrastructure: %v", r.err)
		}
		name := pt[:strings.IndexByte(pt, '#')]
		if d != nil {
			d.Eval("point/"+name, true, key+"/"+pt, map[string]any{"workload": key, "crash_at": pt, "ops": len(c.Sim.Ops), "recovered_height": r.v.TipHeight, "in_flight_step": r.v.InFlight})
		}
		if r.viol != "" {
			if hasInvalidBlock(c) && r.v.Stage == 4 && r.v.Discarded > 0 && r.v.StuckBelow && pbt.FindingOpen("F26-recovery-stops-at-failed-branch") {
				if d != nil {
					d.Excluded("F26-recovery-stops-at-failed-branch")
				}
				continue
			}
			if inF13Class(c) && firstUndo >= 0 && order[pt] > firstUndo && pbt.FindingOpen("F13-undo-files-by-height") {
				if d != nil {
					d.Excluded("F13-undo-files-by-height")
				}
				continue
			}
			return &cc, fmt.Errorf("crash at %s: %s", pt, r.viol)
		}
	}
	return nil, nil
}

var profile = sim.Profile{
	Forks:    true,
	Viols:    []string{"bad_script", "dup_in_block", "missing_txid"},
	ViolPct:  8,
	MaxTx:    3,
	MinOps:   3,
	MaxOps:   9,
	Prefixes: []int{0, 2, 101, 103},
	IdlePct:  22,
}

func genCase(t *rapid.T) Case {
	c := Case{Sim: sim.GenCase(t, profile)}
	c.CompressUTXO = rapid.IntRange(0, 3).Draw(t, "cutxo") == 0
	c.CompressBlocks = rapid.Bool().Draw(t, "cblocks")
	// the rarely used data-file size limit (client: Memory.MaxDataFileMB): blocks then live in several data files
	c.MaxDataFile = rapid.SampledFrom([]uint64{0, 0, 0, 700, 2000, 6000, 6000}).Draw(t, "maxdatafile")
	// with the largest of these limits (some twenty blocks per file) sometimes also the retention option: only the
	// current data file and the one or two before it are kept - far more blocks than any reorganisation here undoes
	if c.MaxDataFile == 6000 {
		c.KeepDataFiles = uint32(rapid.SampledFrom([]int{0, 1, 1, 2}).Draw(t, "keepdatafiles"))
	}
	c.Observer = rapid.IntRange(0, 2).Draw(t, "observer") == 0
	return c
}

// Directed workloads for the narrowest window of the property: snapshot on one branch, reorganisation
// onto another, crash before the next snapshot.
func genReorgAfterSnapshot(t *rapid.T) Case {
	c := Case{}
	c.Sim.Params = sim.ParamSpec{BIP34: 1, BIP65: 1, BIP66: 1, CSV: 1, Segwit: 1, Taproot: 1, Prefix: rapid.SampledFrom([]int{0, 2, 101, 102}).Draw(t, "prefix")}
	blk := func(parent int) sim.Op {
		op := sim.GenOp(t, sim.Profile{MaxTx: 3})
		op.Kind, op.Parent, op.Viol, op.Hold = "block", parent, "", false
		return op
	}
	k := rapid.IntRange(1, 3).Draw(t, "main")
	for i := 0; i < k; i++ {
		c.Sim.Ops = append(c.Sim.Ops, blk(-1))
	}
	c.Sim.Ops = append(c.Sim.Ops, sim.Op{Kind: "idle", Arg: 1})
	// side branch from below the tip; the (depth+1)-th block overtakes
	depth := rapid.IntRange(1, k).Draw(t, "depth")
	c.Sim.Ops = append(c.Sim.Ops, blk(depth)) // parent = depth-th most recently mined node's ... (index from the end)
	for i := 0; i < depth; i++ {
		c.Sim.Ops = append(c.Sim.Ops, blk(-2))
	}
	if rapid.Bool().Draw(t, "more") {
		c.Sim.Ops = append(c.Sim.Ops, blk(-1))
	}
	if rapid.Bool().Draw(t, "second-snapshot") {
		c.Sim.Ops = append(c.Sim.Ops, sim.Op{Kind: "idle", Arg: rapid.IntRange(0, 1).Draw(t, "wait")})
		c.Sim.Ops = append(c.Sim.Ops, blk(-1))
	}
	c.CompressUTXO = rapid.IntRange(0, 3).Draw(t, "cutxo") == 0
	c.CompressBlocks = rapid.Bool().Draw(t, "cblocks")
	// the rarely used data-file size limit (client: Memory.MaxDataFileMB): blocks then live in several data files
	c.MaxDataFile = rapid.SampledFrom([]uint64{0, 0, 0, 700, 2000, 6000, 6000}).Draw(t, "maxdatafile")
	// with the largest of these limits (some twenty blocks per file) sometimes also the retention option: only the
	// current data file and the one or two before it are kept - far more blocks than any reorganisation here undoes
	if c.MaxDataFile == 6000 {
		c.KeepDataFiles = uint32(rapid.SampledFrom([]int{0, 1, 1, 2}).Draw(t, "keepdatafiles"))
	}
	c.Observer = rapid.IntRange(0, 2).Draw(t, "observer") == 0
	return c
}

// Directed workloads for a second narrow window: a heavier side branch whose blocks are still in the block
// store's write queue fails to connect (its blocks are dropped from the queue's index), more blocks arrive on
// the old branch, and only then the queue is flushed, a snapshot is written and the node shuts down or dies.
func genFailedReorgUnflushed(t *rapid.T) Case {
	c := Case{}
	c.Sim.Params = sim.ParamSpec{BIP34: 1, BIP65: 1, BIP66: 1, CSV: 1, Segwit: 1, Taproot: 1, Prefix: rapid.SampledFrom([]int{101, 102, 104}).Draw(t, "prefix")}
	blk := func(parent int, viol string) sim.Op {
		op := sim.GenOp(t, sim.Profile{MaxTx: 3})
		op.Kind, op.Parent, op.Viol, op.Hold = "block", parent, viol, false
		return op
	}
	k := rapid.IntRange(1, 3).Draw(t, "main")
	for i := 0; i < k; i++ {
		c.Sim.Ops = append(c.Sim.Ops, blk(-1, ""))
	}
	if rapid.Bool().Draw(t, "flush-first") {
		c.Sim.Ops = append(c.Sim.Ops, sim.Op{Kind: "idle", Arg: 1})
	}
	// side branch from below the tip; one of its first blocks fails at connect; it grows until it is heavier
	depth := rapid.IntRange(1, k).Draw(t, "depth")
	badAt := rapid.IntRange(0, depth).Draw(t, "bad-at")
	viol := rapid.SampledFrom([]string{"bad_script", "missing_txid", "in_below_out", "dup_in_block"}).Draw(t, "viol")
	// sometimes the old branch grows by one block right after the bad block was stored (so that the two sit next to
	// each other in the block index) and the queue is flushed: a crash from there on restarts with both loaded from disk
	interleave := rapid.Bool().Draw(t, "interleave")
	extra := 0
	for i := 0; i <= depth+extra; i++ {
		parent := -2
		if i == 0 {
			parent = depth
		}
		v := ""
		if i == badAt {
			v = viol
		}
		c.Sim.Ops = append(c.Sim.Ops, blk(parent, v))
		if i == badAt && interleave && i < depth {
			c.Sim.Ops = append(c.Sim.Ops, blk(-1, ""))
			extra = 1
			if rapid.IntRange(0, 2).Draw(t, "flush-between") != 0 {
				c.Sim.Ops = append(c.Sim.Ops, sim.Op{Kind: "flush"})
			}
		}
	}
	for i, n := 0, rapid.IntRange(1, 3).Draw(t, "after"); i < n; i++ {
		c.Sim.Ops = append(c.Sim.Ops, blk(-1, ""))
	}
	if rapid.IntRange(0, 2).Draw(t, "snapshot") != 0 {
		c.Sim.Ops = append(c.Sim.Ops, sim.Op{Kind: "idle", Arg: rapid.IntRange(0, 1).Draw(t, "wait")})
		if rapid.Bool().Draw(t, "one-more") {
			c.Sim.Ops = append(c.Sim.Ops, blk(-1, ""))
		}
	}
	c.CompressUTXO = rapid.IntRange(0, 3).Draw(t, "cutxo") == 0
	c.CompressBlocks = rapid.Bool().Draw(t, "cblocks")
	// the rarely used data-file size limit (client: Memory.MaxDataFileMB): blocks then live in several data files
	c.MaxDataFile = rapid.SampledFrom([]uint64{0, 0, 0, 700, 2000, 6000, 6000}).Draw(t, "maxdatafile")
	// with the largest of these limits (some twenty blocks per file) sometimes also the retention option: only the
	// current data file and the one or two before it are kept - far more blocks than any reorganisation here undoes
	if c.MaxDataFile == 6000 {
		c.KeepDataFiles = uint32(rapid.SampledFrom([]int{0, 1, 1, 2}).Draw(t, "keepdatafiles"))
	}
	c.Observer = rapid.IntRange(0, 2).Draw(t, "observer") == 0
	return c
}

func TestCrashFailedReorgUnflushed(t *testing.T) {
	limit := 100
	if pbt.Tier() == "thorough" {
		limit = 600
	}
	d := pbt.Direct{Name: "crash_failed_reorg"}
	pbt.Check(t, pbt.Cfg{Name: "failed_reorg_unflushed", Quick: 48, Thorough: 160}, func(r *pbt.Run) {
		c := genFailedReorgUnflushed(r.T)
		r.Case(c)
		r.Class("failed-reorg-with-unflushed-side-blocks")
		r.NonTrivial()
		fail, err := enumerate(c, &d, limit)
		if err != nil {
			if fail != nil {
				r.Case(*fail)
			}
			if strings.HasPrefix(err.Error(), "infrastructure") {
				r.T.Skip(err.Error())
			}
			r.Failf("%v", err)
		}
	})
}

func TestCrashReorgAfterSnapshot(t *testing.T) {
	limit := 100
	if pbt.Tier() == "thorough" {
		limit = 600
	}
	d := pbt.Direct{Name: "crash_reorg"}
	pbt.Check(t, pbt.Cfg{Name: "reorg_after_snapshot", Quick: 16, Thorough: 160}, func(r *pbt.Run) {
		c := genReorgAfterSnapshot(r.T)
		r.Case(c)
		r.Class("reorg-after-snapshot")
		r.NonTrivial()
		fail, err := enumerate(c, &d, limit)
		if err != nil {
			if fail != nil {
				r.Case(*fail)
			}
			if strings.HasPrefix(err.Error(), "infrastructure") {
				r.T.Skip(err.Error())
			}
			r.Failf("%v", err)
		}
	})
}

func TestCrashPoints(t *testing.T) {
	limit := 60
	if pbt.Tier() == "thorough" {
		limit = 400
	}
	d := pbt.Direct{Name: "crash"}
	pbt.Check(t, pbt.Cfg{Name: "crash_workloads", Quick: 48, Thorough: 320}, func(r *pbt.Run) {
		c := genCase(r.T)
		r.Case(c)
		hasIdle, hasFork := false, false
		for _, op := range c.Sim.Ops {
			hasIdle = hasIdle || op.Kind == "idle"
			hasFork = hasFork || op.Kind == "deliver" || op.Parent != -1
		}
		if hasIdle {
			r.Class("with-snapshot")
		}
		if hasFork {
			r.Class("with-fork")
		}
		if c.CompressUTXO {
			r.Class("compressed-utxo")
		}
		r.NonTrivial()
		fail, err := enumerate(c, &d, limit)
		if err != nil {
			if fail != nil {
				r.Case(*fail)
			}
			if strings.HasPrefix(err.Error(), "infrastructure") {
				r.T.Skip(err.Error())
			}
			r.Failf("%v", err)
		}
	})
}

// Truncation family: after a snapshot the workload connects more blocks, flushes them to the block
// files and the process ends without a shutdown; then the index / data file is cut at every record
// boundary (+-1, mid-record) written after the snapshot, resp. at a spread of lengths of the data written
// after it.  (Cutting below the snapshot's own block is outside the domain: Chain.Idle flushes and syncs
// the block files before it starts a snapshot, so no crash produces that image.)
func TestTruncation(t *testing.T) {
	d := pbt.Direct{Name: "truncate"}
	pbt.Check(t, pbt.Cfg{Name: "truncate_workloads", Quick: 16, Thorough: 128}, func(r *pbt.Run) {
		c := genCase(r.T)
		c.Sim.Ops = append(c.Sim.Ops, sim.Op{Kind: "idle", Arg: 1})
		n := rapid.IntRange(1, 5).Draw(r.T, "after")
		for i := 0; i < n; i++ {
			op := sim.GenOp(r.T, sim.Profile{MaxTx: 2})
			op.Kind, op.Parent, op.Viol, op.Hold = "block", -1, "", false
			c.Sim.Ops = append(c.Sim.Ops, op)
		}
		c.Sim.Ops = append(c.Sim.Ops, sim.Op{Kind: "flush"})
		r.Case(c)
		r.NonTrivial()
		snapIdx, snapDat, endIdx, endDat, err := sizesAfter(c)
		if err != nil {
			r.T.Skip(err.Error())
		}
		key := caseKey(c)
		var specs []string
		for l := snapIdx; l < endIdx; l += 136 {
			for _, dd := range []int64{0, 1, 68, 135} {
				if l+dd < endIdx {
					specs = append(specs, fmt.Sprintf("blockchain.new:%d", l+dd))
				}
			}
		}
		for i := int64(0); i < 8; i++ {
			if l := snapDat + (endDat-snapDat)*i/8; l < endDat {
				specs = append(specs, fmt.Sprintf("blockchain.dat:%d", l))
			}
		}
		if endDat > snapDat {
			specs = append(specs, fmt.Sprintf("blockchain.dat:%d", endDat-1))
		}
		for _, sp := range specs {
			cc := c
			cc.Truncate = sp
			res := executeOpt(cc, false, true)
			if res.err != nil {
				r.T.Skip(res.err.Error())
			}
			d.Eval("file/"+sp[:strings.IndexByte(sp, ':')], true, key+"/"+sp, map[string]any{"workload": key, "truncate": sp, "recovered_height": res.v.TipHeight})
			if res.viol != "" {
				if strings.HasPrefix(sp, "blockchain.dat:") && res.v.Stage == 1 && strings.Contains(res.viol, "no data for block") && pbt.FindingOpen("F23-index-without-data") {
					d.Excluded("F23-index-without-data")
					continue
				}
				r.Case(cc)
				r.Failf("truncation %s: %s", sp, res.viol)
			}
		}
	})
}

// sizesAfter runs the workload once without shutdown and reads the logged file sizes.
func sizesAfter(c Case) (snapIdx, snapDat, endIdx, endDat int64, err error) {
	tm, err := template(c)
	if err != nil {
		return
	}
	work, err := os.MkdirTemp("", "c07sz")
	if err != nil {
		return
	}
	defer os.RemoveAll(work)
	dir := filepath.Join(work, "d")
	if err = copyDir(tm, dir); err != nil {
		return
	}
	logfn := filepath.Join(work, "p.log")
	if out, rc := child("run", c, dir, "VERIF_C07_LOG="+logfn, "VERIF_C07_NOCLOSE=1"); rc != 0 {
		err = fmt.Errorf("run failed rc=%d: %s", rc, tail(out))
		return
	}
	b, _ := os.ReadFile(logfn)
	for _, line := range strings.Split(string(b), "\n") {
		w := strings.Fields(line)
		if len(w) == 3 && w[0] == "snap" {
			snapIdx, _ = strconv.ParseInt(w[1], 10, 64)
			snapDat, _ = strconv.ParseInt(w[2], 10, 64)
		}
		if len(w) == 3 && w[0] == "sizes" {
			endIdx, _ = strconv.ParseInt(w[1], 10, 64)
			endDat, _ = strconv.ParseInt(w[2], 10, 64)
		}
	}
	if endIdx == 0 {
		err = fmt.Errorf("no sizes logged")
	}
	return
}
