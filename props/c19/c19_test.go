package c19

import (
	"bytes"
	"encoding/hex"
	"encoding/json"
	"errors"
	"fmt"
	"os"
	"os/exec"
	"path/filepath"
	"strconv"
	"strings"
	"sync"
	"syscall"
	"testing"

	"github.com/piotrnar/gocoin/lib/others/qdb"
	"github.com/piotrnar/gocoin/lib/others/vhook"
	"pgregory.net/rapid"
	"verif/pbt"
)

func TestMain(m *testing.M) {
	if mode := os.Getenv("VERIF_C19_CHILD"); mode != "" {
		os.Exit(childMain(mode))
	}
	pbt.RegisterReplay("qdb_model", func(raw json.RawMessage) error {
		var c kvCase
		if err := json.Unmarshal(raw, &c); err != nil {
			return err
		}
		_, err := checkModel(c)
		if errors.Is(err, errHarness) {
			return nil // the child could not be started: no verdict
		}
		return err
	})
	pbt.RegisterReplay("qdb_crash", func(raw json.RawMessage) error {
		var c crashCase
		if err := json.Unmarshal(raw, &c); err != nil {
			return err
		}
		tmp, err := os.MkdirTemp("", "c19-replay-")
		if err != nil {
			return nil
		}
		defer os.RemoveAll(tmp)
		res := runCrashPoint(tmp, c.W, c.Point, nil)
		if res.harness != "" {
			return nil // could not reproduce the crash point: not a verdict
		}
		if res.violation != "" {
			return errors.New(res.violation)
		}
		return nil
	})
	pbt.Main(m, "C19")
}

// ---------------------------------------------------------------------------------------------
// child processes (this test binary re-executed; selected by VERIF_C19_CHILD)
//
//	model   run the case in VERIF_C19_CASE against the model, print one JSON line {"ok":..,"msg":..,"sum":..}
//	work    run the workload in VERIF_C19_CASE in VERIF_C19_DIR (no model comparison), append the index of
//	        every completed operation (and the number of hook hits so far) to VERIF_C19_PROGRESS
//	open    open VERIF_C19_DIR and close it again (the restart alone; used for kills during the recovery)
//	verify  open VERIF_C19_DIR, dump all keys, append a marker record, reopen, dump again ... print JSON

type modelResult struct {
	OK  bool      `json:"ok"`
	Msg string    `json:"msg"`
	Sum kvSummary `json:"sum"`
}

type verifyResult struct {
	Dump map[string]string `json:"dump"` // key index -> hex value
	Err  string            `json:"err"`
}

func childMain(mode string) int {
	dir := os.Getenv("VERIF_C19_DIR")
	switch mode {
	case "model", "work":
		raw, err := os.ReadFile(os.Getenv("VERIF_C19_CASE"))
		if err != nil {
			fmt.Println("child: cannot read case:", err)
			return 90
		}
		var c kvCase
		if err := json.Unmarshal(raw, &c); err != nil {
			fmt.Println("child: bad case:", err)
			return 90
		}
		r := &kvRunner{c: c, dir: dir, check: mode == "model"}
		if mode == "work" {
			var hits int64
			var mu sync.Mutex
			cb := func(string) { mu.Lock(); hits++; mu.Unlock() }
			vhook.Callback.Store(&cb)
			pf, err := os.OpenFile(os.Getenv("VERIF_C19_PROGRESS"), os.O_CREATE|os.O_WRONLY|os.O_APPEND, 0o644)
			if err != nil {
				return 90
			}
			r.progress = func(i int) {
				mu.Lock()
				h := hits
				mu.Unlock()
				fmt.Fprintf(pf, "%d %d\n", i, h)
			}
		}
		err = r.run()
		res := modelResult{OK: err == nil, Sum: r.sum}
		if err != nil {
			res.Msg = err.Error()
		}
		b, _ := json.Marshal(res)
		fmt.Println("RESULT " + string(b))
		return 0
	case "open":
		// just the restart: open as the client does, close again
		var db *qdb.DB
		if e := qdb.NewDBExt(&db, &qdb.NewDBOpts{Dir: dir, LoadData: true}); e != nil {
			fmt.Println("child: open failed:", e)
			return 92
		}
		db.Close()
		fmt.Println("RESULT {}")
		return 0
	case "verify":
		res := verifyDir(dir)
		b, _ := json.Marshal(res)
		fmt.Println("RESULT " + string(b))
		return 0
	}
	return 91
}

// verifyDir is what a restarted client does, plus a continuation that checks the recovered store is usable:
// open (LoadData as peersdb does), dump; add a marker record, Sync, Close; reopen lazily, dump; forced
// defragmentation, Close; reopen, dump.  All three dumps must be the same.
func verifyDir(dir string) (res verifyResult) {
	var db *qdb.DB
	fail := func(format string, a ...any) verifyResult {
		res.Err = fmt.Sprintf(format, a...)
		return res
	}
	if e := qdb.NewDBExt(&db, &qdb.NewDBOpts{Dir: dir, LoadData: true}); e != nil {
		return fail("the store does not open: %v", e)
	}
	d1, err := dumpDB(db, false)
	if err != nil {
		return fail("first open: %v", err)
	}
	res.Dump = map[string]string{}
	for k, v := range d1 {
		res.Dump[strconv.Itoa(k)] = hex.EncodeToString(v)
	}
	g1, err := dumpDB(db, true)
	if err != nil {
		return fail("first open: %v", err)
	}
	if d := sameDump(d1, g1); d != "" {
		return fail("first open: BrowseAll and Get disagree: %s", d)
	}
	db.Put(markerKey, []byte("marker"))
	db.Sync()
	db.Close()
	if e := qdb.NewDBExt(&db, &qdb.NewDBOpts{Dir: dir, LoadData: false}); e != nil {
		return fail("the store does not open the second time: %v", e)
	}
	d2, err := dumpDB(db, true)
	if err != nil {
		return fail("second open: %v", err)
	}
	if d := sameDump(d1, d2); d != "" {
		return fail("contents changed by writing one more record after the recovery: %s", d)
	}
	if v := db.Get(markerKey); !bytes.Equal(v, []byte("marker")) {
		return fail("the record written after the recovery reads back as %s", short(v))
	}
	db.Defrag(true)
	db.Close()
	if e := qdb.NewDBExt(&db, &qdb.NewDBOpts{Dir: dir, LoadData: true}); e != nil {
		return fail("the store does not open the third time: %v", e)
	}
	d3, err := dumpDB(db, false)
	if err != nil {
		return fail("third open: %v", err)
	}
	if d := sameDump(d1, d3); d != "" {
		return fail("contents changed by a defragmentation after the recovery: %s", d)
	}
	db.Close()
	return res
}

type childOut struct {
	stdout, stderr string
	exit           int  // exit code, -1 when killed by a signal
	killed         bool // SIGKILL
	err            error
}

func runChild(mode string, env ...string) childOut {
	cmd := exec.Command(os.Args[0])
	cmd.Env = append(os.Environ(), "VERIF_C19_CHILD="+mode)
	cmd.Env = append(cmd.Env, env...)
	var so, se bytes.Buffer
	cmd.Stdout, cmd.Stderr = &so, &se
	err := cmd.Run()
	out := childOut{stdout: so.String(), stderr: se.String()}
	if err != nil {
		var ee *exec.ExitError
		if errors.As(err, &ee) {
			out.exit = ee.ExitCode()
			if ws, ok := ee.Sys().(syscall.WaitStatus); ok && ws.Signaled() {
				out.exit = -1
				out.killed = ws.Signal() == syscall.SIGKILL
			}
		} else {
			out.err = err
		}
	}
	return out
}

func resultLine(s string) string {
	for _, l := range strings.Split(s, "\n") {
		if strings.HasPrefix(l, "RESULT ") {
			return l[7:]
		}
	}
	return ""
}

func tail(s string, n int) string {
	s = strings.TrimSpace(s)
	if len(s) > n {
		s = "..." + s[len(s)-n:]
	}
	return strings.ReplaceAll(s, "\n", " | ")
}

// ---------------------------------------------------------------------------------------------
// oracle 1: any operation sequence is indistinguishable from the same sequence on a map

var errHarness = errors.New("harness")

func checkModel(c kvCase) (kvSummary, error) {
	tmp, err := os.MkdirTemp("", "c19-")
	if err != nil {
		return kvSummary{}, fmt.Errorf("%w: %v", errHarness, err)
	}
	defer os.RemoveAll(tmp)
	raw, _ := json.Marshal(c)
	cf := filepath.Join(tmp, "case.json")
	os.WriteFile(cf, raw, 0o644)
	out := runChild("model", "VERIF_C19_CASE="+cf, "VERIF_C19_DIR="+filepath.Join(tmp, "db"))
	if out.err != nil {
		return kvSummary{}, fmt.Errorf("%w: cannot start the child process: %v", errHarness, out.err)
	}
	rl := resultLine(out.stdout)
	if rl == "" {
		return kvSummary{}, fmt.Errorf("the process using the store died (exit %d): %s", out.exit, tail(out.stderr, 600))
	}
	var res modelResult
	if err := json.Unmarshal([]byte(rl), &res); err != nil {
		return kvSummary{}, fmt.Errorf("unreadable child result: %v", err)
	}
	if !res.OK {
		return res.Sum, errors.New(res.Msg)
	}
	return res.Sum, nil
}

func uni(t *rapid.T, label string, n int) int {
	z := rapid.Uint64().Draw(t, label)
	z = (z ^ (z >> 30)) * 0xbf58476d1ce4e5b9
	z = (z ^ (z >> 27)) * 0x94d049bb133111eb
	z ^= z >> 31
	return int(z % uint64(n))
}

var flagChoices = []uint32{0, qdb.NO_BROWSE, qdb.NO_CACHE, qdb.NO_BROWSE | qdb.NO_CACHE, qdb.YES_BROWSE, qdb.YES_CACHE,
	qdb.YES_BROWSE | qdb.YES_CACHE, qdb.NO_BROWSE | qdb.YES_CACHE, qdb.NO_CACHE | qdb.YES_BROWSE}

type weights []struct {
	op string
	w  int
}

var modelWeights = weights{{"put", 22}, {"putext", 14}, {"del", 10}, {"delall", 3}, {"get", 12}, {"browse", 6}, {"browseall", 3}, {"applyflags", 6},
	{"sync", 6}, {"nosync", 2}, {"defrag", 6}, {"flush", 2}, {"count", 1}, {"reopen", 8}}

// the crash workloads: mostly writes and the operations with file effects
var crashWeights = weights{{"put", 26}, {"putext", 10}, {"del", 12}, {"delall", 2}, {"get", 3}, {"browse", 2}, {"applyflags", 2},
	{"sync", 10}, {"nosync", 2}, {"defrag", 10}, {"flush", 1}, {"reopen", 8}}

func genLen(t *rapid.T, big bool) int {
	switch c := uni(t, "lenclass", 100); {
	case c < 10:
		return 0
	case c < 50:
		return rapid.IntRange(1, 64).Draw(t, "len")
	case c < 85:
		return rapid.IntRange(64, 2000).Draw(t, "len")
	case c < 95 || !big:
		return rapid.IntRange(2000, 20000).Draw(t, "len")
	default:
		return rapid.IntRange(20000, 65536).Draw(t, "len")
	}
}

func genKVOp(t *rapid.T, w weights, big bool) kvOp {
	tot := 0
	for _, x := range w {
		tot += x.w
	}
	x := uni(t, "op", tot)
	name := ""
	for _, e := range w {
		if x < e.w {
			name = e.op
			break
		}
		x -= e.w
	}
	o := kvOp{Op: name}
	switch name {
	case "put":
		o.K, o.Len = uni(t, "k", 8), genLen(t, big)
	case "putext":
		o.K, o.Len, o.Flags = uni(t, "k", 8), genLen(t, big), flagChoices[uni(t, "flags", len(flagChoices))]
	case "del", "get":
		o.K = uni(t, "k", 8)
	case "applyflags":
		o.K, o.Flags = uni(t, "k", 8), flagChoices[uni(t, "flags", len(flagChoices))]
	case "browse", "browseall":
		if uni(t, "walkflags", 3) == 0 {
			o.Flags = flagChoices[uni(t, "flags", len(flagChoices))]
		}
		if uni(t, "abort", 3) == 0 {
			// BR_ABORT at a drawn record, alone or together with a flag change for that record
			o.Abort = 1 + uni(t, "abortat", 5)
			o.AFlags = flagChoices[uni(t, "aflags", len(flagChoices))]
		}
	case "defrag":
		o.Force = uni(t, "force", 2) == 0
	case "reopen":
		o.Load = uni(t, "load", 2) == 0
		if o.Load && uni(t, "walk", 3) == 0 {
			o.Walk, o.Flags = true, flagChoices[uni(t, "flags", len(flagChoices))]
		}
		if uni(t, "vol", 5) == 0 {
			o.Vol = 1 + uni(t, "volmode", 2)
		}
	}
	return o
}

func genKVCase(t *rapid.T, w weights, maxSteps int, big bool) kvCase {
	var c kvCase
	c.Cfg.Volatile = uni(t, "volatile", 4) == 0
	c.Cfg.MaxPending = uint32(uni(t, "maxpending", 6))
	c.Cfg.MaxPendingNoSync = c.Cfg.MaxPending + uint32(uni(t, "maxpending_nosync", 6))
	c.Cfg.DefragPerc = []uint32{0, 50, 200}[uni(t, "defragperc", 3)]
	c.Cfg.ForcedPerc = []uint32{0, 50, 300}[uni(t, "forcedperc", 3)]
	c.Cfg.Load = uni(t, "load", 2) == 0
	c.Cfg.Records = uint(uni(t, "records", 2) * 16)
	c.Seed = rapid.Uint64().Draw(t, "seed")
	n := rapid.IntRange(1, maxSteps).Draw(t, "steps")
	c.Ops = rapid.SliceOfN(rapid.Custom(func(t *rapid.T) kvOp { return genKVOp(t, w, big) }), n, n).Draw(t, "ops")
	return c
}

func TestQdbModel(t *testing.T) {
	steps := 60
	if pbt.Tier() == "thorough" {
		steps = 100
	}
	pbt.Check(t, pbt.Cfg{Name: "qdb_model", Quick: 6000, Thorough: 120000}, func(r *pbt.Run) {
		c := genKVCase(r.T, modelWeights, steps, true)
		r.Case(c)
		sum, err := checkModel(c)
		if errors.Is(err, errHarness) {
			r.T.Fatalf("%v", err) // no replay file: the driver reports the run as inconclusive, not as a violation
		}
		if c.Cfg.Volatile {
			r.Class("volatile")
		} else {
			r.Class("non_volatile")
		}
		if sum.ReopenAfterOverwriteOrDelete {
			r.Class("reopen_after_overwrite_or_delete")
			r.NonTrivial() // the property's rule: an overwrite or delete followed by a reopen
		}
		if sum.Reopens > 1 {
			r.Class("reopen_in_history")
		}
		if sum.NoCache > 0 {
			r.Class("no_cache_flag")
		}
		if sum.NoBrowse > 0 {
			r.Class("no_browse_flag")
		}
		if sum.Defrags > 0 {
			r.Class("defrag")
		}
		if sum.BigValue {
			r.Class("value_over_32k")
		}
		if sum.Browses > 0 {
			r.Class("browse")
		}
		if sum.Emptied > 0 && sum.Reopens > 1 {
			r.Class("emptied_store")
		}
		if sum.AbortWithFlag > 0 {
			r.Class("no_browse_with_abort")
		}
		pbt.AddExtra("model_ops", int64(sum.Ops))
		pbt.AddExtra("model_overwrites", int64(sum.Overwrites))
		pbt.AddExtra("model_deletes", int64(sum.Deletes))
		if err != nil {
			r.Failf("%v", err)
		}
	})
}

// ---------------------------------------------------------------------------------------------
// oracle 2: the crash campaign

type crashCase struct {
	W     kvCase `json:"workload"`
	Point string `json:"point"` // <hook name>#<n>
}

type crashResult struct {
	violation string // the property is violated
	harness   string // the run could not be judged (infrastructure)
	op        int    // operation that was in progress
}

// simulate gives, for every operation index, the map after it and whether its completion is a durability point.
type simStep struct {
	after   map[int][]byte // key -> value (absent = deleted)
	writes  map[int][]byte // what this operation wrote: key -> value, nil = deleted
	durable bool
}

func simulate(c kvCase) (initial map[int][]byte, steps []simStep) {
	cur := map[int][]byte{}
	vol := c.Cfg.Volatile
	clone := func() map[int][]byte {
		m := map[int][]byte{}
		for k, v := range cur {
			m[k] = v
		}
		return m
	}
	for i, o := range c.Ops {
		st := simStep{writes: map[int][]byte{}}
		k := ((o.K % 8) + 8) % 8
		switch o.Op {
		case "put", "putext":
			v := kvValue(c.Seed, i, k, o.Len)
			cur[k] = v
			st.writes[k] = v
		case "del":
			delete(cur, k)
			st.writes[k] = nil
		case "delall":
			for kk := range cur {
				st.writes[kk] = nil
			}
			cur = map[int][]byte{}
		case "sync":
			st.durable = !vol // Sync() is a no-op in volatile mode
		case "reopen":
			st.durable = true // a completed Close() writes everything (sync, or the volatile mode's final defrag)
			switch o.Vol {
			case 1:
				vol = true
			case 2:
				vol = false
			}
		}
		st.after = clone()
		steps = append(steps, st)
	}
	steps = append(steps, simStep{after: clone(), writes: map[int][]byte{}, durable: true}) // the closing Close()
	return map[int][]byte{}, steps
}

// judge: every key holds its last synced value or a later written one (or is absent if deleted later).
// done = index of the last completed operation (-1: only the initial open).
func judge(c kvCase, done int, dump map[int][]byte) string {
	initial, steps := simulate(c)
	floorIdx := -1
	for i := 0; i <= done && i < len(steps); i++ {
		if steps[i].durable {
			floorIdx = i
		}
	}
	floor := initial
	if floorIdx >= 0 {
		floor = steps[floorIdx].after
	}
	last := done + 1 // the operation in progress may have taken effect, fully or partly
	if last >= len(steps) {
		last = len(steps) - 1
	}
	for k := 0; k < 8; k++ {
		type cand struct {
			v       []byte
			present bool
		}
		fv, fok := floor[k]
		cands := []cand{{fv, fok}}
		for i := floorIdx + 1; i <= last; i++ {
			if v, ok := steps[i].writes[k]; ok {
				cands = append(cands, cand{v, v != nil})
			}
		}
		gv, gok := dump[k]
		ok := false
		for _, cd := range cands {
			if cd.present == gok && (!gok || bytes.Equal(cd.v, gv)) {
				ok = true
				break
			}
		}
		if !ok {
			var l []string
			for _, cd := range cands {
				if cd.present {
					l = append(l, short(cd.v))
				} else {
					l = append(l, "absent")
				}
			}
			got := "absent"
			if gok {
				got = short(gv)
			}
			return fmt.Sprintf("key #%d holds %s after the restart; last synced state (after op %d) and later writes allow only: %s", k, got, floorIdx, strings.Join(l, ", "))
		}
	}
	return ""
}

type progressLine struct{ op, hits int }

func readProgress(fn string) []progressLine {
	b, _ := os.ReadFile(fn)
	var out []progressLine
	for _, l := range strings.Split(string(b), "\n") {
		var p progressLine
		if n, _ := fmt.Sscanf(l, "%d %d", &p.op, &p.hits); n == 2 {
			out = append(out, p)
		}
	}
	return out
}

// crashImage runs the workload in a fresh child that kills itself at the point and leaves the directory
// image in <tmp>/db.  done = index of the last operation that had completed (-2: killed in the first open).
func crashImage(tmp string, w kvCase, point string, wantOp *int) (dir string, done int, res crashResult) {
	raw, _ := json.Marshal(w)
	cf := filepath.Join(tmp, "case.json")
	os.WriteFile(cf, raw, 0o644)
	dir = filepath.Join(tmp, "db")
	pf := filepath.Join(tmp, "progress")
	out := runChild("work", "VERIF_C19_CASE="+cf, "VERIF_C19_DIR="+dir, "VERIF_C19_PROGRESS="+pf, "VERIF_CRASH_AT="+point, "VERIF_TRACE=")
	if out.err != nil {
		res.harness = "cannot start the child: " + out.err.Error()
		return
	}
	if !out.killed {
		if rl := resultLine(out.stdout); rl != "" {
			res.harness = fmt.Sprintf("crash point %s was not reached (the workload finished)", point)
		} else {
			// the workload died by itself before the crash point: that is the model test's subject, but report it
			res.violation = fmt.Sprintf("the workload died before reaching %s (exit %d): %s", point, out.exit, tail(out.stderr, 400))
		}
		return
	}
	done = -2 // no line at all: killed inside the very first open
	for _, p := range readProgress(pf) {
		done = p.op
	}
	res.op = done + 1
	if wantOp != nil && *wantOp != res.op {
		res.harness = fmt.Sprintf("crash point %s hit during op %d, the trace run saw it during op %d", point, res.op, *wantOp)
	}
	return
}

// verifyImage restarts on the directory (fresh process) and judges what it finds.
func verifyImage(dir string, w kvCase, done int, what string) (res crashResult) {
	res.op = done + 1
	v := runChild("verify", "VERIF_C19_DIR="+dir, "VERIF_CRASH_AT=", "VERIF_TRACE=")
	if v.err != nil {
		res.harness = "cannot start the verify child: " + v.err.Error()
		return
	}
	rl := resultLine(v.stdout)
	if rl == "" {
		res.violation = fmt.Sprintf("after %s (during op %d) the store does not open: the process died (exit %d): %s", what, res.op, v.exit, tail(v.stderr, 400))
		return
	}
	var vr verifyResult
	if err := json.Unmarshal([]byte(rl), &vr); err != nil {
		res.harness = "unreadable verify result"
		return
	}
	if vr.Err != "" {
		res.violation = fmt.Sprintf("after %s (during op %d): %s", what, res.op, vr.Err)
		return
	}
	dump := map[int][]byte{}
	for ks, hv := range vr.Dump {
		k, _ := strconv.Atoi(ks)
		b, _ := hex.DecodeString(hv)
		if b == nil {
			b = []byte{}
		}
		dump[k] = b
	}
	if msg := judge(w, done, dump); msg != "" {
		res.violation = fmt.Sprintf("after %s (during op %d): %s", what, res.op, msg)
	}
	return
}

func copyDir(src, dst string) error {
	ents, err := os.ReadDir(src)
	if err != nil {
		return err
	}
	if err := os.MkdirAll(dst, 0o770); err != nil {
		return err
	}
	for _, e := range ents {
		if e.IsDir() {
			continue
		}
		b, err := os.ReadFile(filepath.Join(src, e.Name()))
		if err != nil {
			return err
		}
		if err := os.WriteFile(filepath.Join(dst, e.Name()), b, 0o660); err != nil {
			return err
		}
	}
	return nil
}

// A point is "<hook>#<n>" (the process dies there while running the workload) optionally followed by
// "+<hook>#<n>" (the restarted process dies there too, inside NewDBExt, before the final restart).
func runCrashPoint(tmp string, w kvCase, point string, wantOp *int) (res crashResult) {
	first, second, _ := strings.Cut(point, "+")
	dir, done, res := crashImage(tmp, w, first, wantOp)
	if res.harness != "" || res.violation != "" {
		return res
	}
	what := "a kill at " + first
	if second != "" {
		out := runChild("open", "VERIF_C19_DIR="+dir, "VERIF_CRASH_AT="+second, "VERIF_TRACE=")
		if out.err != nil || !out.killed {
			res.harness = fmt.Sprintf("second crash point %s was not reached", second)
			return res
		}
		what += " and a second kill at " + second + " during the restart"
	}
	return verifyImage(dir, w, done, what)
}

// recoveryPoints: the hook points hit by the restart on the image in dir (run on a copy).
func recoveryPoints(tmp, dir string) []string {
	cp := filepath.Join(tmp, "probe")
	if copyDir(dir, cp) != nil {
		return nil
	}
	tf := filepath.Join(tmp, "probe.trace")
	out := runChild("open", "VERIF_C19_DIR="+cp, "VERIF_TRACE="+tf, "VERIF_CRASH_AT=")
	os.RemoveAll(cp)
	if out.err != nil || resultLine(out.stdout) == "" {
		return nil // the plain restart is judged by the caller
	}
	b, _ := os.ReadFile(tf)
	counts := map[string]int{}
	var pts []string
	for _, nm := range strings.Fields(string(b)) {
		counts[nm]++
		pts = append(pts, fmt.Sprintf("%s#%d", nm, counts[nm]))
	}
	return pts
}

type tracePoint struct {
	name     string
	n        int  // ordinal of this name
	op       int  // operation during which it is hit (-1: the initial open)
	interior bool // not the last hook hit of its operation
	idx      int  // position in the trace
}

// traceWorkload runs the workload once, uninterrupted, and lists every hook hit.
func traceWorkload(tmp string, w kvCase) ([]tracePoint, string) {
	raw, _ := json.Marshal(w)
	cf := filepath.Join(tmp, "case.json")
	os.WriteFile(cf, raw, 0o644)
	tf := filepath.Join(tmp, "trace")
	pf := filepath.Join(tmp, "progress")
	out := runChild("work", "VERIF_C19_CASE="+cf, "VERIF_C19_DIR="+filepath.Join(tmp, "db"), "VERIF_C19_PROGRESS="+pf, "VERIF_TRACE="+tf, "VERIF_CRASH_AT=")
	if out.err != nil || resultLine(out.stdout) == "" {
		return nil, fmt.Sprintf("the uninterrupted workload died (exit %d): %s", out.exit, tail(out.stderr, 400))
	}
	b, _ := os.ReadFile(tf)
	names := strings.Fields(string(b))
	prog := readProgress(pf)
	counts := map[string]int{}
	var pts []tracePoint
	pi := 0
	for i, nm := range names {
		for pi < len(prog) && prog[pi].hits <= i {
			pi++
		}
		op := len(w.Ops) // beyond the last progress line: cannot happen (the closing Close is logged)
		if pi < len(prog) {
			op = prog[pi].op
		}
		counts[nm]++
		pts = append(pts, tracePoint{name: nm, n: counts[nm], op: op, idx: i})
	}
	for i := range pts {
		pts[i].interior = i+1 < len(pts) && pts[i+1].op == pts[i].op
	}
	return pts, ""
}

func TestQdbCrash(t *testing.T) {
	if os.Getenv("VERIF_REPLAY") != "" {
		t.Skip("replay mode")
	}
	d := pbt.Direct{Name: "qdb_crash"}
	nW := pbt.Count(96, 2400) // workloads of this shard
	steps := 30
	shard, _ := pbt.Shard()
	gen := rapid.Custom(func(t *rapid.T) kvCase { return genKVCase(t, crashWeights, steps, false) })
	base := pbt.Seed("qdb_crash")
	workers := 4
	var totalPts, totalW int
	for j := 0; j < nW && !t.Failed(); j++ {
		w := gen.Example(int((base + uint64(j)*0x9e3779b97f4a7c15) >> 1))
		w.Cfg.Volatile = w.Cfg.Volatile && j%4 == 0 // volatile stores write only at Close: few points, keep them rare
		tmp, err := os.MkdirTemp("", "c19-crash-")
		if err != nil {
			t.Errorf("harness: %v", err)
			return
		}
		pts, terr := traceWorkload(tmp, w)
		os.RemoveAll(tmp)
		if terr != "" {
			// the workload itself dies without any fault injected: a violation of the first oracle, found here
			d.Fail(t, crashCase{W: w, Point: "none#0"}, "%s", terr)
			return
		}
		totalW++
		wraw, _ := json.Marshal(w)
		wid := fmt.Sprintf("%x", fnv64(wraw))
		jobs := make(chan tracePoint)
		var wg sync.WaitGroup
		var mu sync.Mutex
		failed := false
		for k := 0; k < workers; k++ {
			wg.Add(1)
			go func() {
				defer wg.Done()
				for p := range jobs {
					tmp, err := os.MkdirTemp("", "c19-crash-")
					if err != nil {
						continue
					}
					point := fmt.Sprintf("%s#%d", p.name, p.n)
					op := p.op
					dir, done, res := crashImage(tmp, w, point, &op)
					var second []string
					if res.harness == "" && res.violation == "" {
						second = recoveryPoints(tmp, dir)
						res = verifyImage(dir, w, done, "a kill at "+point)
					}
					// kills during the recovery from this image: every hook point the restart passes
					for si, sp := range second {
						if res.harness != "" || res.violation != "" {
							break
						}
						t2 := filepath.Join(tmp, fmt.Sprintf("second%d", si))
						os.MkdirAll(t2, 0o770)
						r2 := runCrashPoint(t2, w, point+"+"+sp, &op)
						mu.Lock()
						switch {
						case r2.harness != "":
							t.Errorf("harness (shard %d, workload %d): %s", shard, j, r2.harness)
						case r2.violation != "":
							d.Eval("recovery:"+strings.SplitN(sp, "#", 2)[0], true, wid+"/"+point+"+"+sp, nil)
							if !failed {
								failed = true
								d.Fail(t, crashCase{W: w, Point: point + "+" + sp}, "%s", r2.violation)
							}
						default:
							d.Eval("recovery:"+strings.SplitN(sp, "#", 2)[0], true, wid+"/"+point+"+"+sp, map[string]any{"workload_ops": len(w.Ops), "point": point + "+" + sp, "during_op": p.op})
						}
						mu.Unlock()
					}
					os.RemoveAll(tmp)
					mu.Lock()
					switch {
					case res.harness != "":
						t.Errorf("harness (shard %d, workload %d): %s", shard, j, res.harness)
					case res.violation != "":
						d.Eval(p.name, p.interior, wid+"/"+point, nil)
						if !failed {
							failed = true
							d.Fail(t, crashCase{W: w, Point: point}, "%s", res.violation)
						}
					default:
						var sample any
						if p.interior {
							sample = map[string]any{"workload_ops": len(w.Ops), "point": point, "during_op": p.op}
						}
						d.Eval(p.name, p.interior, wid+"/"+point, sample)
					}
					mu.Unlock()
				}
			}()
		}
		for _, p := range pts {
			jobs <- p
		}
		close(jobs)
		wg.Wait()
		totalPts += len(pts)
	}
	pbt.AddExtra("crash_workloads", int64(totalW))
	pbt.AddExtra("crash_points", int64(totalPts))
}

func fnv64(b []byte) uint64 {
	h := uint64(14695981039346656037)
	for _, c := range b {
		h ^= uint64(c)
		h *= 1099511628211
	}
	return h
}
