#!/usr/bin/env python3
"""Sensitivity run for C16/C19 without touching /repo: every mutant is a textual substitution applied to a
copy of one source file and handed to the compiler through `go test -overlay`.  The test binary is then run
as 16 quick-tier shards exactly as ./check does; a mutant is CAUGHT when a shard writes a replay file.

  python3 props/c16/mutants.py            # all mutants of this directory
  python3 props/c16/mutants.py M2 M5      # some
"""
import json, os, shutil, subprocess, sys, tempfile, time

HERE = os.path.dirname(os.path.abspath(__file__))
ROOT = os.path.dirname(os.path.dirname(HERE))
PROP = os.path.basename(HERE)
sys.path.insert(0, HERE)
from mutant_list import MUTANTS, HELPERS  # noqa

ENV = dict(os.environ, GOFLAGS="-mod=mod", GOPROXY="off", GOSUMDB="off", GOTOOLCHAIN="local")


def run(mid, desc, fn, subs):
    tmp = tempfile.mkdtemp(prefix="mut-%s-" % PROP)
    try:
        src = open(fn).read()
        for old, new in subs:
            assert src.count(old) == 1, (mid, old, src.count(old))
            src = src.replace(old, new)
        mf = os.path.join(tmp, os.path.basename(fn))
        open(mf, "w").write(src)
        ov = os.path.join(tmp, "overlay.json")
        json.dump({"Replace": {fn: mf}}, open(ov, "w"))
        build = os.path.join(tmp, "build")
        os.makedirs(build)
        binary = os.path.join(build, PROP + ".test")
        p = subprocess.run(["go", "test", "-c", "-vet=off", "-tags", "verif", "-overlay", ov, "-o", binary, "./props/" + PROP],
                           cwd=ROOT, env=ENV, stdout=subprocess.PIPE, stderr=subprocess.STDOUT, text=True)
        if p.returncode != 0:
            print(mid, "DOES-NOT-COMPILE", p.stdout[-400:])
            return
        for out, pkg, tags in HELPERS:
            p = subprocess.run(["go", "build", "-tags", tags, "-overlay", ov, "-o", os.path.join(build, out), pkg],
                               cwd=ROOT, env=ENV, stdout=subprocess.PIPE, stderr=subprocess.STDOUT, text=True)
            if p.returncode != 0:
                print(mid, "HELPER-DOES-NOT-COMPILE", p.stdout[-400:])
                return
        t0 = time.time()
        procs = []
        for i in range(16):
            sd = os.path.join(tmp, "s%d" % i)
            os.makedirs(os.path.join(sd, "fail"))
            os.makedirs(os.path.join(sd, "tmp"))
            e = dict(ENV, VERIF_SEED=os.environ.get("VERIF_SEED", "1"), VERIF_TIER="quick", VERIF_SHARD=str(i), VERIF_SHARDS="16",
                     VERIF_STATS=os.path.join(sd, "stats.json"), VERIF_FAILDIR=os.path.join(sd, "fail"), TMPDIR=os.path.join(sd, "tmp"),
                     VERIF_BUILD=build, VERIF_ROOT=ROOT, VERIF_KF=os.path.join(ROOT, "KNOWN_FINDINGS.json"))
            lf = open(os.path.join(sd, "log"), "wb")
            procs.append((sd, subprocess.Popen([binary, "-test.timeout", "600s", "-rapid.shrinktime", "5s"], cwd=HERE, env=e,
                                               stdout=lf, stderr=subprocess.STDOUT)))
        msgs, died = [], 0
        for sd, p in procs:
            p.wait()
            fails = os.listdir(os.path.join(sd, "fail"))
            for f in fails:
                d = json.load(open(os.path.join(sd, "fail", f)))
                msgs.append("%s: %s" % (d["test"], d["msg"].split("\n")[0][:230]))
            if p.returncode != 0 and not fails:
                died += 1
        verdict = "CAUGHT" if msgs else ("SHARD-DIED(no replay; ./check would say inconclusive)" if died else "MISSED")
        print("%s %s  [%s]  %d failing shards, %.0fs" % (mid, verdict, desc, len(msgs), time.time() - t0))
        for m in sorted(set(msgs))[:3]:
            print("      " + m)
    finally:
        shutil.rmtree(tmp, ignore_errors=True)


if __name__ == "__main__":
    want = sys.argv[1:]
    for mid, desc, fn, subs in MUTANTS:
        if not want or mid in want:
            run(mid, desc, fn, subs)
