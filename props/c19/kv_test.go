package c19

// The case format, the model and the executor shared by the model-based test (run in a child process,
// because qdb calls os.Exit and panics inside its own goroutines) and by the crash campaign.

import (
	"bytes"
	"fmt"
	"os"
	"sort"

	"github.com/piotrnar/gocoin/lib/others/qdb"
)

type kvCfg struct {
	Volatile         bool   `json:"volatile"`
	MaxPending       uint32 `json:"maxpending"`
	MaxPendingNoSync uint32 `json:"maxpending_nosync"`
	DefragPerc       uint32 `json:"defrag_perc"`
	ForcedPerc       uint32 `json:"forced_perc"`
	Load             bool   `json:"load"`    // LoadData of the first session
	Records          uint   `json:"records"` // size hint
}

// op kinds: put putext del delall get browse browseall applyflags sync nosync defrag flush count reopen
type kvOp struct {
	Op    string `json:"op"`
	K     int    `json:"k,omitempty"`     // key index 0..7
	Len   int    `json:"len,omitempty"`   // value length
	Flags uint32 `json:"flags,omitempty"` // putext / applyflags; browse, browseall, reopen+walk: what the walk function returns
	Force bool   `json:"force,omitempty"` // defrag
	Abort int    `json:"abort,omitempty"` // browse: the walk function answers BR_ABORT at the n-th record (0 = never)
	// browse: the flag change returned together with BR_ABORT for that n-th record ("take it, hide it, stop");
	// the records before it get Flags
	AFlags uint32 `json:"aflags,omitempty"`
	Load   bool   `json:"load,omitempty"` // reopen: LoadData
	Walk   bool   `json:"walk,omitempty"` // reopen: pass a WalkFunction (returns Flags)
	Vol    int    `json:"vol,omitempty"`  // reopen: 0 keep the mode, 1 volatile, 2 non-volatile
}

type kvCase struct {
	Cfg  kvCfg  `json:"cfg"`
	Seed uint64 `json:"seed"`
	Ops  []kvOp `json:"ops"`
}

var keyTable = [8]qdb.KeyType{0, 1, 2, 0x100000000, 0x7fffffffffffffff, 0x8000000000000000, 0xfffffffffffffffe, 0xffffffffffffffff}

const markerKey = qdb.KeyType(0x4d41524b4552) // used only by the post-crash continuation

func keyIndex(k qdb.KeyType) int {
	for i, x := range keyTable {
		if x == k {
			return i
		}
	}
	return -1
}

type prng struct{ s uint64 }

func (p *prng) next() uint64 {
	p.s += 0x9e3779b97f4a7c15
	z := p.s
	z = (z ^ (z >> 30)) * 0xbf58476d1ce4e5b9
	z = (z ^ (z >> 27)) * 0x94d049bb133111eb
	return z ^ (z >> 31)
}

// kvValue is the value written by operation opIdx: a pure function of (case seed, op index, key, length).
func kvValue(seed uint64, opIdx, k, n int) []byte {
	b := make([]byte, n)
	p := &prng{s: seed ^ uint64(opIdx+1)*0x100000001b3 ^ uint64(k+1)<<56}
	for i := 0; i < n; i += 8 {
		v := p.next()
		for j := 0; j < 8 && i+j < n; j++ {
			b[i+j] = byte(v >> (8 * uint(j)))
		}
	}
	return b
}

// ---------------------------------------------------------------------------------------------
// model

type mrec struct {
	val      []byte
	noBrowse int // 0 browsable, 1 not browsable, -1 unknown (flags as persisted, after a reopen)
}

func applyBrowseFlag(r *mrec, fl uint32) {
	if fl&qdb.NO_BROWSE != 0 {
		r.noBrowse = 1
	} else if fl&qdb.YES_BROWSE != 0 {
		r.noBrowse = 0
	}
}

type kvSummary struct {
	Ops, Overwrites, Deletes, Reopens          int
	ReopenAfterOverwriteOrDelete               bool
	NoCache, NoBrowse, Defrags, Syncs, Browses int
	BigValue                                   bool
	Emptied                                    int // "delall" operations
	AbortWithFlag                              int // a walk function answered NO_BROWSE (or more) together with BR_ABORT
}

type kvRunner struct {
	c        kvCase
	dir      string
	db       *qdb.DB
	volatile bool
	m        map[int]*mrec
	sum      kvSummary
	dirty    bool      // an overwrite or delete happened (non-trivial rule)
	progress func(int) // called after every completed operation (crash campaign)
	check    bool      // compare with the model after every step
}

func (r *kvRunner) barrier() {
	// Put/Del/Sync/Defrag may hand the work to a goroutine that keeps db.Mutex; the next API call would wait
	// for it anyway - the harness waits here so that "after the step" is well defined
	r.db.Mutex.Lock()
	r.db.Mutex.Unlock()
}

func (r *kvRunner) open(load bool, walk bool, walkFlags uint32) error {
	eo := qdb.ExtraOpts{DefragPercentVal: r.c.Cfg.DefragPerc, ForcedDefragPerc: r.c.Cfg.ForcedPerc,
		MaxPending: r.c.Cfg.MaxPending, MaxPendingNoSync: r.c.Cfg.MaxPendingNoSync}
	opts := &qdb.NewDBOpts{Dir: r.dir, Records: r.c.Cfg.Records, ExtraOpts: &eo, LoadData: load, Volatile: r.volatile}
	var walked map[qdb.KeyType][]byte
	if walk {
		walked = map[qdb.KeyType][]byte{}
		opts.WalkFunction = func(k qdb.KeyType, v []byte) uint32 {
			walked[k] = append([]byte{}, v...)
			return walkFlags
		}
	}
	if e := qdb.NewDBExt(&r.db, opts); e != nil {
		return fmt.Errorf("NewDBExt: %v", e)
	}
	if walk && load && r.check {
		if err := r.compareListing("load-time walk", walked, nil, false); err != nil {
			return err
		}
		for _, rec := range r.m {
			applyBrowseFlag(rec, walkFlags)
		}
	}
	return nil
}

// compareListing: the listing must hold exactly the model's records (all = true) or a legal subset
func (r *kvRunner) compareListing(what string, got map[qdb.KeyType][]byte, order []qdb.KeyType, browseOnly bool) error {
	for k, v := range got {
		i := keyIndex(k)
		if i < 0 || r.m[i] == nil {
			return fmt.Errorf("%s lists key %016x which is not in the map", what, uint64(k))
		}
		if !bytes.Equal(v, r.m[i].val) {
			return fmt.Errorf("%s: key #%d holds %s, the map holds %s", what, i, short(v), short(r.m[i].val))
		}
		if browseOnly && r.m[i].noBrowse == 1 {
			return fmt.Errorf("%s lists key #%d although it is flagged NO_BROWSE", what, i)
		}
	}
	for i, rec := range r.m {
		if _, ok := got[keyTable[i]]; ok {
			continue
		}
		if !browseOnly {
			return fmt.Errorf("%s does not list key #%d (%s)", what, i, short(rec.val))
		}
		if rec.noBrowse == 0 {
			return fmt.Errorf("%s does not list key #%d although it is browsable", what, i)
		}
	}
	return nil
}

func short(v []byte) string {
	if v == nil {
		return "<nil>"
	}
	if len(v) <= 12 {
		return fmt.Sprintf("%d bytes %x", len(v), v)
	}
	return fmt.Sprintf("%d bytes %x..", len(v), v[:12])
}

// browse runs Browse or BrowseAll with a walk function answering fl (and BR_ABORT at the abort-th record)
func (r *kvRunner) browse(all bool, fl uint32, abort int, afl uint32) (map[qdb.KeyType][]byte, map[qdb.KeyType]uint32, int, error) {
	got := map[qdb.KeyType][]byte{}
	ret := map[qdb.KeyType]uint32{} // what the walk function answered for each record it was shown
	n := 0
	var dup error
	walk := func(k qdb.KeyType, v []byte) uint32 {
		n++
		if _, ok := got[k]; ok {
			dup = fmt.Errorf("key %016x listed twice", uint64(k))
		}
		got[k] = append([]byte{}, v...)
		ret[k] = fl
		if abort > 0 && n >= abort {
			ret[k] = afl
			return qdb.BR_ABORT | afl
		}
		return fl
	}
	if all {
		r.db.BrowseAll(walk)
	} else {
		r.db.Browse(walk)
	}
	return got, ret, n, dup
}

func (r *kvRunner) checkAll(step string) error {
	if n := r.db.Count(); n != len(r.m) {
		return fmt.Errorf("%s: Count() = %d, the map has %d keys", step, n, len(r.m))
	}
	got, _, _, err := r.browse(true, 0, 0, 0)
	if err != nil {
		return fmt.Errorf("%s: BrowseAll: %v", step, err)
	}
	return r.compareListing(step+": BrowseAll", got, nil, false)
}

func (r *kvRunner) do(i int, o kvOp) error {
	k := ((o.K % 8) + 8) % 8
	key := keyTable[k]
	switch o.Op {
	case "put", "putext":
		v := kvValue(r.c.Seed, i, k, o.Len)
		if r.m[k] != nil {
			r.sum.Overwrites++
			r.dirty = true
		}
		if o.Len > 32768 {
			r.sum.BigValue = true
		}
		rec := &mrec{val: v}
		if o.Op == "put" {
			r.db.Put(key, v)
		} else {
			r.db.PutExt(key, v, o.Flags)
			if o.Flags&qdb.NO_BROWSE != 0 {
				rec.noBrowse = 1
				r.sum.NoBrowse++
			}
			if o.Flags&qdb.NO_CACHE != 0 {
				r.sum.NoCache++
			}
		}
		r.m[k] = rec
		r.barrier()
	case "del":
		if r.m[k] != nil {
			r.sum.Deletes++
			r.dirty = true
		}
		r.db.Del(key)
		delete(r.m, k)
		r.barrier()
	case "delall":
		// the store is emptied (every key that is present is deleted)
		for kk := 0; kk < 8; kk++ {
			if r.m[kk] != nil {
				r.sum.Deletes++
				r.dirty = true
				r.db.Del(keyTable[kk])
				delete(r.m, kk)
				r.barrier()
			}
		}
		r.sum.Emptied++
	case "get":
		v := r.db.Get(key)
		if !r.check {
			break
		}
		if rec := r.m[k]; rec == nil {
			if v != nil {
				return fmt.Errorf("Get(key #%d) = %s, the map has no such key", k, short(v))
			}
		} else if !bytes.Equal(v, rec.val) || (v == nil && rec.val != nil) {
			return fmt.Errorf("Get(key #%d) = %s, the map holds %s", k, short(v), short(rec.val))
		}
	case "browse", "browseall":
		r.sum.Browses++
		all := o.Op == "browseall"
		got, ret, n, err := r.browse(all, o.Flags, o.Abort, o.AFlags)
		if !r.check {
			break
		}
		if err != nil {
			return fmt.Errorf("%s: %v", o.Op, err)
		}
		if o.Abort > 0 {
			if n > o.Abort {
				return fmt.Errorf("%s went on after BR_ABORT (%d records, abort at %d)", o.Op, n, o.Abort)
			}
			// a legal prefix: only membership is checked
			for kk, v := range got {
				j := keyIndex(kk)
				if j < 0 || r.m[j] == nil || !bytes.Equal(v, r.m[j].val) || (!all && r.m[j].noBrowse == 1) {
					return fmt.Errorf("%s (aborted) lists key %016x = %s which the map does not hold like that", o.Op, uint64(kk), short(v))
				}
			}
			min := 0
			for _, rec := range r.m {
				if all || rec.noBrowse == 0 {
					min++
				}
			}
			if min > o.Abort {
				min = o.Abort
			}
			if n < min {
				return fmt.Errorf("%s stopped after %d records, at least %d expected", o.Op, n, min)
			}
			// the flag change a walk function returns applies to the record it returned it for - also when it
			// comes together with BR_ABORT
			for kk, fl := range ret {
				applyBrowseFlag(r.m[keyIndex(kk)], fl)
				if fl&qdb.NO_BROWSE != 0 && n == o.Abort && fl == o.AFlags {
					r.sum.AbortWithFlag++
				}
			}
			break
		}
		if err := r.compareListing(o.Op, got, nil, !all); err != nil {
			return err
		}
		for kk, fl := range ret {
			applyBrowseFlag(r.m[keyIndex(kk)], fl)
		}
	case "applyflags":
		r.db.ApplyFlags(key, o.Flags)
		if rec := r.m[k]; rec != nil {
			applyBrowseFlag(rec, o.Flags)
			if o.Flags&qdb.NO_CACHE != 0 {
				r.sum.NoCache++
			}
			if o.Flags&qdb.NO_BROWSE != 0 {
				r.sum.NoBrowse++
			}
		}
	case "sync":
		r.sum.Syncs++
		r.db.Sync()
		r.barrier()
	case "nosync":
		r.db.NoSync()
	case "defrag":
		r.sum.Defrags++
		r.db.Defrag(o.Force)
		r.barrier()
	case "flush":
		r.barrier() // Flush takes no lock: only legal while no background sync is running
		r.db.Flush()
	case "count":
		if n := r.db.Count(); r.check && n != len(r.m) {
			return fmt.Errorf("Count() = %d, the map has %d keys", n, len(r.m))
		}
	case "reopen":
		r.db.Close()
		r.db = nil
		switch o.Vol {
		case 1:
			r.volatile = true
		case 2:
			r.volatile = false
		}
		r.sum.Reopens++
		if r.dirty {
			r.sum.ReopenAfterOverwriteOrDelete = true
		}
		for _, rec := range r.m {
			rec.noBrowse = -1 // flags are persisted only with the record's next write: re-learnt, not asserted
		}
		if err := r.open(o.Load, o.Walk, o.Flags); err != nil {
			return err
		}
	}
	return nil
}

// run executes the whole case in dir (which must be empty or absent).
func (r *kvRunner) run() error {
	r.m = map[int]*mrec{}
	r.volatile = r.c.Cfg.Volatile
	if err := r.open(r.c.Cfg.Load, false, 0); err != nil {
		return err
	}
	if r.progress != nil {
		r.progress(-1)
	}
	for i, o := range r.c.Ops {
		r.sum.Ops++
		if err := r.do(i, o); err != nil {
			return fmt.Errorf("step %d (%s): %v", i, o.Op, err)
		}
		if r.check {
			if err := r.checkAll(fmt.Sprintf("after step %d (%s)", i, o.Op)); err != nil {
				return err
			}
		}
		if r.progress != nil {
			r.progress(i)
		}
	}
	// every history ends with close + reopen + full comparison (Get of every key)
	r.db.Close()
	r.db = nil
	if r.progress != nil {
		r.progress(len(r.c.Ops))
	}
	if !r.check {
		return nil
	}
	r.sum.Reopens++
	if r.dirty {
		r.sum.ReopenAfterOverwriteOrDelete = true
	}
	for _, load := range []bool{false, true} {
		if err := r.open(load, false, 0); err != nil {
			return err
		}
		if err := r.checkAll(fmt.Sprintf("after the final reopen (LoadData=%v)", load)); err != nil {
			return err
		}
		for k := 0; k < 8; k++ {
			v := r.db.Get(keyTable[k])
			if rec := r.m[k]; rec == nil {
				if v != nil {
					return fmt.Errorf("after the final reopen Get(key #%d) = %s, the map has no such key", k, short(v))
				}
			} else if !bytes.Equal(v, rec.val) || v == nil {
				return fmt.Errorf("after the final reopen Get(key #%d) = %s, the map holds %s", k, short(v), short(rec.val))
			}
		}
		r.db.Close()
		r.db = nil
	}
	return nil
}

// ---------------------------------------------------------------------------------------------
// dump of a directory (verify child of the crash campaign)

type kvDump struct {
	Keys map[string]string `json:"keys"` // key index -> hex value ("" = empty value); absent keys are absent
	Err  string            `json:"err,omitempty"`
}

func dumpDB(db *qdb.DB, viaGet bool) (map[int][]byte, error) {
	out := map[int][]byte{}
	if viaGet {
		for k := 0; k < 8; k++ {
			if v := db.Get(keyTable[k]); v != nil {
				out[k] = append([]byte{}, v...)
			}
		}
		if n := db.Count(); n != len(out) && !(n == len(out)+1 && db.Get(markerKey) != nil) {
			return out, fmt.Errorf("Count() = %d but Get finds %d of the 8 keys", n, len(out))
		}
		return out, nil
	}
	var err error
	db.BrowseAll(func(k qdb.KeyType, v []byte) uint32 {
		if k == markerKey {
			return 0
		}
		i := keyIndex(k)
		if i < 0 {
			err = fmt.Errorf("BrowseAll lists key %016x which was never written", uint64(k))
			return 0
		}
		if _, dup := out[i]; dup {
			err = fmt.Errorf("BrowseAll lists key #%d twice", i)
		}
		out[i] = append([]byte{}, v...)
		return 0
	})
	return out, err
}

func sameDump(a, b map[int][]byte) string {
	var ks []int
	for k := range a {
		ks = append(ks, k)
	}
	for k := range b {
		if _, ok := a[k]; !ok {
			ks = append(ks, k)
		}
	}
	sort.Ints(ks)
	for _, k := range ks {
		va, oka := a[k]
		vb, okb := b[k]
		if oka != okb || !bytes.Equal(va, vb) {
			return fmt.Sprintf("key #%d: %s (present=%v) vs %s (present=%v)", k, short(va), oka, short(vb), okb)
		}
	}
	return ""
}

func removeAll(dir string) { os.RemoveAll(dir) }
