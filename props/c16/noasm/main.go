// Command noasm is the C16 helper that links lib/others/snappy with the build tag "noasm", i.e. the
// pure-Go encoder/decoder (encode_other.go, decode_other.go) instead of the amd64 assembly.  It serves
// encode/decode requests on stdin/stdout: request = op byte ('E'|'D'), uint32 LE length, payload;
// answer = status byte (0 ok, 1 error), uint32 LE length, payload.
package main

import (
	"bufio"
	"encoding/binary"
	"io"
	"os"

	"github.com/piotrnar/gocoin/lib/others/snappy"
)

func main() {
	in := bufio.NewReaderSize(os.Stdin, 1<<20)
	out := bufio.NewWriterSize(os.Stdout, 1<<20)
	var hdr [5]byte
	for {
		if _, err := io.ReadFull(in, hdr[:]); err != nil {
			return
		}
		buf := make([]byte, binary.LittleEndian.Uint32(hdr[1:]))
		if _, err := io.ReadFull(in, buf); err != nil {
			return
		}
		var res []byte
		status := byte(0)
		switch hdr[0] {
		case 'E':
			res = snappy.Encode(nil, buf)
		case 'D':
			var err error
			res, err = snappy.Decode(nil, buf)
			if err != nil {
				status, res = 1, []byte(err.Error())
			}
		default:
			status = 1
		}
		var oh [5]byte
		oh[0] = status
		binary.LittleEndian.PutUint32(oh[1:], uint32(len(res)))
		out.Write(oh[:])
		out.Write(res)
		out.Flush()
	}
}
