package c16

// Deterministic block/byte-string contents: a pure function of (kind, size, seed).  The seed is
// drawn by rapid; the expansion below is plain arithmetic (no math/rand, no clock), so that a
// replay file needs to hold only the three numbers instead of megabytes.

type prng struct{ s uint64 }

func (p *prng) next() uint64 { // splitmix64
	p.s += 0x9e3779b97f4a7c15
	z := p.s
	z = (z ^ (z >> 30)) * 0xbf58476d1ce4e5b9
	z = (z ^ (z >> 27)) * 0x94d049bb133111eb
	return z ^ (z >> 31)
}

func (p *prng) intn(n int) int {
	if n <= 1 {
		return 0
	}
	return int(p.next() % uint64(n))
}

func (p *prng) fill(b []byte) {
	i := 0
	for ; i+8 <= len(b); i += 8 {
		v := p.next()
		b[i], b[i+1], b[i+2], b[i+3] = byte(v), byte(v>>8), byte(v>>16), byte(v>>24)
		b[i+4], b[i+5], b[i+6], b[i+7] = byte(v>>32), byte(v>>40), byte(v>>48), byte(v>>56)
	}
	if i < len(b) {
		v := p.next()
		for ; i < len(b); i++ {
			b[i] = byte(v)
			v >>= 8
		}
	}
}

// content kinds (the snappy corner cases named by the property)
var kinds = []string{"random", "zeros", "period", "longmatch", "biglit", "text", "runs", "edges", "mixed"}

var edgeLens = []int{1, 3, 4, 5, 11, 12, 13, 59, 60, 61, 63, 64, 65, 67, 68, 69, 127, 128, 255, 256, 257, 1023, 1024, 2047, 2048, 2049, 4096, 65535, 65536, 65537}
var edgeOffs = []int{1, 2, 3, 4, 7, 8, 63, 64, 255, 256, 2047, 2048, 2049, 32767, 32768, 65535, 65536, 65537, 100000}

// makeBytes returns size bytes of the given kind.
func makeBytes(kind string, size int, seed uint64) []byte {
	p := &prng{s: seed ^ 0x5851f42d4c957f2d}
	b := make([]byte, size)
	fillKind(b, kind, p, 0)
	return b
}

func fillKind(b []byte, kind string, p *prng, depth int) {
	n := len(b)
	if n == 0 {
		return
	}
	switch kind {
	case "random":
		p.fill(b)
	case "zeros":
		// already zero
	case "period":
		per := []int{1, 2, 3, 4, 5, 7, 8, 15, 16, 17, 60, 64, 65, 255, 256, 1000, 4096, 65536}[p.intn(18)]
		if per > n {
			per = n
		}
		p.fill(b[:per])
		for i := per; i < n; i++ {
			b[i] = b[i-per]
		}
	case "longmatch":
		// incompressible filler with copies of one chunk at chosen distances (incl. > 64 KiB)
		p.fill(b)
		l := 4 + p.intn(3000)
		if l > n/2 {
			l = n / 2
		}
		if l < 1 {
			return
		}
		pos := p.intn(64)
		for k := 0; k < 40 && pos+l <= n; k++ {
			d := edgeOffs[p.intn(len(edgeOffs))] + p.intn(3)
			if d < l {
				d = l
			}
			if pos+d+l > n {
				d = l + p.intn(n-pos-l-l+1)
				if pos+d+l > n {
					break
				}
			}
			copy(b[pos+d:pos+d+l], b[pos:pos+l])
			pos += d
		}
	case "biglit":
		// an incompressible run longer than 64 KiB (when the size allows), then a highly repetitive tail
		lit := 65536 + 1 + p.intn(5000)
		if lit > n {
			lit = n
		}
		p.fill(b[:lit])
		for i := lit; i < n; i++ {
			b[i] = b[(i-lit)%1000]
		}
	case "text":
		al := 2 + p.intn(15)
		for i := 0; i < n; {
			v := p.next()
			for k := 0; k < 16 && i < n; k++ {
				b[i] = 'a' + byte(int(v&15)%al)
				v >>= 4
				i++
			}
		}
	case "runs":
		for i := 0; i < n; {
			l := edgeLens[p.intn(len(edgeLens))]
			if p.intn(3) == 0 {
				l = 1 + p.intn(300)
			}
			c := byte(p.next())
			for k := 0; k < l && i < n; k++ {
				b[i] = c
				i++
			}
		}
	case "edges":
		// [literal of an edge length][copy of an edge length from an edge offset] ...
		for i := 0; i < n; {
			l := edgeLens[p.intn(len(edgeLens))]
			if i+l > n {
				l = n - i
			}
			p.fill(b[i : i+l])
			i += l
			if i >= n {
				break
			}
			cl := edgeLens[p.intn(len(edgeLens))]
			off := edgeOffs[p.intn(len(edgeOffs))]
			if off > i {
				off = 1 + p.intn(i)
			}
			for k := 0; k < cl && i < n; k++ {
				b[i] = b[i-off]
				i++
			}
		}
	default: // mixed
		if depth > 0 {
			p.fill(b)
			return
		}
		for i := 0; i < n; {
			l := 1 + p.intn(5000)
			if p.intn(6) == 0 {
				l = 1 + p.intn(80000)
			}
			if i+l > n {
				l = n - i
			}
			k := kinds[p.intn(len(kinds)-1)]
			fillKind(b[i:i+l], k, p, depth+1)
			i += l
		}
	}
}
