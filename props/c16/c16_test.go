package c16

import (
	"bytes"
	"encoding/binary"
	"encoding/json"
	"fmt"
	"os"
	"sync"
	"sync/atomic"
	"testing"

	"github.com/piotrnar/gocoin/lib/btc"
	"github.com/piotrnar/gocoin/lib/chain"
	"github.com/piotrnar/gocoin/lib/others/snappy"
	"pgregory.net/rapid"
	"verif/pbt"
)

func TestMain(m *testing.M) {
	pbt.RegisterReplay("blockdb_model", func(raw json.RawMessage) error {
		var c caseC16
		if err := json.Unmarshal(raw, &c); err != nil {
			return err
		}
		_, err := checkBlockDB(c)
		return err
	})
	pbt.RegisterReplay("snappy_roundtrip", func(raw json.RawMessage) error {
		var c snapCase
		if err := json.Unmarshal(raw, &c); err != nil {
			return err
		}
		return checkSnappy(c)
	})
	pbt.RegisterReplay("snappy_noasm", func(raw json.RawMessage) error {
		var c snapCase
		if err := json.Unmarshal(raw, &c); err != nil {
			return err
		}
		h, err := startNoasm()
		if err != nil {
			return nil // helper not built: nothing to replay against (the driver builds it)
		}
		defer h.stop()
		return checkNoasm(h, c)
	})
	pbt.Main(m, "C16")
}

// ---------------------------------------------------------------------------------------------
// the generated case: options + the whole operation sequence (pure data)

type dbCfg struct {
	Compress bool   `json:"compress"`
	Cache    int    `json:"cache"`
	MaxFile  uint64 `json:"maxfile"`
	Keep     uint32 `json:"keep"`
	Backup   bool   `json:"backup"`
	// "history offset": the store starts with one block whose data sits at this position of a sparse data
	// file (only with MaxFile 0 = unlimited), as after a long synchronisation: positions beyond 4 GiB
	Base int64 `json:"base,omitempty"`
}

type blkSpec struct {
	Kind   string `json:"kind"`
	Size   int    `json:"size"`
	Seed   uint64 `json:"seed"`
	Height uint32 `json:"height"`
	Txs    uint32 `json:"txs"`
}

// op kinds: add readd get getnc getunknown length trust trustinv readdinv invalid invalidlast invalidtail twin abortedreopen idle reopen burst bigburst
type op struct {
	Op       string   `json:"op"`
	B        *blkSpec `json:"b,omitempty"`
	I        int      `json:"i,omitempty"` // index into the current candidate list, taken modulo its length
	Trusted  bool     `json:"trusted,omitempty"`
	Decode   bool     `json:"decode,omitempty"`
	N        int      `json:"n,omitempty"`
	Compress bool     `json:"compress,omitempty"` // reopen: options of the new session
	Cache    int      `json:"cache,omitempty"`
	// reopen after a simulated process death: what lies on disk between Close and the restart is changed
	Tail int `json:"tail,omitempty"` // bytes appended to the current data file without an index record
	Cut  int `json:"cut,omitempty"`  // bytes cut off the end of blockchain.new (k*136+j: k records + a torn one)
	// datacut: the newest data file is truncated into the data of its DBlocks-th block from the end (1..3), of
	// which DKeep bytes (modulo its stored length) remain; the index is left intact.  Excludes Tail/Cut.
	DBlocks int `json:"dblocks,omitempty"`
	DKeep   int `json:"dkeep,omitempty"`
}

type caseC16 struct {
	Cfg dbCfg `json:"cfg"`
	Ops []op  `json:"ops"`
}

// ---------------------------------------------------------------------------------------------
// model

type mblk struct {
	raw     []byte
	hash    *btc.Uint256
	height  uint32
	txs     uint32
	trusted bool
	invalid bool
	written bool
	file    uint32 // data file index the record went to
	fpos    int64
	stored  int64 // length on disk (after compression)
	gone    bool  // its data file fell out of the configured retention (DataFilesKeep, no backup)
	lost    bool  // its index record was cut away by a simulated crash: the block is not stored any more
	// marked invalid, and the store has been restarted since: the store does not know the hash any more
	forgotten bool
	// handed to the store again after it had been marked invalid on disk, in the same session
	reAdded bool
}

const kfReaddInvalid = "readd-after-invalid-not-stored"

type summary struct {
	trustAfterInvalid, readdAfterInvalid, excludedReadd int
	adds, rolls, flagUpd, reopens, removed              int
	reopenAfterFlagOrRoll                               bool
	readQueued, readDisk, readGone, sweepCnt            int
	maxBlock                                            int
	burst                                               bool
	invalidOnDisk, appendAfterInvalidReopen             bool
	invalidReopened, byteFlush                          bool
	idxRegress, idxRegressArchived                      bool
	unindexedTail, appendAfterTail                      bool
	cutRecords, abortedLoads, twins                     int
	abortedMidway                                       bool
	dataCuts, readBeyond4G                              int
	addsAfterCutThenReopen                              bool
	concWindows, concReads, concReadsDisk               int
}

type runner struct {
	cfg      dbCfg // Compress / Cache are those of the current session
	dir      string
	db       *chain.BlockDB
	blocks   []*mblk // every block ever added, in order
	byHash   map[[32]byte]*mblk
	queue    []*mblk // the write queue (FIFO), may hold entries that were invalidated meanwhile
	datToWr  uint64
	records  []*mblk // records of the index file, in file order
	curIdx   uint32
	curPos   int64
	sum      summary
	dirtySeq bool // a flag update or roll-over happened since the start (for the non-trivial rule)
	step     int
	archived map[uint32]bool // data files that left the main directory (removed or moved to oldat/)
	// a restart found the current data file longer than the indexed extent (appends must overwrite that tail)
	tailPending bool
	minIdx      uint32 // see mReopen
	cutHappened bool   // a datacut fault dropped records (class adds_after_data_cut_then_reopen)
	addAfterCut bool
}

func (r *runner) storedLen(b *mblk) int64 {
	if r.cfg.Compress {
		return int64(len(snappy.Encode(nil, b.raw)))
	}
	return int64(len(b.raw))
}

// a data file leaves the retention window
func (r *runner) mRemove(f uint32) {
	r.sum.removed++
	if r.archived == nil {
		r.archived = map[uint32]bool{}
	}
	r.archived[f] = true
	if r.cfg.Backup {
		return // moved to oldat/, still readable through the archive fall-back of BlockGet
	}
	for _, b := range r.records {
		if b.file == f {
			b.gone = true
		}
	}
}

// writeAll(): everything queued goes to disk, in order
func (r *runner) mFlush() {
	for _, e := range r.queue {
		r.datToWr -= uint64(len(e.raw))
		if e.invalid || e.written {
			continue // "Block not in the index anymore - discard"
		}
		sl := r.storedLen(e)
		if r.cfg.MaxFile != 0 && uint64(r.curPos)+uint64(sl) > r.cfg.MaxFile {
			if r.cfg.Keep != 0 && r.curIdx >= r.cfg.Keep {
				r.mRemove(r.curIdx - r.cfg.Keep)
			}
			r.curIdx++
			r.curPos = 0
			r.sum.rolls++
			r.dirtySeq = true
		}
		e.written, e.file, e.fpos, e.stored = true, r.curIdx, r.curPos, sl
		r.curPos += sl
		r.records = append(r.records, e)
	}
	r.queue = r.queue[:0]
}

// the append position LoadBlockIndex re-derives from the listed records
func (r *runner) mReopen() {
	r.curIdx, r.curPos = 0, 0
	for _, b := range r.records { // invalid records count too: their space is not reused
		if b.file > r.curIdx {
			r.curIdx = b.file
			r.curPos = 0
		}
		if b.fpos+b.stored > r.curPos {
			r.curPos = b.fpos + b.stored
		}
	}
	// LoadBlockIndex switches to the data file of a record before it finds that the record's data is missing
	// (datacut fault): when the first record of the newest file is dropped, that file stays the current one
	if r.minIdx > r.curIdx {
		r.curIdx, r.curPos = r.minIdx, 0
	}
	r.minIdx = 0
	// generator health: would ignoring the invalid records move the current data file back (finding
	// datfile-index-regression), and had that file already left the main directory?
	var vIdx uint32
	for _, b := range r.records {
		if !b.invalid && b.file > vIdx {
			vIdx = b.file
		}
	}
	if vIdx < r.curIdx {
		r.sum.idxRegress = true
		if r.archived[vIdx] {
			r.sum.idxRegressArchived = true
		}
	}
	if r.cfg.Keep != 0 && r.curIdx > r.cfg.Keep {
		idx := r.curIdx - r.cfg.Keep
		for limit := 0; limit < 3; limit++ {
			idx--
			r.mRemove(idx)
			if idx == 0 {
				break
			}
		}
	}
}

// ---------------------------------------------------------------------------------------------
// executor + oracle

func (r *runner) open() error {
	r.db = chain.NewBlockDBExt(r.dir, &chain.BlockDBOpts{MaxCachedBlocks: r.cfg.Cache, MaxDataFileSize: r.cfg.MaxFile,
		DataFilesKeep: r.cfg.Keep, DataFilesBackup: r.cfg.Backup, CompressOnDisk: r.cfg.Compress})
	type ent struct {
		hash           [32]byte
		hdr            []byte
		height, bl, tx uint32
	}
	var listed []ent
	r.db.LoadBlockIndex(nil, func(ch *chain.Chain, hash, hdr []byte, height, blen, txs uint32) {
		var e ent
		copy(e.hash[:], hash)
		e.hdr = append([]byte(nil), hdr...)
		e.height, e.bl, e.tx = height, blen, txs
		listed = append(listed, e)
	})
	seen := map[[32]byte]bool{}
	for _, e := range listed {
		b := r.byHash[e.hash]
		if b == nil {
			return fmt.Errorf("after reopen the index lists block %x (height %d, %d bytes) which was never stored", e.hash[:8], e.height, e.bl)
		}
		if b.invalid {
			return fmt.Errorf("after reopen the index lists block #%d which was marked invalid", r.serial(b))
		}
		if b.lost {
			return fmt.Errorf("after reopen the index lists block #%d although its index record was cut away", r.serial(b))
		}
		if !b.written {
			return fmt.Errorf("after reopen the index lists block #%d which the model never saw written", r.serial(b))
		}
		if seen[e.hash] {
			return fmt.Errorf("after reopen the index lists block #%d twice", r.serial(b))
		}
		seen[e.hash] = true
		if !bytes.Equal(e.hdr, b.raw[:80]) || e.height != b.height || e.bl != uint32(len(b.raw)) || e.tx != b.txs {
			return fmt.Errorf("after reopen block #%d is listed with height=%d size=%d txs=%d, stored was height=%d size=%d txs=%d",
				r.serial(b), e.height, e.bl, e.tx, b.height, len(b.raw), b.txs)
		}
	}
	for _, b := range r.records {
		if !b.invalid && !b.gone && !seen[b.hash.Hash] {
			if b.reAdded && r.byHash[b.hash.Hash] == b && pbt.FindingOpen(kfReaddInvalid) && os.Getenv("VERIF_REPLAY") == "" {
				// open finding: a block handed over again after it was marked invalid on disk is not stored again
				r.sum.excludedReadd++
				b.invalid = true
				continue
			}
			return fmt.Errorf("after reopen the index does not list block #%d (height %d, %d bytes, record in file %d; re-added after invalid: %v)", r.serial(b), b.height, len(b.raw), b.file, b.reAdded)
		}
	}
	for _, b := range r.blocks {
		if b.reAdded && b.gone && !b.invalid && !seen[b.hash.Hash] {
			b.invalid = true // out of retention, so not asserted above - but the model must know it is not stored
		}
		b.reAdded = false
		if b.invalid {
			b.forgotten = true
		}
	}
	return nil
}

func (r *runner) serial(b *mblk) int {
	for i, x := range r.blocks {
		if x == b {
			return i
		}
	}
	return -1
}

// candidates: blocks that were not invalidated
func (r *runner) live(pred func(*mblk) bool) []*mblk {
	var l []*mblk
	for _, b := range r.blocks {
		if !b.invalid && !b.lost && (pred == nil || pred(b)) {
			l = append(l, b)
		}
	}
	return l
}

func (r *runner) checkGet(b *mblk, nocache bool) error {
	var data []byte
	var trusted bool
	var e error
	if nocache {
		var rec *chain.BlckCachRec
		rec, trusted, e = r.db.BlockGetInternal(b.hash, true)
		if rec != nil {
			data = rec.Data
		}
	} else {
		data, trusted, e = r.db.BlockGet(b.hash)
	}
	if b.gone {
		r.sum.readGone++
		return nil // outside the retention window: nothing is promised
	}
	if b.written {
		r.sum.readDisk++
		if b.fpos+b.stored > 1<<32 {
			r.sum.readBeyond4G++
		}
	} else {
		r.sum.readQueued++
	}
	where := "still queued"
	if b.written {
		where = fmt.Sprintf("written to data file %d at %d", b.file, b.fpos)
	}
	if e != nil {
		return fmt.Errorf("block #%d (%d bytes, %s) cannot be read back: %v", r.serial(b), len(b.raw), where, e)
	}
	if !bytes.Equal(data, b.raw) {
		return fmt.Errorf("block #%d (%d bytes, %s) reads back different: got %d bytes, first difference at %d", r.serial(b), len(b.raw), where, len(data), firstDiff(data, b.raw))
	}
	if trusted != b.trusted {
		return fmt.Errorf("block #%d (%s) reads back with trusted=%v, expected %v", r.serial(b), where, trusted, b.trusted)
	}
	return nil
}

func firstDiff(a, b []byte) int {
	n := len(a)
	if len(b) < n {
		n = len(b)
	}
	for i := 0; i < n; i++ {
		if a[i] != b[i] {
			return i
		}
	}
	return n
}

func (r *runner) checkLength(b *mblk, decode bool) error {
	l, e := r.db.BlockLength(b.hash, decode)
	if b.gone {
		return nil
	}
	if e != nil {
		return fmt.Errorf("BlockLength(block #%d, %v): %v", r.serial(b), decode, e)
	}
	if l == uint32(len(b.raw)) {
		return nil
	}
	if !decode && b.written && int64(l) == b.stored {
		return nil // without decoding the length on disk is a documented answer
	}
	return fmt.Errorf("BlockLength(block #%d, decode=%v) = %d, block has %d bytes (written=%v, %d on disk)", r.serial(b), decode, l, len(b.raw), b.written, b.stored)
}

// concRead: the client's network and RPC goroutines read blocks (BlockGet / BlockGetInternal / BlockLength) while
// its main goroutine - the only writer - adds blocks and flushes the queue.  Three reader goroutines go round the
// newest stored blocks (some still queued, some written; with a cache of 1..8 blocks most reads go to the disk)
// while this goroutine does what the main loop does: o.N adds, Idle after every third one.  Nothing the writer
// does in the window touches the blocks that are read, so every read must return exactly the stored bytes and
// the trusted flag; a block whose data file leaves the retention window during the window is not judged.
func (r *runner) concRead(o op) error {
	set := r.live(func(b *mblk) bool { return !b.gone && r.byHash[b.hash.Hash] == b })
	if len(set) == 0 {
		return nil
	}
	if len(set) > 24 {
		set = set[len(set)-24:]
	}
	type bad struct {
		b   *mblk
		msg string
	}
	const readers = 3
	var stop atomic.Bool
	var wg sync.WaitGroup
	var started sync.WaitGroup
	bads := make([][]bad, readers)
	counts := make([]int, readers)
	db := r.db
	for g := 0; g < readers; g++ {
		wg.Add(1)
		started.Add(1)
		go func(g int) {
			defer wg.Done()
			defer func() {
				if x := recover(); x != nil {
					bads[g] = append(bads[g], bad{nil, fmt.Sprintf("a reading goroutine panicked: %v", x)})
				}
			}()
			first := true
			for i := g * 7; len(bads[g]) < 3; i++ {
				if !first && stop.Load() {
					break
				}
				b := set[i%len(set)]
				switch (i/len(set) + g) % 3 {
				case 0, 1:
					var data []byte
					var tr bool
					var e error
					if (i/len(set)+g)%3 == 0 {
						data, tr, e = db.BlockGet(b.hash)
					} else {
						var rec *chain.BlckCachRec
						rec, tr, e = db.BlockGetInternal(b.hash, true)
						if rec != nil {
							data = rec.Data
						}
					}
					if e != nil {
						bads[g] = append(bads[g], bad{b, fmt.Sprintf("cannot be read back by a concurrent reader: %v", e)})
					} else if !bytes.Equal(data, b.raw) {
						bads[g] = append(bads[g], bad{b, fmt.Sprintf("reads back different in a concurrent reader: got %d bytes, first difference at %d", len(data), firstDiff(data, b.raw))})
					} else if tr != b.trusted {
						bads[g] = append(bads[g], bad{b, fmt.Sprintf("reads back with trusted=%v in a concurrent reader, expected %v", tr, b.trusted)})
					}
				case 2:
					l, e := db.BlockLength(b.hash, true)
					if e != nil {
						bads[g] = append(bads[g], bad{b, fmt.Sprintf("BlockLength in a concurrent reader: %v", e)})
					} else if l != uint32(len(b.raw)) {
						bads[g] = append(bads[g], bad{b, fmt.Sprintf("BlockLength(decode) in a concurrent reader = %d", l)})
					}
				}
				counts[g]++
				if first {
					first = false
					started.Done()
				}
			}
			if first {
				started.Done()
			}
		}(g)
	}
	started.Wait() // every reader has completed one read: the window is open
	for i := 0; i < o.N; i++ {
		s := blkSpec{Kind: kinds[(o.I+i)%len(kinds)], Size: 81 + ((o.I+i)*7919)%6000, Seed: uint64(o.I)*31 + uint64(i), Height: uint32(i), Txs: uint32(i % 5)}
		r.add(&s, i%4 == 0)
		if i%3 == 2 {
			r.db.Idle()
			r.mFlush()
		}
	}
	r.db.Idle()
	r.mFlush()
	stop.Store(true)
	wg.Wait()
	r.sum.concWindows++
	for g := range counts {
		r.sum.concReads += counts[g]
	}
	for _, b := range set {
		if b.written && !b.gone {
			r.sum.concReadsDisk++
		}
	}
	for g := range bads {
		for _, x := range bads[g] {
			if x.b == nil {
				return fmt.Errorf("%s", x.msg)
			}
			if x.b.gone {
				continue // its data file left the retention window while it was being read
			}
			return fmt.Errorf("block #%d (%d bytes) %s (the main goroutine was adding %d blocks and flushing the queue meanwhile)", r.serial(x.b), len(x.b.raw), x.msg, o.N)
		}
	}
	return nil
}

func (r *runner) sweep() error {
	r.sum.sweepCnt++
	for _, b := range r.blocks {
		if b.invalid || b.lost {
			continue
		}
		if err := r.checkGet(b, false); err != nil {
			return err
		}
	}
	return nil
}

func (r *runner) add(s *blkSpec, trusted bool) {
	size := s.Size
	if size < 81 {
		size = 81
	}
	raw := makeBytes(s.Kind, size, s.Seed)
	// unique header: the hash of the first 80 bytes names the block
	hp := &prng{s: s.Seed*0x9e3779b97f4a7c15 + uint64(len(r.blocks))*0x100000001b3 + 1}
	hp.fill(raw[:80])
	r.store(raw, s.Height, s.Txs, trusted)
}

// store hands a block whose hash the store does not know (any more) to BlockAdd and registers it in the model.
func (r *runner) store(raw []byte, height, txs uint32, trusted bool) *mblk {
	b := &mblk{raw: raw, hash: btc.NewSha2Hash(raw[:80]), height: height, txs: txs, trusted: trusted}
	bl := &btc.Block{Raw: raw, Hash: b.hash, TxCount: int(txs)}
	if trusted {
		bl.Trusted.Set()
	}
	r.db.BlockAdd(height, bl)
	r.blocks = append(r.blocks, b)
	r.byHash[b.hash.Hash] = b
	r.queue = append(r.queue, b)
	r.datToWr += uint64(len(raw))
	r.sum.adds++
	if r.cutHappened {
		r.addAfterCut = true
	}
	if r.tailPending {
		r.sum.appendAfterTail = true
	}
	if r.sum.invalidReopened {
		r.sum.appendAfterInvalidReopen = true
	}
	if len(raw) > r.sum.maxBlock {
		r.sum.maxBlock = len(raw)
	}
	if len(r.queue) >= chain.MAX_BLOCKS_TO_WRITE || r.datToWr >= chain.MAX_DATA_WRITE {
		if r.datToWr >= chain.MAX_DATA_WRITE {
			r.sum.byteFlush = true
		}
		r.mFlush()
	}
	return b
}

func (r *runner) do(o op) error {
	switch o.Op {
	case "add":
		if o.B == nil {
			return nil
		}
		r.add(o.B, o.Trusted)
	case "burst":
		// many small blocks, to cross the MAX_BLOCKS_TO_WRITE flush threshold
		r.sum.burst = true
		for i := 0; i < o.N; i++ {
			s := blkSpec{Kind: "random", Size: 81 + (i*37)%200, Seed: uint64(o.I)*1000003 + uint64(i), Height: uint32(i), Txs: uint32(i % 7)}
			r.add(&s, i%5 == 0)
		}
	case "bigburst":
		// a few multi-megabyte blocks in a row, to cross the MAX_DATA_WRITE (16 MiB) flush threshold
		for i := 0; i < o.N; i++ {
			s := blkSpec{Kind: kinds[(o.I+i)%len(kinds)], Size: 3400000 + (o.I+i*7919)%600000, Seed: uint64(o.I)*7 + uint64(i), Height: uint32(i), Txs: uint32(i)}
			r.add(&s, false)
		}
	case "readd":
		l := r.live(nil)
		if len(l) == 0 {
			return nil
		}
		b := l[o.I%len(l)]
		bl := &btc.Block{Raw: append([]byte(nil), b.raw...), Hash: btc.NewUint256(b.hash.Hash[:]), TxCount: int(b.txs)}
		if o.Trusted {
			bl.Trusted.Set()
		}
		r.db.BlockAdd(b.height, bl)
		if o.Trusted && !b.trusted {
			b.trusted = true
			r.sum.flagUpd++
			r.dirtySeq = true
		}
		return r.checkGet(b, false)
	case "get", "getnc":
		l := r.live(nil)
		if len(l) == 0 {
			return nil
		}
		return r.checkGet(l[o.I%len(l)], o.Op == "getnc")
	case "getunknown":
		var h [32]byte
		(&prng{s: uint64(o.I) + 77}).fill(h[:])
		if r.byHash[h] != nil {
			return nil
		}
		data, _, e := r.db.BlockGet(btc.NewUint256(h[:]))
		if e == nil || data != nil {
			return fmt.Errorf("BlockGet of a hash that was never stored returned %d bytes, err=%v", len(data), e)
		}
	case "length":
		l := r.live(nil)
		if len(l) == 0 {
			return nil
		}
		return r.checkLength(l[o.I%len(l)], o.Decode)
	case "trust":
		l := r.live(nil)
		if len(l) == 0 {
			return nil
		}
		b := l[o.I%len(l)]
		r.db.BlockTrusted(b.hash.Hash[:])
		if !b.trusted {
			b.trusted = true
			r.sum.flagUpd++
			r.dirtySeq = true
		}
		return r.checkGet(b, false)
	case "trustinv":
		// mark-trusted after mark-invalid on the same block: the block stays invalid (unlisted after a restart)
		var l []*mblk
		for _, b := range r.blocks {
			if b.invalid && !b.lost && r.byHash[b.hash.Hash] == b { // (no newer block with the same hash)
				l = append(l, b)
			}
		}
		if len(l) == 0 {
			return nil
		}
		b := l[o.I%len(l)]
		r.db.BlockTrusted(b.hash.Hash[:])
		r.sum.trustAfterInvalid++
		if b.written && !b.forgotten {
			b.trusted = true // the record is still in memory: its flag is set (and TRUSTED is or-ed on disk)
		}
	case "readdinv":
		// the block is handed to the store again after it was marked invalid (it verifies on a later delivery:
		// CommitBlock calls BlockAdd, with Trusted set when it extends the tip): it is a stored block again
		var l []*mblk
		for _, b := range r.blocks {
			if b.invalid && !b.lost && b.written && r.byHash[b.hash.Hash] == b {
				l = append(l, b)
			}
		}
		if len(l) == 0 {
			return nil
		}
		b := l[o.I%len(l)]
		r.sum.readdAfterInvalid++
		if b.forgotten {
			// after a restart the store does not know the hash: a regular store, with a new record
			b2 := r.store(append([]byte(nil), b.raw...), b.height, b.txs, o.Trusted)
			return r.checkGet(b2, false)
		}
		bl := &btc.Block{Raw: append([]byte(nil), b.raw...), Hash: btc.NewUint256(b.hash.Hash[:]), TxCount: int(b.txs)}
		if o.Trusted {
			bl.Trusted.Set()
		}
		r.db.BlockAdd(b.height, bl)
		b.invalid, b.reAdded = false, true
		if o.Trusted {
			b.trusted = true
		}
		r.dirtySeq = true
		return r.checkGet(b, false)
	case "invalid", "invalidlast":
		// BlockInvalid on a trusted block panics by design: only untrusted blocks are candidates
		l := r.live(func(b *mblk) bool { return !b.trusted })
		if len(l) == 0 {
			return nil
		}
		b := l[o.I%len(l)]
		if o.Op == "invalidlast" { // the usual situation: the block that arrived last turns out to be bad
			b = l[len(l)-1]
		}
		r.db.BlockInvalid(b.hash.Hash[:])
		b.invalid = true
		if b.written {
			r.sum.invalidOnDisk = true
		}
		r.sum.flagUpd++
		r.dirtySeq = true
	case "invalidtail":
		// the most recent N blocks turn out to be bad (a rejected branch)
		for i := 0; i < o.N; i++ {
			l := r.live(nil)
			if len(l) == 0 || l[len(l)-1].trusted {
				break
			}
			b := l[len(l)-1]
			r.db.BlockInvalid(b.hash.Hash[:])
			b.invalid = true
			if b.written {
				r.sum.invalidOnDisk = true
			}
			r.sum.flagUpd++
			r.dirtySeq = true
		}
	case "idle":
		r.db.Idle()
		r.mFlush()
	case "concread":
		return r.concRead(o)
	case "reopen":
		if o.DBlocks > 0 {
			if err := r.dataCut(o.DBlocks, o.DKeep); err != nil {
				return err
			}
			return r.reopenFault(o.Compress, o.Cache, 0, 0, 0)
		}
		return r.reopenFault(o.Compress, o.Cache, o.Tail, o.Cut, uint64(r.step))
	case "abortedreopen":
		return r.abortedReopen(o.N, o.Trusted, o.Compress, o.Cache)
	case "twin":
		if o.B == nil {
			return nil
		}
		return r.twin(o.B, o.I)
	}
	return nil
}

// abortedReopen: a start-up that is interrupted while the index is being loaded (Ctrl-C: client/init.go sets
// chain.AbortNow, LoadBlockIndex leaves its loop, the client calls Close() and exits - or the process is killed
// right away, noClose).  An aborted load has seen only the first k records; it must leave the store as it was:
// the next, uninterrupted start lists and reads back everything.
func (r *runner) abortedReopen(k int, noClose bool, compress bool, cache int) error {
	r.db.Close()
	r.mFlush()
	r.db = nil
	listed := 0
	for _, b := range r.records {
		if !b.invalid {
			listed++
		}
	}
	if k < 0 { // "all but one"
		k = listed - 1
		if k < 0 {
			k = 0
		}
	}
	k %= listed + 1
	if listed > 1 && k == listed {
		k = listed - 1 // an abort after the last record is no abort
	}
	func() {
		defer func() { chain.AbortNow = false }() // package-level switch: never leave it set
		db := chain.NewBlockDBExt(r.dir, &chain.BlockDBOpts{MaxCachedBlocks: r.cfg.Cache, MaxDataFileSize: r.cfg.MaxFile,
			DataFilesKeep: r.cfg.Keep, DataFilesBackup: r.cfg.Backup, CompressOnDisk: r.cfg.Compress})
		n := 0
		if k == 0 {
			chain.AbortNow = true
		}
		db.LoadBlockIndex(nil, func(ch *chain.Chain, hash, hdr []byte, height, blen, txs uint32) {
			n++
			if n >= k {
				chain.AbortNow = true
			}
		})
		if !noClose {
			db.Close()
		}
		// noClose: the process is gone; its descriptors are closed without anything being written (here: by
		// the finalizers of the os.File values)
	}()
	r.sum.abortedLoads++
	if listed > 1 {
		r.sum.abortedMidway = true
	}
	return r.reopenFault(compress, cache, 0, 0, 0)
}

// twin: a block arrives, is marked invalid while it is still in the write queue ("never write it"), and a block
// with the same header - hence the same hash - but another body is handed to the store (the re-delivered /
// malleated twin).  The store must return the bytes it was handed last.
func (r *runner) twin(s *blkSpec, salt int) error {
	before := len(r.blocks)
	r.add(s, false)
	b := r.blocks[before]
	if b.written {
		return nil // a flush threshold was crossed: not the queued situation
	}
	r.db.BlockInvalid(b.hash.Hash[:])
	b.invalid = true
	size2 := 81 + (len(b.raw)*7+salt)%(2*len(b.raw))
	raw2 := makeBytes(kinds[salt%len(kinds)], size2, s.Seed^uint64(salt)*0x9e3779b97f4a7c15^1)
	copy(raw2[:80], b.raw[:80])
	if salt%3 == 0 { // the very same block again (a peer re-sends it)
		raw2 = append([]byte(nil), b.raw...)
	}
	b2 := r.store(raw2, s.Height+1, s.Txs+1, salt%2 == 1)
	r.sum.twins++
	return r.checkGet(b2, false)
}

func (r *runner) reopen(compress bool, cache int) error {
	return r.reopenFault(compress, cache, 0, 0, 0)
}

// datName mirrors BlockDB.dat_fname for the main directory.
func (r *runner) datName(idx uint32) string {
	fn := r.dir + "blockchain.dat"
	if idx != 0 {
		fn = r.dir + fmt.Sprintf("blockchain-%08x.dat", idx)
	}
	if _, er := os.Stat(fn); er != nil {
		fn = r.dir + fmt.Sprintf("bl%08d.dat", idx)
	}
	return fn
}

// dataCut: Close, then the tail of the newest data file is lost while the index records made it to the disk (the
// situation LoadBlockIndex handles since ac6f9f64: it stops at the first record whose data lies beyond the data
// file).  The block cut into and everything indexed after it are not stored any more - they must never come
// back at any later restart - everything before reads back as before.
func (r *runner) dataCut(nblocks, keep int) error {
	r.db.Close()
	r.mFlush()
	r.db = nil
	n := len(r.records)
	if n == 0 {
		return nil
	}
	lastFile := r.records[n-1].file
	cnt := 0
	for i := n - 1; i >= 0 && r.records[i].file == lastFile; i-- {
		cnt++
	}
	if nblocks > cnt {
		nblocks = cnt
	}
	if nblocks == cnt {
		// all records of the newest file would go: a later clean restart then falls back to the file before
		// it, which must still be in the main directory (same restriction as for the cut fault: with tiny
		// data files repeated faults would otherwise walk back into data files retired long ago)
		var f uint32
		if n-cnt > 0 {
			f = r.records[n-cnt-1].file
		}
		if f+1 < lastFile || r.archived[f] {
			nblocks--
		}
	}
	if nblocks == 0 {
		return nil
	}
	t := n - nblocks
	rec := r.records[t]
	newSize := rec.fpos + int64(keep)%rec.stored
	fn := r.datName(lastFile)
	fi, err := os.Stat(fn)
	if err != nil || fi.Size() < r.records[n-1].fpos+r.records[n-1].stored {
		return fmt.Errorf("data file %d is shorter than the records written to it", lastFile)
	}
	if err := os.Truncate(fn, newSize); err != nil {
		return fmt.Errorf("harness: %v", err)
	}
	for _, b := range r.records[t:] {
		b.lost = true
	}
	r.records = r.records[:t]
	r.minIdx = lastFile
	r.sum.dataCuts++
	r.cutHappened = true
	if newSize > rec.fpos {
		r.tailPending = true
		r.sum.unindexedTail = true
	}
	return nil
}

// reopenFault: Close, then (optionally) leave the files the way a process death inside writeOne leaves them -
// the index file loses its last records (cut = k*136+j bytes: k whole records and a torn one, their data stays
// in the data file) and/or the current data file gets tail bytes that no index record speaks about (data written,
// index record not) - then restart.  Blocks whose index record is cut away are not stored any more; everything
// else must read back as before and appending must go on at the indexed extent, over the unindexed bytes.
func (r *runner) reopenFault(compress bool, cache, tail, cut int, salt uint64) error {
	if r.db != nil { // nil: already closed by abortedReopen
		r.db.Close()
		r.mFlush()
		r.db = nil
	}
	if cache < 1 {
		cache = 1
	}
	r.cfg.Compress, r.cfg.Cache = compress, cache
	unindexed := false
	if n := len(r.records); cut > 0 && n > 0 {
		full, j := cut/136, cut%136
		m := full
		if j > 0 {
			m++
		}
		want := m
		if m > n {
			m = n
		}
		// never go back by more than one data file, and never into a data file that has already left the main
		// directory (DataFilesKeep): a crash does not lose the index records of whole retired data files
		lastFile := r.records[n-1].file
		for m > 0 {
			var f uint32
			if n-m > 0 {
				f = r.records[n-m-1].file
			}
			if f+1 >= lastFile && !r.archived[f] {
				break
			}
			m--
		}
		if m > 0 {
			bytes := int64(m) * 136
			if j > 0 && m == want {
				bytes = int64(full)*136 + int64(j)
			}
			// (the file may be longer than n records: the rest of a record torn by an earlier cut)
			fi, err := os.Stat(r.dir + "blockchain.new")
			if err != nil || fi.Size() < int64(n)*136 {
				return fmt.Errorf("blockchain.new is shorter than the %d records written so far", n)
			}
			if err := os.Truncate(r.dir+"blockchain.new", int64(n)*136-bytes); err != nil {
				return fmt.Errorf("harness: %v", err)
			}
			for _, b := range r.records[n-m:] {
				b.lost = true
			}
			r.records = r.records[:n-m]
			r.sum.cutRecords += m
			unindexed = true
		}
	}
	r.mReopen()
	if tail > 0 {
		f, err := os.OpenFile(r.datName(r.curIdx), os.O_WRONLY|os.O_CREATE|os.O_APPEND, 0o660)
		if err != nil {
			return fmt.Errorf("harness: %v", err)
		}
		junk := make([]byte, tail)
		(&prng{s: salt*0x9e3779b97f4a7c15 + uint64(tail)}).fill(junk)
		f.Write(junk)
		f.Close()
		unindexed = true
	}
	if unindexed {
		// is the current data file really longer than the indexed extent?
		if fi, err := os.Stat(r.datName(r.curIdx)); err == nil && fi.Size() > r.curPos {
			r.sum.unindexedTail = true
			r.tailPending = true
		}
	}
	r.sum.reopens++
	if r.addAfterCut {
		r.sum.addsAfterCutThenReopen = true
	}
	if r.sum.invalidOnDisk {
		r.sum.invalidReopened = true
	}
	if r.dirtySeq {
		r.sum.reopenAfterFlagOrRoll = true
	}
	if err := r.open(); err != nil {
		return err
	}
	return r.sweep()
}

// checkBlockDB executes the case against a fresh directory and the model.
func checkBlockDB(c caseC16) (sum summary, err error) {
	dir, e := os.MkdirTemp("", "c16-")
	if e != nil {
		return sum, nil
	}
	r := &runner{cfg: c.Cfg, dir: dir + "/", byHash: map[[32]byte]*mblk{}}
	if r.cfg.Cache < 1 {
		r.cfg.Cache = 1
	}
	returned := false
	defer func() {
		// after a panic inside BlockDB its mutex may be left locked: do not touch the store again
		if r.db != nil && returned {
			func() {
				defer func() { recover() }()
				r.db.Close()
			}()
		}
		os.RemoveAll(dir)
		sum = r.sum
	}()
	err = r.run(c)
	returned = true
	if err != nil && os.Getenv("VERIF_C16_DEBUG") != "" {
		for i, b := range r.records {
			fmt.Printf("record %d: block #%d file %d fpos %d stored %d invalid=%v gone=%v\n", i, r.serial(b), b.file, b.fpos, b.stored, b.invalid, b.gone)
		}
		fmt.Printf("model curIdx=%d curPos=%d archived=%v\n", r.curIdx, r.curPos, r.archived)
		if idx, e := os.ReadFile(dir + "/blockchain.new"); e == nil {
			for i := 0; i+136 <= len(idx); i += 136 {
				rec := idx[i : i+136]
				var h [32]byte
				copy(h[:], btc.NewSha2Hash(rec[56:136]).Hash[:])
				ser := -1
				if b := r.byHash[h]; b != nil {
					ser = r.serial(b)
				}
				fmt.Printf("disk record %d: block #%d flags %02x file %d fpos %d blen %d\n", i/136, ser, rec[0], binary.LittleEndian.Uint32(rec[28:32]), binary.LittleEndian.Uint64(rec[40:48]), binary.LittleEndian.Uint32(rec[48:52]))
			}
		}
		for _, d := range []string{dir, dir + "/oldat"} {
			ents, _ := os.ReadDir(d)
			for _, e := range ents {
				fi, _ := e.Info()
				fmt.Printf("  %s/%s %d\n", d, e.Name(), fi.Size())
			}
		}
	}
	return
}

// preSeed emulates a long history cheaply: one block is stored the regular way, then its data is moved to
// position base of the (now sparse) data file and the 64-bit position in its index record is set accordingly -
// exactly what the files look like after gigabytes of blocks, without writing them.
func (r *runner) preSeed(base int64) error {
	if err := r.open(); err != nil {
		return err
	}
	r.add(&blkSpec{Kind: "text", Size: 500, Seed: uint64(base), Height: 1, Txs: 2}, false)
	b := r.blocks[0]
	r.db.Close()
	r.mFlush()
	r.db = nil
	if !b.written || b.file != 0 || b.fpos != 0 {
		return fmt.Errorf("harness: unexpected placement of the first block")
	}
	df, err := os.OpenFile(r.datName(0), os.O_RDWR, 0o660)
	if err != nil {
		return fmt.Errorf("harness: %v", err)
	}
	data := make([]byte, b.stored)
	_, e1 := df.ReadAt(data, 0)
	_, e2 := df.WriteAt(data, base)
	df.Close()
	idx, e3 := os.ReadFile(r.dir + "blockchain.new")
	if e1 != nil || e2 != nil || e3 != nil || len(idx) != 136 {
		return fmt.Errorf("harness: cannot build the sparse data file (%v %v %v)", e1, e2, e3)
	}
	binary.LittleEndian.PutUint64(idx[40:48], uint64(base))
	if err := os.WriteFile(r.dir+"blockchain.new", idx, 0o660); err != nil {
		return fmt.Errorf("harness: %v", err)
	}
	b.fpos = base
	r.mReopen()
	if err := r.open(); err != nil {
		return err
	}
	return r.sweep()
}

func (r *runner) run(c caseC16) (err error) {
	if c.Cfg.Base > 0 && c.Cfg.MaxFile == 0 {
		if err = r.preSeed(c.Cfg.Base); err != nil {
			err = fmt.Errorf("store with a history of %d bytes: %v", c.Cfg.Base, err)
			return
		}
	} else if err = r.open(); err != nil {
		return
	}
	for i, o := range c.Ops {
		r.step = i
		if err = r.do(o); err != nil {
			err = fmt.Errorf("step %d (%s): %v", i, o.Op, err)
			return
		}
	}
	// every history ends with: read everything, restart, read everything, append one more, restart
	r.step = len(c.Ops)
	if err = r.sweep(); err != nil {
		err = fmt.Errorf("final sweep: %v", err)
		return
	}
	if err = r.reopen(r.cfg.Compress, r.cfg.Cache); err != nil {
		err = fmt.Errorf("final reopen: %v", err)
		return
	}
	r.add(&blkSpec{Kind: "text", Size: 300, Seed: 424242, Height: 7, Txs: 1}, false)
	if err = r.reopen(r.cfg.Compress, r.cfg.Cache); err != nil {
		err = fmt.Errorf("reopen after the closing append: %v", err)
		return
	}
	return
}

// ---------------------------------------------------------------------------------------------
// generator

// uni draws an index in [0,n) that is (close to) uniform: rapid's own integer generators favour small
// values and range ends, which is right for sizes but starves the later entries of a weighted choice.
func uni(t *rapid.T, label string, n int) int {
	z := rapid.Uint64().Draw(t, label)
	z = (z ^ (z >> 30)) * 0xbf58476d1ce4e5b9
	z = (z ^ (z >> 27)) * 0x94d049bb133111eb
	z ^= z >> 31
	return int(z % uint64(n))
}

func genSpec(t *rapid.T, thorough bool) *blkSpec {
	kind := kinds[uni(t, "kind", len(kinds))]
	var size int
	cls := uni(t, "sizeclass", 100)
	switch {
	case cls < 25:
		size = rapid.IntRange(81, 200).Draw(t, "size")
	case cls < 60:
		size = rapid.IntRange(200, 4000).Draw(t, "size")
	case cls < 95:
		size = rapid.IntRange(4000, 65536).Draw(t, "size")
	default:
		size = rapid.IntRange(65537, 200000).Draw(t, "size")
	}
	if kind == "biglit" && size < 66000 {
		size = rapid.IntRange(66000, 140000).Draw(t, "bigsize")
	}
	if thorough && uni(t, "huge", 40) == 0 {
		size = rapid.IntRange(200000, 4000000).Draw(t, "hugesize")
	}
	return &blkSpec{Kind: kind, Size: size, Seed: rapid.Uint64().Draw(t, "seed"), Height: rapid.Uint32().Draw(t, "height"), Txs: rapid.Uint32().Draw(t, "txs")}
}

var opWeights = []struct {
	op string
	w  int
}{{"add", 300}, {"readd", 50}, {"getnc", 50}, {"getunknown", 15}, {"length", 60}, {"burst", 2}, {"bigburst", 2}, {"trust", 60}, {"trustinv", 25}, {"readdinv", 25}, {"invalid", 40}, {"invalidlast", 30}, {"invalidtail", 20}, {"twin", 15}, {"idle", 100}, {"concread", 40}, {"reopen", 80}, {"abortedreopen", 25}, {"get", 150}}

func genOp(t *rapid.T, thorough bool) op {
	tot := 0
	for _, w := range opWeights {
		tot += w.w
	}
	x := uni(t, "op", tot)
	name := ""
	for _, w := range opWeights {
		if w.op == "bigburst" && !thorough {
			w.op = "idle"
		}
		if x < w.w {
			name = w.op
			break
		}
		x -= w.w
	}
	o := op{Op: name}
	switch name {
	case "add":
		o.B = genSpec(t, thorough)
		o.Trusted = uni(t, "trusted", 4) == 0
	case "invalidtail":
		o.N = rapid.IntRange(2, 6).Draw(t, "n")
	case "twin":
		o.B = genSpec(t, false)
		o.I = rapid.IntRange(0, 1<<20).Draw(t, "i")
	case "abortedreopen":
		// abort after 0, 1, some, all-1 records
		switch uni(t, "abortat", 4) {
		case 0:
			o.N = 0
		case 1:
			o.N = 1
		case 2:
			o.N = rapid.IntRange(2, 2000).Draw(t, "n")
		default:
			o.N = -1
		}
		o.Trusted = uni(t, "noclose", 3) == 0 // here: no Close() after the aborted load (process killed)
		o.Compress = rapid.Bool().Draw(t, "compress")
		o.Cache = rapid.IntRange(1, 8).Draw(t, "cache")
	case "bigburst":
		o.N = rapid.IntRange(4, 6).Draw(t, "n")
		o.I = rapid.IntRange(0, 1<<20).Draw(t, "i")
	case "burst":
		o.N = rapid.IntRange(1000, 1100).Draw(t, "n")
		o.I = rapid.IntRange(0, 1<<20).Draw(t, "i")
	case "readd", "readdinv":
		o.I = rapid.IntRange(0, 1<<20).Draw(t, "i")
		o.Trusted = rapid.Bool().Draw(t, "trusted")
	case "length":
		o.I = rapid.IntRange(0, 1<<20).Draw(t, "i")
		o.Decode = rapid.Bool().Draw(t, "decode")
	case "reopen":
		o.Compress = rapid.Bool().Draw(t, "compress")
		o.Cache = rapid.IntRange(1, 8).Draw(t, "cache")
		switch uni(t, "fault", 10) {
		case 0, 1, 2: // data written, index record not / garbage at the end of the data file
			o.Tail = rapid.IntRange(1, 5000).Draw(t, "tail")
			if uni(t, "bigtail", 8) == 0 {
				o.Tail = rapid.IntRange(5000, 200000).Draw(t, "tail")
			}
		case 3, 4: // the last index records are missing / torn, their data is still there
			o.Cut = uni(t, "cutrecs", 4)*136 + uni(t, "cutbytes", 136)
		case 5: // both
			o.Tail = rapid.IntRange(1, 5000).Draw(t, "tail")
			o.Cut = uni(t, "cutrecs", 3)*136 + uni(t, "cutbytes", 136)
		case 6, 7: // the tail of the newest data file is lost, the index records survived
			o.DBlocks = 1 + uni(t, "dblocks", 3)
			o.DKeep = rapid.IntRange(0, 70000).Draw(t, "dkeep")
		}
	case "idle":
	case "concread":
		o.I = rapid.IntRange(0, 1<<20).Draw(t, "i")
		o.N = 1 + uni(t, "n", 12)
	default:
		o.I = rapid.IntRange(0, 1<<20).Draw(t, "i")
	}
	return o
}

func genCase(t *rapid.T, thorough bool) caseC16 {
	var c caseC16
	c.Cfg.Compress = rapid.Bool().Draw(t, "compress")
	c.Cfg.Cache = rapid.IntRange(1, 8).Draw(t, "cache")
	files := []uint64{0, 0, 100, 100, 1000, 5000, 20000, 100000, 300000}
	if thorough {
		files = append(files, 2<<20, 8<<20)
	}
	c.Cfg.MaxFile = files[uni(t, "maxfile", len(files))]
	c.Cfg.Keep = []uint32{0, 0, 1, 2, 3}[uni(t, "keep", 5)]
	c.Cfg.Backup = rapid.Bool().Draw(t, "backup")
	if c.Cfg.MaxFile == 0 && uni(t, "history", 2) == 0 {
		// the next stores cross, or lie beyond, a 4 GiB boundary of the single data file
		c.Cfg.Base = int64(1+uni(t, "history_gib", 3))<<32 + int64(rapid.IntRange(-70000, 70000).Draw(t, "history_delta"))
	}
	maxSteps := 60
	if thorough {
		maxSteps = 100
	}
	n := rapid.IntRange(1, maxSteps).Draw(t, "steps")
	c.Ops = rapid.SliceOfN(rapid.Custom(func(t *rapid.T) op { return genOp(t, thorough) }), n, n).Draw(t, "ops")
	return c
}

func TestBlockDBModel(t *testing.T) {
	thorough := pbt.Tier() == "thorough"
	pbt.Check(t, pbt.Cfg{Name: "blockdb_model", Quick: 4000, Thorough: 40000}, func(r *pbt.Run) {
		c := genCase(r.T, thorough)
		r.Case(c)
		sum, err := checkBlockDB(c)
		for i := 0; i < sum.excludedReadd; i++ {
			r.Excluded(kfReaddInvalid)
		}
		if sum.trustAfterInvalid > 0 {
			r.Class("trusted_after_invalid")
		}
		if sum.readdAfterInvalid > 0 {
			r.Class("readd_after_invalid")
		}
		if c.Cfg.Compress {
			r.Class("compress_on")
		} else {
			r.Class("compress_off")
		}
		if sum.rolls > 0 {
			r.Class("rollover")
		}
		if sum.removed > 0 {
			if c.Cfg.Backup {
				r.Class("retention_backup")
			} else {
				r.Class("retention_removed")
			}
		}
		if sum.reopens > 2 {
			r.Class("reopen_in_history")
		}
		if sum.flagUpd > 0 {
			r.Class("flag_update")
		}
		if sum.readQueued > 0 {
			r.Class("read_while_queued")
		}
		if sum.readDisk > 0 {
			r.Class("read_from_disk")
		}
		if sum.appendAfterInvalidReopen && len(c.Ops) > 0 && sum.reopens > 2 {
			r.Class("append_after_reopen_with_invalid_record")
		}
		if sum.burst {
			r.Class("burst_1024")
		}
		if sum.idxRegress {
			r.Class("restart_with_only_invalid_records_in_newest_file")
		}
		if sum.idxRegressArchived {
			r.Class("restart_with_invalid_tail_over_retired_file")
		}
		if sum.unindexedTail {
			r.Class("reopen_with_unindexed_data_tail")
		}
		if sum.appendAfterTail {
			r.Class("append_after_unindexed_data_tail")
		}
		if sum.cutRecords > 0 {
			r.Class("index_records_cut")
		}
		if sum.abortedMidway {
			r.Class("aborted_index_load")
		}
		if sum.readBeyond4G > 0 {
			r.Class("data_file_beyond_4GiB")
		}
		if sum.dataCuts > 0 {
			r.Class("data_file_cut_below_index")
		}
		if sum.addsAfterCutThenReopen && len(c.Ops) > 0 {
			r.Class("adds_after_data_cut_then_reopen")
		}
		if sum.twins > 0 {
			r.Class("twin_after_queued_invalid")
		}
		if sum.concWindows > 0 {
			r.Class("concurrent_readers")
		}
		if sum.concReadsDisk > 0 {
			r.Class("concurrent_readers_of_written_blocks")
		}
		pbt.AddExtra("concurrent_reads_checked", int64(sum.concReads))
		if sum.byteFlush {
			r.Class("flush_by_16MiB")
		}
		if sum.maxBlock > 65536 {
			r.Class("block_over_64k")
		}
		if sum.maxBlock > 1000000 {
			r.Class("block_over_1M")
		}
		if sum.reopenAfterFlagOrRoll {
			r.Class("reopen_after_flag_or_roll")
			r.NonTrivial() // the property's rule: a reopen after >= 1 flag update or roll-over
		}
		for _, o := range c.Ops {
			pbt.AddExtra("op_"+o.Op, 1)
		}
		pbt.AddExtra("blocks_added", int64(sum.adds))
		pbt.AddExtra("block_reads_checked", int64(sum.readQueued+sum.readDisk))
		pbt.AddExtra("reopens", int64(sum.reopens))
		pbt.AddExtra("rollovers", int64(sum.rolls))
		if err != nil {
			r.Failf("%v", err)
		}
	})
}

// ---------------------------------------------------------------------------------------------
// snappy: Decode(Encode(x)) == x over the same content classes

type snapCase struct {
	Kind string `json:"kind"`
	Size int    `json:"size"`
	Seed uint64 `json:"seed"`
	Dst  int    `json:"dst"` // capacity of the destination buffers handed in (0 = nil)
}

func checkSnappy(c snapCase) error {
	x := makeBytes(c.Kind, c.Size, c.Seed)
	var dst []byte
	if c.Dst > 0 {
		dst = make([]byte, c.Dst)
	}
	enc := snappy.Encode(dst, x)
	if len(enc) > snappy.MaxEncodedLen(len(x)) {
		return fmt.Errorf("Encode of %d bytes gives %d bytes > MaxEncodedLen %d", len(x), len(enc), snappy.MaxEncodedLen(len(x)))
	}
	if n, e := snappy.DecodedLen(enc); e != nil || n != len(x) {
		return fmt.Errorf("DecodedLen = %d, %v; input had %d bytes", n, e, len(x))
	}
	var ddst []byte
	if c.Dst > 0 {
		ddst = make([]byte, c.Dst)
	}
	keep := append([]byte(nil), enc...)
	dec, e := snappy.Decode(ddst, enc)
	if e != nil {
		return fmt.Errorf("Decode(Encode(x)) fails: %v (x: %s, %d bytes)", e, c.Kind, len(x))
	}
	if !bytes.Equal(dec, x) {
		return fmt.Errorf("Decode(Encode(x)) != x: %d bytes in, %d bytes out, first difference at %d", len(x), len(dec), firstDiff(dec, x))
	}
	if !bytes.Equal(keep, enc) {
		return fmt.Errorf("Decode modified its input")
	}
	return nil
}

func genSnap(t *rapid.T, thorough bool) snapCase {
	kind := kinds[uni(t, "kind", len(kinds))]
	var size int
	cls := uni(t, "sizeclass", 100)
	switch {
	case cls < 15:
		size = rapid.IntRange(0, 20).Draw(t, "size")
	case cls < 45:
		size = rapid.IntRange(0, 4000).Draw(t, "size")
	case cls < 75:
		size = rapid.IntRange(4000, 66000).Draw(t, "size")
	case cls < 85:
		size = rapid.SampledFrom([]int{65535, 65536, 65537, 131071, 131072, 131073}).Draw(t, "edge") + rapid.IntRange(-2, 2).Draw(t, "d")
	default:
		size = rapid.IntRange(66000, 300000).Draw(t, "size")
	}
	if thorough && uni(t, "huge", 30) == 0 {
		size = rapid.IntRange(300000, 4000000).Draw(t, "hugesize")
	}
	dst := 0
	switch uni(t, "dstmode", 4) {
	case 1:
		dst = rapid.IntRange(1, 100).Draw(t, "dst")
	case 2:
		dst = size + rapid.IntRange(0, 1000).Draw(t, "dst")
	case 3:
		dst = snappy.MaxEncodedLen(size) + rapid.IntRange(0, 10).Draw(t, "dst")
	}
	return snapCase{Kind: kind, Size: size, Seed: rapid.Uint64().Draw(t, "seed"), Dst: dst}
}

func snapClasses(r *pbt.Run, c snapCase) {
	r.Class(c.Kind)
	switch {
	case c.Size == 0:
		r.Class("empty")
	case c.Size <= 65536:
		r.Class("upto_64k")
	default:
		r.Class("over_64k")
	}
}

func TestSnappyRoundTrip(t *testing.T) {
	thorough := pbt.Tier() == "thorough"
	pbt.Check(t, pbt.Cfg{Name: "snappy_roundtrip", Quick: 160000, Thorough: 3000000}, func(r *pbt.Run) {
		c := genSnap(r.T, thorough)
		r.Case(c)
		snapClasses(r, c)
		if c.Size > 0 {
			r.NonTrivial()
		}
		if err := checkSnappy(c); err != nil {
			r.Failf("%v", err)
		}
	})
}
