package c16

import (
	"bufio"
	"bytes"
	"encoding/binary"
	"errors"
	"fmt"
	"io"
	"os"
	"os/exec"
	"path/filepath"
	"testing"

	"github.com/piotrnar/gocoin/lib/others/snappy"
	"verif/pbt"
)

// The pure-Go snappy (encode_other.go / decode_other.go) is only compiled with the build tag
// "noasm" on amd64; the driver builds props/c16/noasm with it ($VERIF_BUILD/c16-snappy-noasm) and this
// test talks to that process: both implementations must decode each other's output to the input.

type noasmHelper struct {
	cmd *exec.Cmd
	in  io.WriteCloser
	out *bufio.Reader
}

func startNoasm() (*noasmHelper, error) {
	dir := os.Getenv("VERIF_BUILD")
	if dir == "" {
		return nil, errors.New("VERIF_BUILD not set")
	}
	bin := filepath.Join(dir, "c16-snappy-noasm")
	if _, err := os.Stat(bin); err != nil {
		return nil, err
	}
	cmd := exec.Command(bin)
	in, _ := cmd.StdinPipe()
	out, _ := cmd.StdoutPipe()
	if err := cmd.Start(); err != nil {
		return nil, err
	}
	return &noasmHelper{cmd: cmd, in: in, out: bufio.NewReaderSize(out, 1<<20)}, nil
}

func (h *noasmHelper) stop() {
	h.in.Close()
	h.cmd.Wait()
}

func (h *noasmHelper) call(op byte, payload []byte) ([]byte, error) {
	var hdr [5]byte
	hdr[0] = op
	binary.LittleEndian.PutUint32(hdr[1:], uint32(len(payload)))
	if _, err := h.in.Write(append(hdr[:], payload...)); err != nil {
		return nil, fmt.Errorf("helper died: %v", err)
	}
	if _, err := io.ReadFull(h.out, hdr[:]); err != nil {
		return nil, fmt.Errorf("helper died: %v", err)
	}
	res := make([]byte, binary.LittleEndian.Uint32(hdr[1:]))
	if _, err := io.ReadFull(h.out, res); err != nil {
		return nil, fmt.Errorf("helper died: %v", err)
	}
	if hdr[0] != 0 {
		return nil, errors.New(string(res))
	}
	return res, nil
}

func checkNoasm(h *noasmHelper, c snapCase) error {
	x := makeBytes(c.Kind, c.Size, c.Seed)
	encGo, err := h.call('E', x)
	if err != nil {
		return fmt.Errorf("pure-Go Encode: %v", err)
	}
	if len(encGo) > snappy.MaxEncodedLen(len(x)) {
		return fmt.Errorf("pure-Go Encode of %d bytes gives %d > MaxEncodedLen", len(x), len(encGo))
	}
	d1, err := snappy.Decode(nil, encGo)
	if err != nil || !bytes.Equal(d1, x) {
		return fmt.Errorf("Decode(asm) of Encode(pure Go) != x (%d bytes in, %d out, err=%v)", len(x), len(d1), err)
	}
	d2, err := h.call('D', encGo)
	if err != nil || !bytes.Equal(d2, x) {
		return fmt.Errorf("Decode(pure Go) of Encode(pure Go) != x (%d bytes in, %d out, err=%v)", len(x), len(d2), err)
	}
	d3, err := h.call('D', snappy.Encode(nil, x))
	if err != nil || !bytes.Equal(d3, x) {
		return fmt.Errorf("Decode(pure Go) of Encode(asm) != x (%d bytes in, %d out, err=%v)", len(x), len(d3), err)
	}
	return nil
}

func TestSnappyNoasm(t *testing.T) {
	h, err := startNoasm()
	if err != nil {
		if os.Getenv("VERIF_BUILD") != "" && os.Getenv("VERIF_REPLAY") == "" {
			t.Errorf("pure-Go snappy helper not available: %v", err) // infrastructure: inconclusive, not a violation
		} else {
			t.Skip("helper binary not built")
		}
		return
	}
	defer h.stop()
	thorough := pbt.Tier() == "thorough"
	pbt.Check(t, pbt.Cfg{Name: "snappy_noasm", Quick: 48000, Thorough: 1000000}, func(r *pbt.Run) {
		c := genSnap(r.T, thorough)
		c.Dst = 0
		r.Case(c)
		snapClasses(r, c)
		if c.Size > 0 {
			r.NonTrivial()
		}
		if err := checkNoasm(h, c); err != nil {
			r.Failf("%v", err)
		}
	})
}
