#!/usr/bin/env python3
"""Dev tool (sensitivity, DESIGN §2.7): run the quick campaign of C13/C14 against a mutant of gocoin without
touching /repo.  The mutated file lives in a temp dir and is put in place with `go build -overlay`; both the
wallet binary and the property's test binary are built with the overlay, the repository's own tests of the
touched packages are run with it too (a mutant must keep them green), then all 16 shards of the quick tier
run with VERIF_BUILD pointing at the mutated wallet.

  mutant.py <C13|C14> <name> <file> <old> <new> [<file> <old> <new> ...]

Prints CAUGHT (with the first failure message) or MISSED, and whether the repository tests stayed green.
"""
import json, os, shutil, subprocess, sys, tempfile

GOENV = dict(GOFLAGS="-mod=mod", GOPROXY="off", GOSUMDB="off", GOTOOLCHAIN="local")


def main():
    pid, name = sys.argv[1].upper(), sys.argv[2]
    edits = sys.argv[3:]
    tmp = tempfile.mkdtemp(prefix="mut-%s-" % pid.lower())
    env = dict(os.environ)
    env.update(GOENV)
    try:
        repl, pkgs = {}, set()
        for i in range(0, len(edits), 3):
            fn, old, new = edits[i], edits[i + 1], edits[i + 2]
            src = open(repl.get(fn, fn)).read()
            if src.count(old) != 1:
                print("mutant %s: pattern occurs %d times in %s" % (name, src.count(old), fn))
                return 2
            dst = os.path.join(tmp, "%d_%s" % (i, os.path.basename(fn)))
            open(dst, "w").write(src.replace(old, new))
            repl[fn] = dst
            pkgs.add("./" + os.path.relpath(os.path.dirname(fn), "/repo"))
        ov = os.path.join(tmp, "overlay.json")
        json.dump({"Replace": repl}, open(ov, "w"))
        low = pid.lower()
        p = subprocess.run(["go", "build", "-overlay", ov, "-o", os.path.join(tmp, "wallet-" + low), "."], cwd="/repo/wallet", env=env,
                           stdout=subprocess.PIPE, stderr=subprocess.STDOUT, text=True)
        if p.returncode != 0:
            print("mutant %s does not compile:\n%s" % (name, p.stdout[-2000:]))
            return 2
        p = subprocess.run(["go", "test", "-c", "-vet=off", "-tags", "verif", "-overlay", ov, "-o", os.path.join(tmp, low + ".test"), "./props/" + low],
                           cwd="/verif", env=env, stdout=subprocess.PIPE, stderr=subprocess.STDOUT, text=True)
        if p.returncode != 0:
            print("mutant %s: test binary does not compile:\n%s" % (name, p.stdout[-2000:]))
            return 2
        p = subprocess.run(["go", "test", "-overlay", ov, "-vet=off", "-count=1"] + sorted(pkgs | {"./wallet"}), cwd="/repo", env=env,
                           stdout=subprocess.PIPE, stderr=subprocess.STDOUT, text=True)
        green = p.returncode == 0
        procs = []
        nsh = 16
        for i in range(nsh):
            sd = os.path.join(tmp, "s%d" % i)
            os.makedirs(os.path.join(sd, "fail"))
            os.makedirs(os.path.join(sd, "tmp"))
            e = dict(env)
            e.update(VERIF_SEED=os.environ.get("VERIF_SEED", "1"), VERIF_TIER="quick", VERIF_SHARD=str(i), VERIF_SHARDS=str(nsh),
                     VERIF_STATS=os.path.join(sd, "stats.json"), VERIF_FAILDIR=os.path.join(sd, "fail"), TMPDIR=os.path.join(sd, "tmp"),
                     VERIF_BUILD=tmp, VERIF_KF="/verif/KNOWN_FINDINGS.json", VERIF_ROOT="/verif")
            lf = open(os.path.join(sd, "log"), "wb")
            procs.append((sd, subprocess.Popen([os.path.join(tmp, low + ".test"), "-test.timeout", "900s", "-rapid.shrinktime", "5s"],
                                               cwd="/verif/props/" + low, env=e, stdout=lf, stderr=subprocess.STDOUT)))
        caught, msg = 0, ""
        for sd, pr in procs:
            pr.wait()
            if pr.returncode != 0:
                caught += 1
                for fn in sorted(os.listdir(os.path.join(sd, "fail"))):
                    if not msg:
                        d = json.load(open(os.path.join(sd, "fail", fn)))
                        msg = "[%s] %s" % (d.get("test"), d.get("msg", "")[:300].replace("\n", " | "))
        print("%s mutant %-28s %s  (failing shards %d/%d; repository tests %s)" % (pid, name, "CAUGHT" if caught else "MISSED", caught, nsh,
                                                                                 "green" if green else "NOT green"))
        if msg:
            print("     " + msg)
        if not green:
            print("     repo tests: " + p.stdout[-400:].replace("\n", " | "))
        return 0
    finally:
        shutil.rmtree(tmp, ignore_errors=True)


if __name__ == "__main__":
    sys.exit(main())
