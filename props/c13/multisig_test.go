package c13

import (
	"bytes"
	"encoding/hex"
	"encoding/json"
	"fmt"
	"math/big"
	"os"
	"path/filepath"
	"strings"
	"testing"

	"pgregory.net/rapid"
	"verif/pbt"
	"verif/ref/addr"
	"verif/ref/ec"
	"verif/ref/hd"
	"verif/ref/interp"
	"verif/ref/sighash"
	"verif/ref/wire"
)

// ---------------------------------------------------------------------------------------------
// P2SH multisig inputs in raw transactions: `wallet -raw f` (sign with every key the wallet has) and
// `wallet -raw f -msign <address>` (sign with one key).  The raw transaction carries, per multisig input, the
// template OP_0 [signatures of co-signers] <redeem script>; redeem scripts are m-of-n over wallet keys and foreign
// keys.  Oracle: version, lock time, outpoints, sequences and outputs unchanged; a multisig input for which enough
// signers are available (co-signers that signed + the wallet's keys) verifies under ref/interp with the standard
// flags (exactly M signatures in key order, OP_0 dummy, clean stack); one that cannot be completed holds exactly the
// valid signatures that are available, each once, in key order; when the wallet does not warn that inputs are
// unsigned, every input it touched is complete.

func init() {
	pbt.RegisterReplay("wallet_multisig", func(raw json.RawMessage) error {
		var c msCase
		if err := json.Unmarshal(raw, &c); err != nil {
			return err
		}
		_, err := checkMultisig(c)
		return err
	})
}

type msKey struct {
	Own bool `json:"own"` // a wallet key (number Key) or somebody else's (Key seeds it)
	Key int  `json:"key"`
}

type msIn struct {
	M     int     `json:"m"`
	Keys  []msKey `json:"keys"`
	Value uint64  `json:"value"`
	Pre   []int   `json:"pre,omitempty"`   // positions in Keys whose holders have signed already, in the order their signatures stand
	Stale bool    `json:"stale,omitempty"` // a well-formed signature over some other transaction stands in front
	Seq   uint32  `json:"seq"`
}

type msCase struct {
	W        wcfg   `json:"w"`
	Ins      []msIn `json:"ins"`
	Plain    *fout  `json:"plain,omitempty"` // an ordinary output of the wallet spent by one more input
	Outs     []fout `json:"outs"`
	Ver      uint32 `json:"ver"`
	Lock     uint32 `json:"lock"`
	Flow     string `json:"flow"`               // raw | msign
	MsignKey msKey  `json:"msignkey,omitempty"` // -msign <P2PKH address of this key>
	MinSig   bool   `json:"minsig,omitempty"`
	RFC6979  bool   `json:"rfc6979,omitempty"`
}

type msInfo struct {
	outcome          string
	complete, partly int
	trimmed          bool // more signers were available than needed
}

func foreignKey(seed int) keyInfo {
	k := h256("multisig co-signer", fmt.Sprint(seed))
	k[0] &= 0x7f
	k[31] |= 1
	return keyInfo{priv: k, pub: ec.SerializeCompressed(ec.BaseMul(new(big.Int).SetBytes(k)))}
}

func redeemScript(m int, pubs [][]byte) []byte {
	s := []byte{byte(0x50 + m)}
	for _, p := range pubs {
		s = append(append(s, byte(len(p))), p...)
	}
	return append(s, byte(0x50+len(pubs)), 0xae)
}

func refSign(priv []byte, digest [32]byte) []byte {
	r, s, _ := ec.SignRFC6979(priv, digest[:])
	if s.Cmp(ec.HalfN) > 0 {
		s = new(big.Int).Sub(ec.N, s)
	}
	return append(ec.EncodeDER(r, s), 0x01)
}

// dumpWalletKeys sets the wallet up in dir and reads its keys with -dump *.
func dumpWalletKeys(bin, dir string, w wcfg) ([]keyInfo, error) {
	cfg := []string{fmt.Sprintf("type=%d", w.Type), "atype=" + w.AType, fmt.Sprintf("keycnt=%d", w.KeyCnt)}
	if w.Testnet {
		cfg = append(cfg, "testnet=true")
	}
	if w.Type == 4 {
		cfg = append(cfg, "hdpath="+pathString(w.Path))
	}
	if err := os.WriteFile(filepath.Join(dir, "wallet.cfg"), []byte(strings.Join(cfg, "\n")+"\n"), 0o600); err != nil {
		return nil, err
	}
	if err := os.WriteFile(filepath.Join(dir, ".secret"), []byte(w.Pass), 0o600); err != nil {
		return nil, err
	}
	res, err := runWallet(bin, dir, "-dump", "*")
	if err != nil {
		return nil, err
	}
	ver := byte(0x80)
	if w.Testnet {
		ver = 0xef
	}
	var keys []keyInfo
	for _, l := range strings.Split(res.stdout, "\n") {
		f := strings.Fields(l)
		if len(f) < 2 {
			continue
		}
		if v, key, compr, ok := addr.WIFDecode(f[0]); ok && v == ver && compr {
			keys = append(keys, keyInfo{priv: key, pub: ec.SerializeCompressed(ec.BaseMul(new(big.Int).SetBytes(key)))})
		}
	}
	if res.code != 0 || len(keys) != w.KeyCnt {
		return nil, fmt.Errorf("wallet -dump * shows %d keys, expected %d: %s", len(keys), w.KeyCnt, res)
	}
	return keys, nil
}

// scriptPushes splits a push-only script into its pushed items (nil when something else is in it).
func scriptPushes(s []byte) [][]byte {
	var items [][]byte
	for pc := 0; pc < len(s); {
		op, data, next, ok := sighash.GetOp(s, pc)
		if !ok || op > 0x4e {
			return nil
		}
		if data == nil {
			data = []byte{}
		}
		items = append(items, data)
		pc = next
	}
	return items
}

func checkMultisig(c msCase) (info msInfo, err error) {
	bin, err := walletBinary("wallet-c13")
	if err != nil {
		return info, err
	}
	dir, err := os.MkdirTemp("", "c13m")
	if err != nil {
		return info, err
	}
	defer os.RemoveAll(dir)
	keys, err := dumpWalletKeys(bin, dir, c.W)
	if err != nil {
		return info, err
	}
	keyOf := func(k msKey) keyInfo {
		if k.Own {
			return keys[((k.Key%len(keys))+len(keys))%len(keys)]
		}
		return foreignKey(k.Key)
	}

	// --- funding transaction and balance folder ---------------------------------------------------------------
	fundTx := &wire.Tx{Version: 2}
	fin := wire.TxIn{Sequence: 0xffffffff, ScriptSig: []byte{1, 1}}
	copy(fin.PrevHash[:], h256("multisig funding"))
	fundTx.In = append(fundTx.In, fin)
	redeem := make([][]byte, len(c.Ins))
	holders := make([][]keyInfo, len(c.Ins))
	for i, in := range c.Ins {
		var pubs [][]byte
		for _, k := range in.Keys {
			ki := keyOf(k)
			holders[i] = append(holders[i], ki)
			pubs = append(pubs, ki.pub)
		}
		redeem[i] = redeemScript(in.M, pubs)
		fundTx.Out = append(fundTx.Out, wire.TxOut{Value: in.Value, PkScript: append(append([]byte{0xa9, 20}, hd.Hash160(redeem[i])...), 0x87)})
	}
	if c.Plain != nil {
		fundTx.Out = append(fundTx.Out, wire.TxOut{Value: c.Plain.Value, PkScript: scriptOf(c.Plain.spk, keys)})
	}
	if err = os.Mkdir(filepath.Join(dir, "balance"), 0o700); err != nil {
		return info, err
	}
	fid := txidString(fundTx)
	if err = os.WriteFile(filepath.Join(dir, "balance", fid+".tx"), fundTx.Serialize(false), 0o600); err != nil {
		return info, err
	}
	var ul strings.Builder
	for i := range fundTx.Out {
		fmt.Fprintf(&ul, "%s-%03d # %s BTC\n", fid, i, amountString(fundTx.Out[i].Value, 0))
	}
	if err = os.WriteFile(filepath.Join(dir, "balance", "unspent.txt"), []byte(ul.String()), 0o600); err != nil {
		return info, err
	}

	// --- the raw transaction with the multisig templates ---------------------------------------------------------
	raw := &wire.Tx{Version: c.Ver, LockTime: c.Lock}
	for i, in := range c.Ins {
		raw.In = append(raw.In, wire.TxIn{PrevHash: fundTx.TxID(), PrevIndex: uint32(i), Sequence: in.Seq})
	}
	if c.Plain != nil {
		raw.In = append(raw.In, wire.TxIn{PrevHash: fundTx.TxID(), PrevIndex: uint32(len(c.Ins)), Sequence: 0xfffffffd})
	}
	for _, o := range c.Outs {
		raw.Out = append(raw.Out, wire.TxOut{Value: o.Value, PkScript: scriptOf(o.spk, keys)})
	}
	spent := make([]wire.TxOut, len(raw.In))
	for i := range raw.In {
		spent[i] = fundTx.Out[raw.In[i].PrevIndex]
	}
	signed := make([]map[int]bool, len(c.Ins)) // key positions whose holders have signed before the wallet runs
	for i, in := range c.Ins {
		signed[i] = map[int]bool{}
		ss := []byte{0x00}
		if in.Stale {
			other := raw.Copy()
			other.LockTime ^= 1
			ss = append(ss, sighash.PushData(refSign(holders[i][0].priv, sighash.Legacy(other, i, redeem[i], 1)))...)
		}
		d := sighash.Legacy(raw, i, redeem[i], 1)
		for _, p := range in.Pre {
			p = ((p % len(in.Keys)) + len(in.Keys)) % len(in.Keys)
			ss = append(ss, sighash.PushData(refSign(holders[i][p].priv, d))...)
			signed[i][p] = true
		}
		raw.In[i].ScriptSig = append(ss, sighash.PushData(redeem[i])...)
	}
	if err = os.WriteFile(filepath.Join(dir, "raw.txt"), []byte(hex.EncodeToString(raw.Serialize(false))), 0o600); err != nil {
		return info, err
	}

	// --- the run ---------------------------------------------------------------------------------------------------
	args := []string{"-raw", "raw.txt", "-txfn", "out.txt"}
	if c.MinSig {
		args = append(args, "-minsig")
	}
	if c.RFC6979 {
		args = append(args, "-rfc6979")
	}
	msignPub := []byte(nil)
	if c.Flow == "msign" {
		k := keyOf(c.MsignKey)
		args = append(args, "-msign", addressOf(hd.P2PKHScript(k.pub), c.W.Testnet))
		if c.MsignKey.Own {
			msignPub = k.pub
		}
	}
	before := fileSet(dir)
	res, err := runWallet(bin, dir, args...)
	if err != nil {
		return info, err
	}
	if strings.Contains(res.stderr, "panic:") || strings.Contains(res.stderr, "goroutine 1 [") {
		return info, fmt.Errorf("the wallet crashed: %s", res)
	}
	got, _, err := readTxFile(dir, before, "out.txt")
	if err != nil {
		return info, fmt.Errorf("%v: %s", err, res)
	}
	if got == nil {
		switch {
		case c.MinSig && c.RFC6979 && res.code != 0:
			info.outcome = "refused_minsig_with_rfc6979"
		case c.Flow == "msign" && !c.MsignKey.Own:
			info.outcome = "msign_unknown_key_reported" // "You do not know a key for address ..."
		default:
			return info, fmt.Errorf("no transaction was written: %s", res)
		}
		return info, nil
	}
	info.outcome = "written"
	if got.Version != raw.Version || got.LockTime != raw.LockTime || len(got.In) != len(raw.In) || len(got.Out) != len(raw.Out) {
		return info, fmt.Errorf("the frame of the transaction changed: %s -> %s", describeTx(raw), describeTx(got))
	}
	for i := range raw.In {
		if got.In[i].PrevHash != raw.In[i].PrevHash || got.In[i].PrevIndex != raw.In[i].PrevIndex || got.In[i].Sequence != raw.In[i].Sequence {
			return info, fmt.Errorf("input %d changed its outpoint/sequence: %s -> %s", i, describeTx(raw), describeTx(got))
		}
	}
	for i := range raw.Out {
		if got.Out[i].Value != raw.Out[i].Value || !bytes.Equal(got.Out[i].PkScript, raw.Out[i].PkScript) {
			return info, fmt.Errorf("output %d changed: %s -> %s", i, describeTx(raw), describeTx(got))
		}
	}
	warned := strings.Contains(res.stdout, "Not all the inputs have been signed")
	for i, in := range c.Ins {
		// who can have signed by now
		avail := map[int]bool{}
		for p := range signed[i] {
			avail[p] = true
		}
		for p, k := range in.Keys {
			if c.Flow == "raw" && k.Own {
				avail[p] = true
			}
			if c.Flow == "msign" && msignPub != nil && bytes.Equal(holders[i][p].pub, msignPub) {
				avail[p] = true
			}
		}
		touched := !bytes.Equal(got.In[i].ScriptSig, raw.In[i].ScriptSig)
		items := scriptPushes(got.In[i].ScriptSig)
		if len(items) < 2 || len(items[0]) != 0 || !bytes.Equal(items[len(items)-1], redeem[i]) || len(got.In[i].Witness) != 0 {
			return info, fmt.Errorf("multisig input %d: scriptSig %x is not OP_0 <signatures> <redeem script %x>", i, got.In[i].ScriptSig, redeem[i])
		}
		sigs := items[1 : len(items)-1]
		d := sighash.Legacy(got, i, redeem[i], 1)
		if len(avail) >= in.M {
			if len(avail) > in.M {
				info.trimmed = true
			}
			if !touched && len(signed[i]) < in.M {
				return info, fmt.Errorf("multisig input %d (%d-of-%d): %d signers are available, but the input was left as it was: %s", i, in.M, len(in.Keys), len(avail), res)
			}
			if !touched {
				continue // the co-signers had completed it and nothing was changed
			}
			if len(sigs) != in.M {
				return info, fmt.Errorf("multisig input %d (%d-of-%d, %d signers available): the wallet wrote %d signatures, the script takes exactly %d: %x", i, in.M, len(in.Keys), len(avail), len(sigs), in.M, got.In[i].ScriptSig)
			}
			if ok, e := interp.Verify(got.In[i].ScriptSig, spent[i].PkScript, nil, got, i, spent[i].Value, spent, stdFlags); !ok {
				return info, fmt.Errorf("multisig input %d (%d-of-%d, %d signers available) does not verify under the standard flags: %s\nscriptSig %x", i, in.M, len(in.Keys), len(avail), e, got.In[i].ScriptSig)
			}
			info.complete++
			continue
		}
		// not enough signers: exactly the available valid signatures, each once, in key order
		info.partly++
		if !warned && touched && c.Flow == "raw" {
			return info, fmt.Errorf("multisig input %d (%d-of-%d) has only %d signers, the wallet changed it and does not warn that inputs are unsigned: %s", i, in.M, len(in.Keys), len(avail), res)
		}
		pos := -1
		for _, sg := range sigs {
			found := -1
			for p := pos + 1; p < len(in.Keys); p++ {
				if len(sg) > 1 && ec.VerifyConsensus(holders[i][p].pub, sg[:len(sg)-1], d[:]) {
					found = p
					break
				}
			}
			if found < 0 && touched {
				return info, fmt.Errorf("multisig input %d: signature %x is not a signature of a later key of the script (order / duplicates / validity): %x", i, sg, got.In[i].ScriptSig)
			}
			pos = found
		}
		if touched && len(sigs) != len(avail) {
			return info, fmt.Errorf("multisig input %d (%d-of-%d): %d signers are available, the wallet left %d signatures: %x", i, in.M, len(in.Keys), len(avail), len(sigs), got.In[i].ScriptSig)
		}
	}
	if c.Plain != nil {
		i := len(c.Ins)
		in := got.In[i]
		switch {
		case c.Flow == "raw":
			if e := verifyInput(got, i, spent); e != nil {
				return info, fmt.Errorf("the wallet's ordinary input %d next to the multisig inputs: %v", i, e)
			}
		case len(in.ScriptSig) != 0 || len(in.Witness) != 0:
			if e := verifyInput(got, i, spent); e != nil {
				return info, fmt.Errorf("-msign: the ordinary input %d was filled in, but: %v", i, e)
			}
		}
	}
	return info, nil
}

func genMsCase(t *rapid.T) msCase {
	var c msCase
	c.W = wcfg{Type: 3, AType: rapid.SampledFrom([]string{"p2kh", "segwit", "bech32", "tap"}).Draw(t, "atype"),
		Testnet: rapid.IntRange(0, 2).Draw(t, "testnet") == 0, KeyCnt: rapid.IntRange(3, 16).Draw(t, "keycnt"),
		Pass: rapid.StringMatching(`[a-zA-Z0-9]{4,12}`).Draw(t, "pass")}
	if rapid.Bool().Draw(t, "type4") {
		c.W.Type = 4
		c.W.Path = rapid.SampledFrom(hdPaths).Draw(t, "path")
	}
	c.Flow = rapid.SampledFrom([]string{"raw", "raw", "msign"}).Draw(t, "flow")
	nin := rapid.IntRange(1, 3).Draw(t, "nin")
	for i := 0; i < nin; i++ {
		n := rapid.IntRange(1, 3).Draw(t, "n")
		if rapid.IntRange(0, 11).Draw(t, "big") == 0 {
			n = 15
		}
		m := rapid.IntRange(1, n).Draw(t, "m")
		if n == 15 {
			m = rapid.SampledFrom([]int{1, 2, 3, 14, 15}).Draw(t, "m15")
		}
		in := msIn{M: m, Value: genValue(t, "msv"), Seq: rapid.SampledFrom([]uint32{0xffffffff, 0xfffffffd, 0, 1}).Draw(t, "seq")}
		pOwn := rapid.SampledFrom([]int{0, 30, 60, 100}).Draw(t, "pown")
		ownUsed := map[int]bool{}
		for k := 0; k < n; k++ {
			if rapid.IntRange(0, 99).Draw(t, "own") < pOwn {
				idx := rapid.IntRange(0, c.W.KeyCnt-1).Draw(t, "ownkey")
				for ownUsed[idx] && len(ownUsed) < c.W.KeyCnt {
					idx = (idx + 1) % c.W.KeyCnt
				}
				if !ownUsed[idx] {
					ownUsed[idx] = true
					in.Keys = append(in.Keys, msKey{Own: true, Key: idx})
					continue
				}
			}
			in.Keys = append(in.Keys, msKey{Key: 100*i + k})
		}
		// co-signers (and possibly the wallet itself, in an earlier session) that have signed already
		npre := rapid.SampledFrom([]int{0, 0, 1, m - 1, m, m}).Draw(t, "npre")
		if npre < 0 {
			npre = 0
		}
		if npre > n {
			npre = n
		}
		perm := rapid.Permutation(seqInts(n)).Draw(t, "preorder")
		in.Pre = append(in.Pre, perm[:npre]...)
		in.Stale = rapid.IntRange(0, 7).Draw(t, "stale") == 0
		c.Ins = append(c.Ins, in)
	}
	if rapid.IntRange(0, 3).Draw(t, "plain") == 0 {
		c.Plain = &fout{spk: spk{Kind: rapid.SampledFrom(ownKinds).Draw(t, "plainkind"), Key: rapid.IntRange(0, 15).Draw(t, "plainkey")}, Value: genValue(t, "plainv")}
		if c.Plain.Kind == "p2sh" && c.W.AType != "p2kh" && c.W.AType != "segwit" {
			c.Plain.Kind = "p2wpkh"
		}
	}
	for o, no := 0, rapid.IntRange(1, 3).Draw(t, "nout"); o < no; o++ {
		c.Outs = append(c.Outs, fout{spk: genSpk(t, "mo", 30), Value: genValue(t, "mo")})
	}
	c.Ver = rapid.SampledFrom([]uint32{1, 2, 3}).Draw(t, "ver")
	if rapid.IntRange(0, 3).Draw(t, "lock") == 0 {
		c.Lock = rapid.SampledFrom([]uint32{1, 500000000, 0xfffffffe}).Draw(t, "lockv")
	}
	if c.Flow == "msign" {
		// the key to sign with: one of the script's wallet keys, another wallet key, or somebody else's
		first := c.Ins[0]
		c.MsignKey = first.Keys[rapid.IntRange(0, len(first.Keys)-1).Draw(t, "msignpos")]
		switch rapid.IntRange(0, 9).Draw(t, "msignother") {
		case 0:
			c.MsignKey = msKey{Own: true, Key: rapid.IntRange(0, c.W.KeyCnt-1).Draw(t, "msignown")}
		case 1:
			c.MsignKey = msKey{Key: 999}
		}
		if !c.MsignKey.Own && rapid.IntRange(0, 2).Draw(t, "msignforce") != 0 {
			for _, k := range first.Keys {
				if k.Own {
					c.MsignKey = k
				}
			}
		}
	}
	c.RFC6979 = rapid.IntRange(0, 3).Draw(t, "rfc6979") == 0
	if !c.RFC6979 {
		c.MinSig = rapid.IntRange(0, 4).Draw(t, "minsig") == 0
	}
	return c
}

func seqInts(n int) []int {
	s := make([]int, n)
	for i := range s {
		s[i] = i
	}
	return s
}

func TestWalletMultisig(t *testing.T) {
	if _, err := walletBinary("wallet-c13"); err != nil {
		t.Fatal(err)
	}
	pbt.Check(t, pbt.Cfg{Name: "wallet_multisig", Quick: 800, Thorough: 30000}, func(r *pbt.Run) {
		c := genMsCase(r.T)
		r.Case(c)
		info, err := checkMultisig(c)
		r.Class("flow_" + c.Flow)
		if info.outcome != "" {
			r.Class(info.outcome)
		}
		if info.complete > 0 {
			r.Class("completed_inputs")
		}
		if info.partly > 0 {
			r.Class("partly_signed_inputs")
		}
		if info.trimmed {
			r.Class("more_signers_than_needed")
		}
		for _, in := range c.Ins {
			r.Class(fmt.Sprintf("%d_of_%d", in.M, len(in.Keys)))
			if len(in.Pre) >= in.M {
				r.Class("already_complete_by_cosigners")
			} else if len(in.Pre) > 0 {
				r.Class("partly_signed_by_cosigners")
			}
			if in.Stale {
				r.Class("stale_signature_present")
			}
		}
		if c.Plain != nil {
			r.Class("ordinary_input_too")
		}
		r.NonTrivial()
		if err != nil {
			r.Failf("%v", err)
		}
	})
}
