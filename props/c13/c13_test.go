package c13

import (
	"bytes"
	"context"
	"crypto/sha256"
	"encoding/base64"
	"encoding/hex"
	"encoding/json"
	"fmt"
	"math/big"
	"os"
	"os/exec"
	"path/filepath"
	"sort"
	"strconv"
	"strings"
	"sync"
	"testing"
	"time"

	"pgregory.net/rapid"
	"verif/pbt"
	"verif/ref/addr"
	"verif/ref/ec"
	"verif/ref/hd"
	"verif/ref/interp"
	"verif/ref/sighash"
	"verif/ref/wire"
)

func TestMain(m *testing.M) {
	pbt.RegisterReplay("wallet_tx", func(raw json.RawMessage) error {
		var c txCase
		if err := json.Unmarshal(raw, &c); err != nil {
			return err
		}
		_, err := checkCase(c)
		return err
	})
	pbt.Main(m, "C13")
}

// ---------------------------------------------------------------------------------------------
// the case: wallet configuration, balance folder, request — pure data

type wcfg struct {
	Type    int        `json:"type"`              // 3 | 4
	AType   string     `json:"atype"`             // p2kh segwit bech32 tap
	Testnet bool       `json:"testnet"`           //
	Path    []uint32   `json:"path"`              // type 4
	KeyCnt  int        `json:"keycnt"`            //
	Pass    string     `json:"pass"`              // seed password
	CfgFee  string     `json:"cfgfee"`            // wallet.cfg fee= ("" = the default 0.001)
	SeedPfx string     `json:"seedpfx,omitempty"` // wallet.cfg seed= (prefix of the password)
	Others  []otherKey `json:"others,omitempty"`  // keys imported through the .others file (WIF), compressed or not
}

type otherKey struct {
	Key   string `json:"key"` // hex, 32 bytes
	Compr bool   `json:"compr"`
}

// script kinds: p2pkh p2sh p2wpkh p2tr pay key number Key of the wallet (P2SH = P2SH-P2WPKH);
// f_p2pkh f_p2sh f_p2wpkh f_p2wsh f_p2tr pay somebody else (Key seeds the hash);
// o_p2pkh pays the key hash of imported key number Key (its public key in the form the WIF says).
type spk struct {
	Kind string `json:"kind"`
	Key  int    `json:"key"`
}

type fout struct {
	spk
	Value uint64 `json:"value"`
}

type ftx struct {
	Ver  uint32 `json:"ver"`
	Lock uint32 `json:"lock"`
	NIn  int    `json:"nin"`
	Wit  bool   `json:"wit"` // the file holds the witness serialisation
	Outs []fout `json:"outs"`
}

type dest struct {
	spk
	Amount uint64 `json:"amount"`
	Fmt    int    `json:"fmt"`             // how the amount is written
	Lead   int    `json:"lead,omitempty"`  // spaces in front of the pair / the batch line
	Trail  int    `json:"trail,omitempty"` // spaces behind it
}

type rawIn struct {
	F   int    `json:"f"` // funding transaction
	V   int    `json:"v"` // output number
	Seq uint32 `json:"seq"`
}

type txCase struct {
	W       wcfg     `json:"w"`
	Fund    []ftx    `json:"fund"`
	Unspent [][2]int `json:"unspent"` // (funding tx, vout) listed in unspent.txt, in this order
	Mode    string   `json:"mode"`    // send | batch | both | raw

	Send         []dest  `json:"send,omitempty"`
	Batch        []dest  `json:"batch,omitempty"`
	UnspentCRLF  bool    `json:"unspentcrlf,omitempty"`  // unspent.txt lines end with CR LF
	UnspentNoNL  bool    `json:"unspentnonl,omitempty"`  // the last line of unspent.txt has no line end
	BatchCRLF    bool    `json:"batchcrlf,omitempty"`    // batch file lines end with CR LF
	BatchNoNL    bool    `json:"batchnonl,omitempty"`    // the last line of the batch file has no line end
	BatchComment int     `json:"batchcomment,omitempty"` // bit i: a comment line "#...=..." stands before line i
	SubFee       bool    `json:"subfee,omitempty"`       // -f
	Change       *spk    `json:"change,omitempty"`       // -change
	Msg          string  `json:"msg,omitempty"`          // -msg
	Seq          *int64  `json:"seq,omitempty"`          // -seq
	Lock         *uint32 `json:"lock,omitempty"`         // -locktime
	TxVer        *uint32 `json:"txver,omitempty"`        // -txver
	UseAll       bool    `json:"useall,omitempty"`       // -useallinputs
	FeeFlag      string  `json:"feeflag,omitempty"`      // -fee
	RFC6979      bool    `json:"rfc6979,omitempty"`      //
	MinSig       bool    `json:"minsig,omitempty"`       //
	TxFn         bool    `json:"txfn,omitempty"`         // -txfn out.txt
	NoApply      bool    `json:"noapply,omitempty"`      // -a=false
	Second       bool    `json:"second,omitempty"`       // after a written transaction: a second payment (-useallinputs) from the balance folder the wallet updated
	SignKey      *int    `json:"signkey,omitempty"`      // -sign <P2PKH address of this key> (signs -msg; main() then builds the wallet a second time)

	RawVer  uint32  `json:"rawver,omitempty"`
	RawLock uint32  `json:"rawlock,omitempty"`
	RawIns  []rawIn `json:"rawins,omitempty"`
	RawOuts []fout  `json:"rawouts,omitempty"`
}

// ---------------------------------------------------------------------------------------------
// running the binary

var (
	walletOnce sync.Once
	walletPath string
	walletErr  error
)

func walletBinary(name string) (string, error) {
	walletOnce.Do(func() {
		if b := os.Getenv("VERIF_BUILD"); b != "" {
			p := filepath.Join(b, name)
			if _, err := os.Stat(p); err == nil {
				walletPath = p
				return
			}
		}
		dir, err := os.MkdirTemp("", "walletbin")
		if err != nil {
			walletErr = err
			return
		}
		p := filepath.Join(dir, name)
		cmd := exec.Command("go", "build", "-o", p, ".")
		cmd.Dir = "/repo/wallet"
		cmd.Env = append(os.Environ(), "GOFLAGS=-mod=mod", "GOPROXY=off", "GOSUMDB=off", "GOTOOLCHAIN=local")
		if out, err := cmd.CombinedOutput(); err != nil {
			walletErr = fmt.Errorf("building the wallet: %v\n%s", err, out)
			return
		}
		walletPath = p
	})
	return walletPath, walletErr
}

// walletTimeout bounds one run of the wallet binary; the child is killed when it expires (exec.CommandContext) and
// the case fails: a wallet that neither answers nor refuses is a violation, and no process may be left behind.
const walletTimeout = 30 * time.Second

type runResult struct {
	stdout, stderr string
	code           int
}

func runWallet(bin, dir string, args ...string) (runResult, error) {
	ctx, cancel := context.WithTimeout(context.Background(), walletTimeout)
	defer cancel()
	cmd := exec.CommandContext(ctx, bin, args...)
	cmd.Dir = dir
	cmd.Env = []string{"PATH=/usr/bin:/bin", "HOME=" + dir}
	cmd.Stdin = bytes.NewReader(nil)
	var so, se bytes.Buffer
	cmd.Stdout, cmd.Stderr = &so, &se
	err := cmd.Run()
	res := runResult{stdout: so.String(), stderr: se.String()}
	if err != nil {
		if ee, ok := err.(*exec.ExitError); ok && ctx.Err() == nil {
			res.code = ee.ExitCode()
			return res, nil
		}
		if ctx.Err() != nil {
			return res, fmt.Errorf("the wallet did not finish within %v (a normal run takes some 10 ms) and was killed: wallet %s\nstdout: %.600s\nstderr: %.600s", walletTimeout, strings.Join(args, " "), res.stdout, res.stderr)
		}
		return res, fmt.Errorf("running the wallet: %v", err)
	}
	return res, nil
}

func (r runResult) String() string {
	return fmt.Sprintf("exit %d\nstdout: %.1500s\nstderr: %.800s", r.code, r.stdout, r.stderr)
}

// ---------------------------------------------------------------------------------------------
// reference side: scripts, addresses, amounts

type keyInfo struct{ priv, pub []byte }

func h256(parts ...string) []byte {
	h := sha256.New()
	for _, p := range parts {
		h.Write([]byte(p))
		h.Write([]byte{0})
	}
	return h.Sum(nil)
}

// scriptOf builds the output script of a script kind for the wallet's keys.
func scriptOf(s spk, keys []keyInfo, others ...keyInfo) []byte {
	if s.Kind == "o_p2pkh" {
		if len(others) == 0 {
			panic("bad case: o_p2pkh without imported keys")
		}
		return hd.P2PKHScript(others[((s.Key%len(others))+len(others))%len(others)].pub)
	}
	if !strings.HasPrefix(s.Kind, "f_") {
		k := keys[((s.Key%len(keys))+len(keys))%len(keys)]
		switch s.Kind {
		case "p2pkh":
			return hd.P2PKHScript(k.pub)
		case "p2sh":
			return hd.P2SHP2WPKHScript(k.pub)
		case "p2wpkh":
			return hd.P2WPKHScript(k.pub)
		case "p2tr":
			return append([]byte{0x51, 32}, k.pub[1:]...)
		}
		panic("unknown script kind " + s.Kind)
	}
	h := h256("foreign", s.Kind, fmt.Sprint(s.Key))
	switch s.Kind {
	case "f_p2pkh":
		return append(append([]byte{0x76, 0xa9, 20}, h[:20]...), 0x88, 0xac)
	case "f_p2sh":
		return append(append([]byte{0xa9, 20}, h[:20]...), 0x87)
	case "f_p2wpkh":
		return append([]byte{0, 20}, h[:20]...)
	case "f_p2wsh":
		return append([]byte{0, 32}, h...)
	case "f_p2tr":
		return append([]byte{0x51, 32}, h...)
	}
	panic("unknown script kind " + s.Kind)
}

func owned(kind string) bool { return !strings.HasPrefix(kind, "f_") }

// addressOf encodes a standard output script as an address of the network.
func addressOf(s []byte, testnet bool) string {
	hrp, vk, vs := "bc", byte(0), byte(5)
	if testnet {
		hrp, vk, vs = "tb", 111, 196
	}
	switch {
	case len(s) == 25 && s[0] == 0x76:
		return addr.Base58CheckEncode(append([]byte{vk}, s[3:23]...))
	case len(s) == 23 && s[0] == 0xa9:
		return addr.Base58CheckEncode(append([]byte{vs}, s[2:22]...))
	case s[0] == 0:
		return addr.SegwitEncode(hrp, 0, s[2:])
	case s[0] == 0x51:
		return addr.SegwitEncode(hrp, 1, s[2:])
	}
	panic("no address for script")
}

func amountString(v uint64, f int) string {
	s := fmt.Sprintf("%d.%08d", v/100000000, v%100000000)
	// every form here is one btc.StringToSatoshis accepts: digits, optionally a point and up to 8 decimals
	// (a form without digits before the point, an exponent or a sign is refused by the wallet and not generated)
	switch f % 6 {
	case 1: // without trailing zeros
		s = strings.TrimRight(s, "0")
		s = strings.TrimSuffix(s, ".")
	case 2: // one trailing zero less, if any
		if strings.HasSuffix(s, "0") {
			s = s[:len(s)-1]
		}
	case 3: // without trailing zeros, the point kept ("5.")
		s = strings.TrimRight(s, "0")
	case 4: // zeros in front
		s = "00" + s
	case 5: // zeros in front, none behind
		s = "0" + strings.TrimSuffix(strings.TrimRight(s, "0"), ".")
	}
	return s
}

// floatFragile tells whether the amount, written with 8 decimals, is one of the values for which the tempting
// float64 conversion uint64(ParseFloat(s)*1e8) comes out one satoshi too low.  (Generation side only: it steers
// the generator towards such values; the oracle is integer arithmetic.)
func floatFragile(v uint64) bool {
	f, err := strconv.ParseFloat(fmt.Sprintf("%d.%08d", v/100000000, v%100000000), 64)
	return err == nil && uint64(f*1e8) != v
}

// nextFragile returns the first float-fragile amount in [v, v+400], or v when there is none (about 6% are).
func nextFragile(v uint64) uint64 {
	for k := v; k <= v+400; k++ {
		if floatFragile(k) {
			return k
		}
	}
	return v
}

// parseAmount reads the decimal BTC strings this file writes (reference side of -fee / fee=).
func parseAmount(s string) uint64 {
	ip, fp, _ := strings.Cut(s, ".")
	for len(fp) < 8 {
		fp += "0"
	}
	v, ok := new(big.Int).SetString(ip+fp, 10)
	if !ok || !v.IsUint64() {
		panic("bad amount " + s)
	}
	return v.Uint64()
}

func txidString(tx *wire.Tx) string {
	id := tx.TxID()
	for i, j := 0, 31; i < j; i, j = i+1, j-1 {
		id[i], id[j] = id[j], id[i]
	}
	return hex.EncodeToString(id[:])
}

func buildFunding(i int, f ftx, keys []keyInfo, others ...keyInfo) *wire.Tx {
	tx := &wire.Tx{Version: f.Ver, LockTime: f.Lock}
	for j := 0; j < f.NIn; j++ {
		in := wire.TxIn{PrevIndex: uint32(j), Sequence: 0xffffffff}
		copy(in.PrevHash[:], h256("prev", fmt.Sprint(i), fmt.Sprint(j)))
		if f.Wit {
			in.Witness = [][]byte{h256("wit", fmt.Sprint(i), fmt.Sprint(j)), {2, 3}}
		} else {
			in.ScriptSig = append([]byte{32}, h256("sig", fmt.Sprint(i), fmt.Sprint(j))...)
		}
		tx.In = append(tx.In, in)
	}
	for _, o := range f.Outs {
		tx.Out = append(tx.Out, wire.TxOut{Value: o.Value, PkScript: scriptOf(o.spk, keys, others...)})
	}
	return tx
}

// ---------------------------------------------------------------------------------------------
// independent verification of one input against the output it spends

const stdFlags = interp.AllFlags &^ interp.SIGPUSHONLY // Core's STANDARD_SCRIPT_VERIFY_FLAGS

func checkECDSA(sig, pub []byte, digest func(ht uint32) [32]byte, legacy ...bool) error {
	if len(sig) < 9 {
		return fmt.Errorf("signature of %d bytes", len(sig))
	}
	if !ec.IsStrictDER(sig) {
		return fmt.Errorf("signature %x is not strict DER", sig)
	}
	if !ec.IsLowDERSignature(sig) {
		return fmt.Errorf("signature %x has a high S", sig)
	}
	ht := sig[len(sig)-1]
	if b := ht &^ 0x80; b < 1 || b > 3 {
		return fmt.Errorf("undefined hash type %02x", ht)
	}
	if len(legacy) > 0 && legacy[0] && len(pub) == 65 && pub[0] == 4 {
		// an uncompressed key is standard in a P2PKH spend (not in witness programs)
	} else if len(pub) != 33 || (pub[0] != 2 && pub[0] != 3) {
		return fmt.Errorf("public key %x is not a compressed key", pub)
	}
	d := digest(uint32(ht))
	if !ec.VerifyConsensus(pub, sig[:len(sig)-1], d[:]) {
		return fmt.Errorf("ECDSA signature %x does not verify for key %x on digest %x", sig, pub, d)
	}
	return nil
}

// verifyInput checks input idx of tx against the output it spends: first with the plain template for
// the four single-key output types (ref/sighash + ref/ec), then with the full reference interpreter under
// the standard flag set (which includes every consensus flag).
func verifyInput(tx *wire.Tx, idx int, spent []wire.TxOut) error {
	in := tx.In[idx]
	s := spent[idx].PkScript
	amount := spent[idx].Value
	witnessV0 := func(prog []byte) error {
		if len(in.Witness) != 2 {
			return fmt.Errorf("witness has %d items, expected signature and key", len(in.Witness))
		}
		sig, pub := in.Witness[0], in.Witness[1]
		if !bytes.Equal(hd.Hash160(pub), prog) {
			return fmt.Errorf("witness key %x does not hash to the program %x", pub, prog)
		}
		code := append(append([]byte{0x76, 0xa9, 20}, prog...), 0x88, 0xac)
		return checkECDSA(sig, pub, func(ht uint32) [32]byte { return sighash.BIP143(tx, idx, code, amount, ht) })
	}
	var err error
	switch {
	case len(s) == 25 && s[0] == 0x76 && s[1] == 0xa9 && s[2] == 20 && s[23] == 0x88 && s[24] == 0xac: // P2PKH
		ss := in.ScriptSig
		if len(in.Witness) != 0 {
			return fmt.Errorf("P2PKH input carries a witness")
		}
		if len(ss) < 2 || int(ss[0]) > 75 || len(ss) < 1+int(ss[0])+1 {
			return fmt.Errorf("scriptSig %x is not <sig> <key>", ss)
		}
		sig := ss[1 : 1+int(ss[0])]
		rest := ss[1+int(ss[0]):]
		if int(rest[0]) > 75 || len(rest) != 1+int(rest[0]) {
			return fmt.Errorf("scriptSig %x is not <sig> <key>", ss)
		}
		pub := rest[1:]
		if !bytes.Equal(hd.Hash160(pub), s[3:23]) {
			return fmt.Errorf("key %x in scriptSig does not hash to %x", pub, s[3:23])
		}
		err = checkECDSA(sig, pub, func(ht uint32) [32]byte { return sighash.Legacy(tx, idx, s, ht) }, true)
	case len(s) == 23 && s[0] == 0xa9 && s[1] == 20 && s[22] == 0x87: // P2SH-P2WPKH
		ss := in.ScriptSig
		if len(ss) != 23 || ss[0] != 22 || ss[1] != 0 || ss[2] != 20 {
			return fmt.Errorf("scriptSig %x is not the push of a P2WPKH program", ss)
		}
		if !bytes.Equal(hd.Hash160(ss[1:]), s[2:22]) {
			return fmt.Errorf("redeem script %x does not hash to %x", ss[1:], s[2:22])
		}
		err = witnessV0(ss[3:])
	case len(s) == 22 && s[0] == 0 && s[1] == 20: // P2WPKH
		if len(in.ScriptSig) != 0 {
			return fmt.Errorf("P2WPKH input has scriptSig %x", in.ScriptSig)
		}
		err = witnessV0(s[2:])
	case len(s) == 34 && s[0] == 0x51 && s[1] == 32: // P2TR, key path
		if len(in.ScriptSig) != 0 {
			return fmt.Errorf("P2TR input has scriptSig %x", in.ScriptSig)
		}
		if len(in.Witness) != 1 {
			return fmt.Errorf("P2TR witness has %d items, expected one signature", len(in.Witness))
		}
		sig := in.Witness[0]
		ht := byte(0)
		switch len(sig) {
		case 64:
		case 65:
			ht = sig[64]
			if ht == 0 {
				return fmt.Errorf("65-byte taproot signature with hash type 0")
			}
		default:
			return fmt.Errorf("taproot signature of %d bytes", len(sig))
		}
		d, ok := sighash.BIP341(tx, idx, spent, ht, 0, nil, nil, 0)
		if !ok {
			return fmt.Errorf("taproot hash type %02x is undefined here", ht)
		}
		if !ec.SchnorrVerify(s[2:], d[:], sig[:64]) {
			return fmt.Errorf("Schnorr signature %x does not verify for key %x on digest %x", sig, s[2:], d)
		}
	default:
		return fmt.Errorf("spends an output of an unsupported type %x", s)
	}
	if err != nil {
		return err
	}
	if ok, e := interp.Verify(in.ScriptSig, s, in.Witness, tx, idx, amount, spent, stdFlags); !ok {
		return fmt.Errorf("reference interpreter (standard flags): %s", e)
	}
	return nil
}

// ---------------------------------------------------------------------------------------------
// the oracle

// checkMessageSignature looks for the base64 "Bitcoin Signed Message" signature in the wallet's output and
// recovers the public key from it.
func checkMessageSignature(stdout, msg string, pub []byte) error {
	for _, l := range strings.Split(stdout, "\n") {
		sig, e := base64.StdEncoding.DecodeString(strings.TrimSpace(l))
		if e != nil || len(sig) != 65 || sig[0] < 31 || sig[0] > 34 {
			continue
		}
		const magic = "Bitcoin Signed Message:\n"
		var pre bytes.Buffer
		pre.WriteByte(byte(len(magic)))
		pre.WriteString(magic)
		wire.PutCompactSize(&pre, uint64(len(msg)))
		pre.WriteString(msg)
		h := wire.DSHA(pre.Bytes())
		pt, ok := ec.Recover(new(big.Int).SetBytes(sig[1:33]), new(big.Int).SetBytes(sig[33:65]), new(big.Int).SetBytes(h[:]), int(sig[0]-31))
		if !ok || !bytes.Equal(ec.SerializeCompressed(pt), pub) {
			return fmt.Errorf("signature %s does not recover the key of the address", l)
		}
		return nil
	}
	return fmt.Errorf("no message signature was printed")
}

type caseInfo struct {
	second    bool // a second payment from the updated balance folder was made and checked
	msgSigned bool
	outcome   string // written | refused_insufficient | refused_other | raw_written
	inTypes   map[string]bool
	nIn       int
	change    bool
	rawSigned int
}

func fileSet(dir string) map[string]bool {
	m := map[string]bool{}
	es, _ := os.ReadDir(dir)
	for _, e := range es {
		m[e.Name()] = true
	}
	return m
}

func feeOf(c txCase) uint64 {
	switch {
	case c.FeeFlag != "":
		return parseAmount(c.FeeFlag)
	case c.W.CfgFee != "":
		return parseAmount(c.W.CfgFee)
	}
	return 100000 // the documented default 0.001
}

func pathString(p []uint32) string {
	s := "m"
	for _, i := range p {
		if i >= hd.Hardened {
			s += fmt.Sprintf("/%d'", i-hd.Hardened)
		} else {
			s += fmt.Sprintf("/%d", i)
		}
	}
	return s
}

func checkCase(c txCase) (info caseInfo, err error) {
	info.inTypes = map[string]bool{}
	bin, err := walletBinary("wallet-c13")
	if err != nil {
		return info, err
	}
	dir, err := os.MkdirTemp("", "c13w")
	if err != nil {
		return info, err
	}
	defer os.RemoveAll(dir)

	// --- wallet configuration and keys -----------------------------------------------------------
	cfg := []string{fmt.Sprintf("type=%d", c.W.Type), "atype=" + c.W.AType, fmt.Sprintf("keycnt=%d", c.W.KeyCnt)}
	if c.W.Testnet {
		cfg = append(cfg, "testnet=true")
	}
	if c.W.Type == 4 {
		cfg = append(cfg, "hdpath="+pathString(c.W.Path))
	}
	if c.W.CfgFee != "" {
		cfg = append(cfg, "fee="+c.W.CfgFee)
	}
	if c.W.SeedPfx != "" {
		cfg = append(cfg, "seed="+c.W.SeedPfx)
	}
	if err = os.WriteFile(filepath.Join(dir, "wallet.cfg"), []byte(strings.Join(cfg, "\n")+"\n"), 0o600); err != nil {
		return info, err
	}
	if err = os.WriteFile(filepath.Join(dir, ".secret"), []byte(c.W.Pass), 0o600); err != nil {
		return info, err
	}
	if len(c.W.Others) > 0 {
		var ob strings.Builder
		for i, o := range c.W.Others {
			kb, _ := hex.DecodeString(o.Key)
			ver := byte(0x80)
			if c.W.Testnet {
				ver = 0xef
			}
			fmt.Fprintf(&ob, "%s imported %d\n", addr.WIFEncode(ver, kb, o.Compr), i)
		}
		if err = os.WriteFile(filepath.Join(dir, ".others"), []byte(ob.String()), 0o600); err != nil {
			return info, err
		}
	}
	dres, err := runWallet(bin, dir, "-dump", "*")
	if err != nil {
		return info, err
	}
	var keys, others []keyInfo
	wifVer := byte(0x80)
	if c.W.Testnet {
		wifVer = 0xef
	}
	for _, l := range strings.Split(dres.stdout, "\n") {
		f := strings.Fields(l)
		if len(f) < 2 {
			continue
		}
		if ver, key, compr, ok := addr.WIFDecode(f[0]); ok && ver == wifVer {
			k := new(big.Int).SetBytes(key)
			if k.Sign() == 0 || k.Cmp(ec.N) >= 0 {
				return info, fmt.Errorf("wallet key %x is not a valid secret", key)
			}
			ki := keyInfo{priv: key, pub: ec.SerializeCompressed(ec.BaseMul(k))}
			if !compr {
				ki.pub = ec.SerializeUncompressed(ec.BaseMul(k))
			}
			if len(others) < len(c.W.Others) { // the imported keys come first
				if want, _ := hex.DecodeString(c.W.Others[len(others)].Key); !bytes.Equal(want, key) || compr != c.W.Others[len(others)].Compr {
					return info, fmt.Errorf("imported key %d is dumped as %s", len(others), f[0])
				}
				others = append(others, ki)
			} else if compr {
				keys = append(keys, ki)
			}
		}
	}
	if dres.code != 0 || len(keys) != c.W.KeyCnt {
		return info, fmt.Errorf("wallet -dump * shows %d keys, expected %d: %s", len(keys), c.W.KeyCnt, dres)
	}
	// the addresses the wallet lists (in its configured form) are what funding transactions pay to
	lres, err := runWallet(bin, dir, "-l")
	if err != nil {
		return info, err
	}
	listKind := map[string]string{"p2kh": "p2pkh", "segwit": "p2sh", "bech32": "p2wpkh", "tap": "p2tr"}[c.W.AType]
	listed := map[int][]byte{}
	if wt, e := os.ReadFile(filepath.Join(dir, "wallet.txt")); e == nil && lres.code == 0 {
		n, skip := 0, 0
		for _, l := range strings.Split(string(wt), "\n") {
			if l == "" || strings.HasPrefix(l, "#") {
				continue
			}
			if skip < len(others) {
				skip++ // the imported keys are listed first ("-=CompressedKey=-" stands for an uncompressed one)
				continue
			}
			d, ok := addr.Decode(strings.Fields(l)[0])
			if !ok || d.Script() == nil {
				return info, fmt.Errorf("listed address %q does not decode", l)
			}
			listed[n] = d.Script()
			n++
		}
		if n != len(keys) {
			return info, fmt.Errorf("listing has %d addresses, -dump * %d keys", n, len(keys))
		}
	} else {
		return info, fmt.Errorf("wallet -l failed: %s", lres)
	}
	os.Remove(filepath.Join(dir, "wallet.txt"))
	script := func(s spk) []byte {
		if s.Kind == listKind {
			return listed[((s.Key%len(keys))+len(keys))%len(keys)]
		}
		return scriptOf(s, keys, others...)
	}
	own := map[string]bool{}
	for _, o := range others {
		own[string(hd.P2PKHScript(o.pub))] = true
		if len(o.pub) == 33 {
			own[string(hd.P2WPKHScript(o.pub))], own[string(hd.P2SHP2WPKHScript(o.pub))] = true, true
			own[string(append([]byte{0x51, 32}, o.pub[1:]...))] = true
		}
	}
	for i := range keys {
		for _, k := range []string{"p2pkh", "p2sh", "p2wpkh", "p2tr"} {
			own[string(scriptOf(spk{Kind: k, Key: i}, keys))] = true
		}
	}

	// --- balance folder --------------------------------------------------------------------------
	if err = os.Mkdir(filepath.Join(dir, "balance"), 0o700); err != nil {
		return info, err
	}
	fund := make([]*wire.Tx, len(c.Fund))
	ids := make([]string, len(c.Fund))
	for i, f := range c.Fund {
		tx := buildFunding(i, f, keys, others...)
		for o := range tx.Out {
			tx.Out[o].PkScript = script(f.Outs[o].spk)
		}
		fund[i] = tx
		ids[i] = txidString(tx)
		if err = os.WriteFile(filepath.Join(dir, "balance", ids[i]+".tx"), tx.Serialize(f.Wit), 0o600); err != nil {
			return info, err
		}
	}
	type outpoint struct {
		hash [32]byte
		n    uint32
	}
	listedOuts := map[outpoint][2]int{}
	var ul strings.Builder
	var sureOwned, maxOwned uint64
	var mustSpendAll []outpoint
	for _, u := range c.Unspent {
		tx, o := fund[u[0]], c.Fund[u[0]].Outs[u[1]]
		fmt.Fprintf(&ul, "%s-%03d # %s BTC @ %s\n", ids[u[0]], u[1], amountString(o.Value, 0), addressOf(tx.Out[u[1]].PkScript, c.W.Testnet))
		op := outpoint{tx.TxID(), uint32(u[1])}
		if _, dup := listedOuts[op]; dup {
			return info, fmt.Errorf("bad case: duplicate unspent entry")
		}
		listedOuts[op] = u
		if owned(o.Kind) {
			maxOwned += o.Value
			// the wallet recognises P2SH-P2WPKH outputs of its keys only while its own address type is a
			// Base58 one (p2kh, segwit); with bech32/tap they are left alone
			if o.Kind != "p2sh" || c.W.AType == "p2kh" || c.W.AType == "segwit" {
				sureOwned += o.Value
				mustSpendAll = append(mustSpendAll, op)
			}
		}
	}
	ustr := ul.String()
	if c.UnspentCRLF {
		ustr = strings.ReplaceAll(ustr, "\n", "\r\n")
	}
	if c.UnspentNoNL {
		ustr = strings.TrimRight(ustr, "\r\n")
	}
	unspentBefore := []byte(ustr)
	if err = os.WriteFile(filepath.Join(dir, "balance", "unspent.txt"), unspentBefore, 0o600); err != nil {
		return info, err
	}

	// --- the request -----------------------------------------------------------------------------
	var args []string
	txfile := ""
	if c.TxFn {
		txfile = "out.txt"
		args = append(args, "-txfn", txfile)
	}
	if c.RFC6979 {
		args = append(args, "-rfc6979")
	}
	if c.MinSig {
		args = append(args, "-minsig")
	}
	if c.FeeFlag != "" {
		args = append(args, "-fee", c.FeeFlag)
	}
	fee := feeOf(c)

	if c.Mode == "raw" {
		raw := &wire.Tx{Version: c.RawVer, LockTime: c.RawLock}
		for _, ri := range c.RawIns {
			in := wire.TxIn{PrevHash: fund[ri.F].TxID(), PrevIndex: uint32(ri.V), Sequence: ri.Seq}
			raw.In = append(raw.In, in)
		}
		for _, o := range c.RawOuts {
			raw.Out = append(raw.Out, wire.TxOut{Value: o.Value, PkScript: script(o.spk)})
		}
		if err = os.WriteFile(filepath.Join(dir, "raw.txt"), []byte(hex.EncodeToString(raw.Serialize(false))), 0o600); err != nil {
			return info, err
		}
		before := fileSet(dir)
		res, err := runWallet(bin, dir, append(args, "-raw", "raw.txt")...)
		if err != nil {
			return info, err
		}
		if strings.Contains(res.stderr, "panic:") || strings.Contains(res.stderr, "goroutine 1 [") {
			return info, fmt.Errorf("the wallet crashed: %s", res)
		}
		got, fn, err := readTxFile(dir, before, txfile)
		if err != nil {
			return info, fmt.Errorf("%v: %s", err, res)
		}
		if got == nil && c.RFC6979 && c.MinSig && res.code != 0 {
			info.outcome = "refused_minsig_with_rfc6979"
			return info, nil
		}
		if got == nil {
			return info, fmt.Errorf("-raw wrote no transaction: %s", res)
		}
		info.outcome = "raw_written"
		if got.Version != raw.Version || got.LockTime != raw.LockTime {
			return info, fmt.Errorf("-raw changed version/locktime %d/%d to %d/%d (%s)", raw.Version, raw.LockTime, got.Version, got.LockTime, fn)
		}
		if len(got.In) != len(raw.In) || len(got.Out) != len(raw.Out) {
			return info, fmt.Errorf("-raw changed the number of inputs/outputs %d/%d to %d/%d", len(raw.In), len(raw.Out), len(got.In), len(got.Out))
		}
		spent := make([]wire.TxOut, len(raw.In))
		for i := range raw.In {
			if got.In[i].PrevHash != raw.In[i].PrevHash || got.In[i].PrevIndex != raw.In[i].PrevIndex || got.In[i].Sequence != raw.In[i].Sequence {
				return info, fmt.Errorf("-raw changed input %d: outpoint/sequence %x:%d/%08x became %x:%d/%08x", i, raw.In[i].PrevHash, raw.In[i].PrevIndex, raw.In[i].Sequence, got.In[i].PrevHash, got.In[i].PrevIndex, got.In[i].Sequence)
			}
			spent[i] = fund[c.RawIns[i].F].Out[c.RawIns[i].V]
		}
		for i := range raw.Out {
			if got.Out[i].Value != raw.Out[i].Value || !bytes.Equal(got.Out[i].PkScript, raw.Out[i].PkScript) {
				return info, fmt.Errorf("-raw changed output %d: %d/%x became %d/%x", i, raw.Out[i].Value, raw.Out[i].PkScript, got.Out[i].Value, got.Out[i].PkScript)
			}
		}
		info.nIn = len(got.In)
		for i, in := range got.In {
			if len(in.ScriptSig) == 0 && len(in.Witness) == 0 {
				continue // left unsigned (not the wallet's, or not recognised)
			}
			info.rawSigned++
			info.inTypes[c.Fund[c.RawIns[i].F].Outs[c.RawIns[i].V].Kind] = true
			if e := verifyInput(got, i, spent); e != nil {
				return info, fmt.Errorf("-raw: input %d (%s) was signed, but: %v", i, c.Fund[c.RawIns[i].F].Outs[c.RawIns[i].V].Kind, e)
			}
		}
		return info, nil
	}

	// payments in the order the wallet reads them: -send entries, then the batch file
	type payment struct {
		script []byte
		amount uint64
	}
	var pays []payment
	invalidRequest := false
	if len(c.Send) > 0 {
		var parts []string
		for i, d := range c.Send {
			parts = append(parts, strings.Repeat(" ", d.Lead)+addressOf(script(d.spk), c.W.Testnet)+"="+amountString(d.Amount, d.Fmt)+strings.Repeat(" ", d.Trail))
			am := d.Amount
			if c.SubFee && i == 0 {
				// documented: -f lowers the first amount by the fee
				if am < fee {
					invalidRequest = true // nothing can be subtracted: no transaction satisfies the request
				}
				am -= fee
			}
			pays = append(pays, payment{script(d.spk), am})
		}
		args = append(args, "-send", strings.Join(parts, ","))
	}
	if len(c.Batch) > 0 {
		var b strings.Builder
		// what parse_batch accepts: one "address=amount" per line, spaces allowed at both ends of a line, lines
		// ended by LF or CR LF, the last one also by the end of the file, comment lines "#...=..." (a line without
		// '=' - also an empty one - is an error and not generated)
		eol := "\n"
		if c.BatchCRLF {
			eol = "\r\n"
		}
		for i, d := range c.Batch {
			if c.BatchComment>>uint(i)&1 == 1 {
				b.WriteString([]string{"# note=1", "#=", "#1BitcoinEaterAddressDontSendf59kuE=0.5", " # spaces = in front"}[i%4] + eol)
			}
			fmt.Fprintf(&b, "%s%s=%s%s", strings.Repeat(" ", d.Lead), addressOf(script(d.spk), c.W.Testnet), amountString(d.Amount, d.Fmt), strings.Repeat(" ", d.Trail))
			if i < len(c.Batch)-1 || !c.BatchNoNL {
				b.WriteString(eol)
			}
			pays = append(pays, payment{script(d.spk), d.Amount})
		}
		if err = os.WriteFile(filepath.Join(dir, "batch.txt"), []byte(b.String()), 0o600); err != nil {
			return info, err
		}
		args = append(args, "-batch", "batch.txt")
	}
	if c.SubFee {
		args = append(args, "-f")
	}
	var changeScript []byte
	if c.Change != nil {
		changeScript = script(*c.Change)
		args = append(args, "-change", addressOf(changeScript, c.W.Testnet))
	}
	if c.Msg != "" {
		args = append(args, "-msg", c.Msg)
	}
	signAddr := ""
	if c.SignKey != nil && c.Msg != "" {
		signAddr = addressOf(scriptOf(spk{Kind: "p2pkh", Key: *c.SignKey}, keys), c.W.Testnet)
		args = append(args, "-sign", signAddr)
	}
	if c.Seq != nil {
		args = append(args, "-seq", fmt.Sprint(*c.Seq))
	}
	if c.Lock != nil {
		args = append(args, "-locktime", fmt.Sprint(*c.Lock))
	}
	if c.TxVer != nil {
		args = append(args, "-txver", fmt.Sprint(*c.TxVer))
	}
	if c.UseAll {
		args = append(args, "-useallinputs")
	}
	if c.NoApply {
		args = append(args, "-a=false")
	}
	var need uint64 = fee
	for _, p := range pays {
		need += p.amount
	}

	before := fileSet(dir)
	beforeBal := fileSet(filepath.Join(dir, "balance"))
	res, err := runWallet(bin, dir, args...)
	if err != nil {
		return info, err
	}
	if strings.Contains(res.stderr, "panic:") || strings.Contains(res.stderr, "goroutine 1 [") {
		return info, fmt.Errorf("the wallet crashed: %s", res)
	}
	got, fn, err := readTxFile(dir, before, txfile)
	if err != nil {
		return info, fmt.Errorf("%v: %s", err, res)
	}
	unspentAfter, _ := os.ReadFile(filepath.Join(dir, "balance", "unspent.txt"))
	if signAddr != "" && !(c.RFC6979 && c.MinSig && got == nil) { // (that combination is refused before anything is signed)
		// the message signature printed before the transaction is made: it must recover the key of that address
		k := keys[((*c.SignKey%len(keys))+len(keys))%len(keys)]
		if e := checkMessageSignature(res.stdout, c.Msg, k.pub); e != nil {
			return info, fmt.Errorf("-sign %s -msg %q: %v: %s", signAddr, c.Msg, e, res)
		}
		info.msgSigned = true
	}

	if got == nil {
		// nothing written
		if c.RFC6979 && c.MinSig {
			info.outcome = "refused_minsig_with_rfc6979"
		} else if !invalidRequest && need <= sureOwned {
			info.outcome = "refused_other"
		} else {
			info.outcome = "refused_insufficient"
		}
		if res.code == 0 {
			return info, fmt.Errorf("no transaction was written, yet the exit code is 0: %s", res)
		}
		if !bytes.Equal(unspentAfter, unspentBefore) {
			return info, fmt.Errorf("no transaction was written, but unspent.txt changed:\n%s---\n%s", unspentBefore, unspentAfter)
		}
		for n := range fileSet(filepath.Join(dir, "balance")) {
			if !beforeBal[n] {
				return info, fmt.Errorf("no transaction was written, but balance/%s appeared", n)
			}
		}
		return info, nil
	}

	// a transaction was written
	info.outcome = "written"
	if invalidRequest {
		return info, fmt.Errorf("-f with a first amount below the fee (%d < %d) cannot be satisfied, yet %s was written: %s", c.Send[0].Amount, fee, fn, describeTx(got))
	}
	if need > maxOwned {
		return info, fmt.Errorf("funds are insufficient (need %d, the listed outputs of the wallet hold %d), yet %s was written: %s", need, maxOwned, fn, describeTx(got))
	}
	// inputs: listed unspent outputs, no duplicates
	seen := map[outpoint]bool{}
	spent := make([]wire.TxOut, len(got.In))
	var sumIn uint64
	for i, in := range got.In {
		op := outpoint{in.PrevHash, in.PrevIndex}
		u, ok := listedOuts[op]
		if !ok {
			return info, fmt.Errorf("input %d spends %x:%d which is not listed in unspent.txt", i, in.PrevHash, in.PrevIndex)
		}
		if seen[op] {
			return info, fmt.Errorf("input %d spends %x:%d a second time", i, in.PrevHash, in.PrevIndex)
		}
		seen[op] = true
		spent[i] = fund[u[0]].Out[u[1]]
		sumIn += spent[i].Value
		info.inTypes[c.Fund[u[0]].Outs[u[1]].Kind] = true
	}
	info.nIn = len(got.In)
	if len(got.In) == 0 {
		return info, fmt.Errorf("the transaction has no inputs")
	}
	// outputs: every payment exactly once with its amount; then change and message
	rest := append([]wire.TxOut{}, got.Out...)
	for i, p := range pays {
		found := -1
		for k, o := range rest {
			if o.Value == p.amount && bytes.Equal(o.PkScript, p.script) {
				found = k
				break
			}
		}
		if found < 0 {
			return info, fmt.Errorf("payment %d (%d to %x) is not among the outputs: %s", i, p.amount, p.script, describeTx(got))
		}
		rest = append(rest[:found], rest[found+1:]...)
	}
	var sumPay uint64
	for _, p := range pays {
		sumPay += p.amount
	}
	if sumIn < sumPay+fee {
		return info, fmt.Errorf("inputs hold %d, payments+fee are %d: %s", sumIn, sumPay+fee, describeTx(got))
	}
	wantChange := sumIn - sumPay - fee
	if c.Msg != "" {
		found := -1
		for k, o := range rest {
			if o.Value == 0 && len(o.PkScript) > 0 && o.PkScript[0] == 0x6a {
				found = k
			}
		}
		if found < 0 {
			return info, fmt.Errorf("-msg: no zero-value OP_RETURN output: %s", describeTx(got))
		}
		// OP_RETURN followed by one push of exactly the message, in the standard push encoding for its length
		if want := append([]byte{0x6a}, sighash.PushData([]byte(c.Msg))...); !bytes.Equal(rest[found].PkScript, want) {
			return info, fmt.Errorf("-msg of %d bytes: the OP_RETURN output script is %x, expected OP_RETURN <message> = %x", len(c.Msg), rest[found].PkScript, want)
		}
		rest = append(rest[:found], rest[found+1:]...)
	}
	if wantChange == 0 {
		if len(rest) != 0 {
			return info, fmt.Errorf("unexpected extra output(s) %v: %s", rest, describeTx(got))
		}
	} else {
		info.change = true
		if len(rest) != 1 {
			return info, fmt.Errorf("expected exactly one change output of %d, found %d other outputs: %s", wantChange, len(rest), describeTx(got))
		}
		if rest[0].Value != wantChange {
			return info, fmt.Errorf("change is %d, expected inputs %d - payments %d - fee %d = %d: %s", rest[0].Value, sumIn, sumPay, fee, wantChange, describeTx(got))
		}
		if changeScript != nil {
			if !bytes.Equal(rest[0].PkScript, changeScript) {
				return info, fmt.Errorf("change goes to %x, -change says %x", rest[0].PkScript, changeScript)
			}
		} else if !own[string(rest[0].PkScript)] {
			return info, fmt.Errorf("change goes to %x which is none of the wallet's own scripts", rest[0].PkScript)
		}
	}
	// explicitly requested fields
	if c.TxVer != nil && got.Version != *c.TxVer {
		return info, fmt.Errorf("-txver %d, transaction version %d", *c.TxVer, got.Version)
	}
	if c.Lock != nil && got.LockTime != *c.Lock {
		return info, fmt.Errorf("-locktime %d, transaction lock time %d", *c.Lock, got.LockTime)
	}
	if c.Seq != nil {
		for i, in := range got.In {
			if in.Sequence != uint32(*c.Seq) {
				return info, fmt.Errorf("-seq %d, input %d has sequence %08x", *c.Seq, i, in.Sequence)
			}
		}
	}
	if c.UseAll {
		for _, op := range mustSpendAll {
			if !seen[op] {
				return info, fmt.Errorf("-useallinputs, but the wallet's listed output %x:%d is not an input", op.hash, op.n)
			}
		}
	}
	// signatures
	for i := range got.In {
		if e := verifyInput(got, i, spent); e != nil {
			return info, fmt.Errorf("input %d: %v\n%s", i, e, describeTx(got))
		}
	}
	if !c.Second || c.NoApply {
		return info, nil
	}

	// --- a second payment from the balance folder the wallet has just updated -------------------------------
	// what it may spend now: the listed outputs the first transaction left alone plus the first transaction's
	// outputs to the wallet's own scripts; -useallinputs asks for all of them
	base58Mode := c.W.AType == "p2kh" || c.W.AType == "segwit"
	avail := map[outpoint]wire.TxOut{}
	sure2 := map[outpoint]bool{}
	var sum2 uint64
	for op, u := range listedOuts {
		o := c.Fund[u[0]].Outs[u[1]]
		if seen[op] || !owned(o.Kind) {
			continue
		}
		avail[op] = fund[u[0]].Out[u[1]]
		if o.Kind != "p2sh" || base58Mode {
			sure2[op] = true
			sum2 += o.Value
		}
	}
	id1 := got.TxID()
	for i, o := range got.Out {
		if !own[string(o.PkScript)] {
			continue
		}
		op := outpoint{id1, uint32(i)}
		avail[op] = o
		if !(len(o.PkScript) == 23 && o.PkScript[0] == 0xa9) || base58Mode {
			sure2[op] = true
			sum2 += o.Value
		}
	}
	if sum2 < fee+2 {
		return info, nil
	}
	amount2 := (sum2-fee)/3 + 1
	pay2 := scriptOf(spk{Kind: "f_p2wpkh", Key: 4242}, keys)
	args2 := []string{"-txfn", "out2.txt", "-useallinputs", "-send", addressOf(pay2, c.W.Testnet) + "=" + amountString(amount2, 0)}
	if c.FeeFlag != "" {
		args2 = append(args2, "-fee", c.FeeFlag)
	}
	before2 := fileSet(dir)
	res2, err := runWallet(bin, dir, args2...)
	if err != nil {
		return info, err
	}
	if strings.Contains(res2.stderr, "panic:") {
		return info, fmt.Errorf("second payment: the wallet crashed: %s", res2)
	}
	tx2, _, err := readTxFile(dir, before2, "out2.txt")
	if err != nil {
		return info, fmt.Errorf("second payment: %v: %s", err, res2)
	}
	if tx2 == nil {
		return info, fmt.Errorf("second payment of %d from the updated balance folder (the wallet's outputs hold %d, fee %d) wrote no transaction: %s", amount2, sum2, fee, res2)
	}
	info.second = true
	seen2 := map[outpoint]bool{}
	spent2 := make([]wire.TxOut, len(tx2.In))
	var in2 uint64
	for i, in := range tx2.In {
		op := outpoint{in.PrevHash, in.PrevIndex}
		o, ok := avail[op]
		if !ok {
			return info, fmt.Errorf("second payment: input %d spends %x:%d which is neither an unspent listed output nor an own output of the first transaction (%s)", i, in.PrevHash, in.PrevIndex, describeTx(got))
		}
		if seen2[op] {
			return info, fmt.Errorf("second payment: input %d spends %x:%d a second time", i, in.PrevHash, in.PrevIndex)
		}
		seen2[op] = true
		spent2[i] = o
		in2 += o.Value
	}
	for op := range sure2 {
		if !seen2[op] {
			return info, fmt.Errorf("second payment with -useallinputs does not spend the wallet's output %x:%d (first transaction: %s)", op.hash, op.n, describeTx(got))
		}
	}
	if in2 < amount2+fee {
		return info, fmt.Errorf("second payment: inputs hold %d, payment+fee are %d", in2, amount2+fee)
	}
	okPay, okChange := false, in2-amount2-fee == 0
	for _, o := range tx2.Out {
		switch {
		case !okPay && o.Value == amount2 && bytes.Equal(o.PkScript, pay2):
			okPay = true
		case !okChange && o.Value == in2-amount2-fee && own[string(o.PkScript)]:
			okChange = true
		default:
			return info, fmt.Errorf("second payment: unexpected output %d -> %x: %s", o.Value, o.PkScript, describeTx(tx2))
		}
	}
	if !okPay || !okChange {
		return info, fmt.Errorf("second payment: payment %d / change %d missing: %s", amount2, in2-amount2-fee, describeTx(tx2))
	}
	for i := range tx2.In {
		if e := verifyInput(tx2, i, spent2); e != nil {
			return info, fmt.Errorf("second payment: input %d: %v\n%s", i, e, describeTx(tx2))
		}
	}
	return info, nil
}

func describeTx(tx *wire.Tx) string {
	var b strings.Builder
	fmt.Fprintf(&b, "tx version %d locktime %d;", tx.Version, tx.LockTime)
	for _, in := range tx.In {
		fmt.Fprintf(&b, " in %x:%d seq %08x;", in.PrevHash[:4], in.PrevIndex, in.Sequence)
	}
	for _, o := range tx.Out {
		fmt.Fprintf(&b, " out %d -> %x;", o.Value, o.PkScript)
	}
	return b.String()
}

// readTxFile finds the transaction file the wallet wrote (txfile, or the one new file), decodes it.
func readTxFile(dir string, before map[string]bool, txfile string) (*wire.Tx, string, error) {
	var names []string
	for n := range fileSet(dir) {
		if !before[n] {
			names = append(names, n)
		}
	}
	sort.Strings(names)
	if len(names) == 0 {
		return nil, "", nil
	}
	if len(names) > 1 {
		return nil, "", fmt.Errorf("several new files %v", names)
	}
	if txfile != "" && names[0] != txfile {
		return nil, "", fmt.Errorf("-txfn %s, but %s was written", txfile, names[0])
	}
	b, err := os.ReadFile(filepath.Join(dir, names[0]))
	if err != nil {
		return nil, "", err
	}
	raw, err := hex.DecodeString(strings.TrimSpace(string(b)))
	if err != nil {
		return nil, "", fmt.Errorf("%s is not hex: %v", names[0], err)
	}
	tx, n, err := wire.DecodeTx(raw)
	if err != nil || n != len(raw) {
		return nil, "", fmt.Errorf("%s does not decode as a transaction (%v, %d of %d bytes)", names[0], err, n, len(raw))
	}
	return tx, names[0], nil
}

// ---------------------------------------------------------------------------------------------
// generators

var ownKinds = []string{"p2pkh", "p2sh", "p2wpkh", "p2tr"}
var foreignKinds = []string{"f_p2pkh", "f_p2sh", "f_p2wpkh", "f_p2wsh", "f_p2tr"}

func genSpk(t *rapid.T, label string, pOwn int) spk {
	if rapid.IntRange(0, 99).Draw(t, label+"_own") < pOwn {
		return spk{Kind: rapid.SampledFrom(ownKinds).Draw(t, label+"_kind"), Key: rapid.IntRange(0, 19).Draw(t, label+"_key")}
	}
	return spk{Kind: rapid.SampledFrom(foreignKinds).Draw(t, label+"_fkind"), Key: rapid.IntRange(0, 1000).Draw(t, label+"_fkey")}
}

func genValue(t *rapid.T, label string) uint64 {
	switch rapid.IntRange(0, 9).Draw(t, label+"_vk") {
	case 0:
		return rapid.SampledFrom([]uint64{1, 2, 545, 546, 547, 1000}).Draw(t, label+"_tiny")
	case 1:
		return rapid.SampledFrom([]uint64{99999, 100000, 100001, 200000}).Draw(t, label+"_fee")
	case 2:
		return rapid.Uint64Range(1, 5000000000000).Draw(t, label+"_big")
	case 3, 4, 5:
		return rapid.Uint64Range(1000, 1000000).Draw(t, label+"_mid")
	}
	return rapid.Uint64Range(100000, 100000000).Draw(t, label+"_norm")
}

var hdPaths = [][]uint32{
	{hd.Hardened},
	{0, 0},
	{44 + hd.Hardened, hd.Hardened, hd.Hardened, 0, 0},
	{84 + hd.Hardened, hd.Hardened + 1, hd.Hardened, 1, 5},
	{86 + hd.Hardened, 0x7fffff00},
}

var msgRunes = []rune("abcdefghijklmnopqrstuvwxyz ABC 0123456789 .,:;!?-_/ äß日本")

func genCase(t *rapid.T) txCase {
	var c txCase
	c.W = wcfg{Type: 3, AType: rapid.SampledFrom([]string{"p2kh", "segwit", "bech32", "tap"}).Draw(t, "atype"),
		Testnet: rapid.IntRange(0, 2).Draw(t, "testnet") == 0, KeyCnt: rapid.IntRange(3, 20).Draw(t, "keycnt"),
		Pass: rapid.StringMatching(`[a-zA-Z0-9 ]{4,20}`).Draw(t, "pass")}
	if rapid.IntRange(0, 3).Draw(t, "others") == 0 {
		// keys imported through .others: WIF strings of compressed and of uncompressed keys
		for i, n := 0, rapid.IntRange(1, 2).Draw(t, "nothers"); i < n; i++ {
			kb := rapid.SliceOfN(rapid.Byte(), 32, 32).Draw(t, "okey")
			kb[0] = kb[0]&0x7f | 1
			c.W.Others = append(c.W.Others, otherKey{Key: hex.EncodeToString(kb), Compr: rapid.IntRange(0, 2).Draw(t, "ocompr") == 0})
		}
	}
	if rapid.IntRange(0, 3).Draw(t, "seedpfx") == 0 {
		c.W.SeedPfx = rapid.StringMatching(`[a-zA-Z0-9_.:-]{1,40}`).Draw(t, "seedpfxv")
		if rapid.Bool().Draw(t, "shortpass") {
			c.W.Pass = c.W.Pass[:3]
		}
	}
	if rapid.Bool().Draw(t, "type4") {
		c.W.Type = 4
		c.W.Path = rapid.SampledFrom(hdPaths).Draw(t, "path")
	}
	genFee := func(label string) string {
		var k uint64
		switch rapid.IntRange(0, 7).Draw(t, label+"_kind") {
		case 0:
			k = rapid.SampledFrom([]uint64{0, 1, 1000, 10000, 100000, 123456, 1000000, 100000000}).Draw(t, label+"_std")
		case 1, 2: // small, where the float product of the 8-decimal string rounds down
			k = nextFragile(rapid.Uint64Range(1, 3000).Draw(t, label+"_fs"))
		case 3, 4: // the same anywhere up to 0.1 BTC
			k = nextFragile(rapid.Uint64Range(1, 10000000).Draw(t, label+"_fm"))
		case 5:
			k = rapid.SampledFrom([]uint64{3, 6, 7, 12, 30000, 15000, 7000, 57, 58, 113, 114}).Draw(t, label+"_known")
		default:
			k = rapid.Uint64Range(0, 10000000).Draw(t, label+"_any")
		}
		return amountString(k, rapid.IntRange(0, 5).Draw(t, label+"_fmt"))
	}
	switch rapid.IntRange(0, 3).Draw(t, "feesrc") {
	case 0, 2:
		c.W.CfgFee = genFee("cfgfee")
	case 1:
		c.FeeFlag = genFee("feeflag")
	}
	if c.W.CfgFee != "" && rapid.IntRange(0, 3).Draw(t, "feeboth") == 0 {
		c.FeeFlag = genFee("feeflag2") // the switch overrides the file
	}
	fee := feeOf(c)

	// balance folder
	nf := rapid.IntRange(1, 5).Draw(t, "nfund")
	var all [][2]int
	for i := 0; i < nf; i++ {
		f := ftx{Ver: rapid.SampledFrom([]uint32{1, 2}).Draw(t, "fver"), NIn: rapid.IntRange(1, 3).Draw(t, "fnin"), Wit: rapid.Bool().Draw(t, "fwit")}
		if rapid.IntRange(0, 3).Draw(t, "flock") == 0 {
			f.Lock = rapid.Uint32().Draw(t, "flockv")
		}
		no := rapid.IntRange(1, 4).Draw(t, "fnout")
		if i == 0 && rapid.IntRange(0, 4).Draw(t, "fmany") == 0 {
			// a funding transaction with many outputs: two- and three-digit output indexes in unspent.txt
			// (written as %03d by the client: 008, 009, 010, 077, 100 ...)
			no = rapid.SampledFrom([]int{9, 10, 11, 12, 20, 65, 78, 101, 130}).Draw(t, "fnout_many")
		}
		for o := 0; o < no; o++ {
			f.Outs = append(f.Outs, fout{spk: genSpk(t, "fo", 75), Value: genValue(t, "fo")})
			if len(c.W.Others) > 0 && rapid.IntRange(0, 2).Draw(t, "fo_other") == 0 {
				f.Outs[len(f.Outs)-1].spk = spk{Kind: "o_p2pkh", Key: rapid.IntRange(0, 1).Draw(t, "fo_okey")}
			}
			all = append(all, [2]int{i, o})
		}
		c.Fund = append(c.Fund, f)
	}
	perm := rapid.Permutation(all).Draw(t, "order")
	for _, u := range perm {
		if rapid.IntRange(0, 9).Draw(t, "listed") < 8 {
			c.Unspent = append(c.Unspent, u)
		}
	}
	if len(c.Unspent) == 0 {
		c.Unspent = append(c.Unspent, perm[0])
	}
	var sure, max uint64
	for _, u := range c.Unspent {
		o := c.Fund[u[0]].Outs[u[1]]
		if owned(o.Kind) {
			max += o.Value
			if o.Kind != "p2sh" || c.W.AType == "p2kh" || c.W.AType == "segwit" {
				sure += o.Value
			}
		}
	}

	c.TxFn = rapid.Bool().Draw(t, "txfn")
	c.UnspentCRLF = rapid.IntRange(0, 3).Draw(t, "unspent_crlf") == 0
	c.UnspentNoNL = rapid.IntRange(0, 2).Draw(t, "unspent_nonl") == 0
	c.RFC6979 = rapid.IntRange(0, 2).Draw(t, "rfc6979") == 0
	if !c.RFC6979 {
		c.MinSig = rapid.IntRange(0, 3).Draw(t, "minsig") == 0
	} else if rapid.IntRange(0, 9).Draw(t, "minsig_rfc6979") == 0 {
		// -minsig needs a fresh nonce for every attempt: together with -rfc6979 the wallet refuses (it used to hang)
		c.MinSig = true
	}

	mode := 19 - rapid.IntRange(0, 19).Draw(t, "mode") // (rapid favours small numbers: keep -send the common case)
	if mode < 5 {
		c.Mode = "raw"
		c.RawVer = rapid.SampledFrom([]uint32{0, 1, 2, 3, 0x7fffffff, 0xffffffff}).Draw(t, "rawver")
		if rapid.Bool().Draw(t, "rawlockon") {
			c.RawLock = rapid.SampledFrom([]uint32{1, 499999999, 500000000, 0xffffffff, 800000}).Draw(t, "rawlock")
		}
		ni := rapid.IntRange(1, 5).Draw(t, "rawnin")
		if ni > len(all) {
			ni = len(all)
		}
		for _, u := range rapid.Permutation(all).Draw(t, "rawsel")[:ni] {
			c.RawIns = append(c.RawIns, rawIn{F: u[0], V: u[1], Seq: rapid.SampledFrom([]uint32{0, 1, 0xfffffffd, 0xfffffffe, 0xffffffff, 0x80000000, 0x00400001, 144}).Draw(t, "rawseq")})
		}
		no := rapid.IntRange(1, 4).Draw(t, "rawnout")
		for o := 0; o < no; o++ {
			c.RawOuts = append(c.RawOuts, fout{spk: genSpk(t, "ro", 30), Value: genValue(t, "ro")})
		}
		return c
	}

	// payment request
	nSend, nBatch := 0, 0
	switch {
	case mode < 14:
		c.Mode = "send"
		nSend = rapid.IntRange(1, 4).Draw(t, "nsend")
	case mode < 17:
		c.Mode = "batch"
		nBatch = rapid.IntRange(1, 6).Draw(t, "nbatch")
	default:
		c.Mode = "both"
		nSend = rapid.IntRange(1, 2).Draw(t, "nsend")
		nBatch = rapid.IntRange(1, 3).Draw(t, "nbatch")
	}
	if nSend > 0 {
		c.SubFee = rapid.IntRange(0, 3).Draw(t, "subfee") == 0
	}
	n := nSend + nBatch
	// the total the user types, chosen relative to the balance
	base := sure
	if rapid.IntRange(0, 4).Draw(t, "usemax") == 0 {
		base = max
	}
	exact := base // typed total that consumes the whole balance
	if !c.SubFee {
		if base >= fee {
			exact = base - fee
		} else {
			exact = 0
		}
	}
	var total uint64
	target := rapid.IntRange(0, 9).Draw(t, "target")
	switch target {
	case 0:
		total = exact
	case 1:
		total = exact + 1
	case 2:
		if exact > 0 {
			total = exact - 1
		}
	case 3:
		total = base
	case 4:
		total = exact + rapid.Uint64Range(1, 1000000).Draw(t, "over")
	case 5:
		total = uint64(n) * rapid.SampledFrom([]uint64{1, 546, 1000}).Draw(t, "tiny")
	default:
		if exact > 0 {
			total = rapid.Uint64Range(1, exact).Draw(t, "part")
		}
	}
	if total < uint64(n) {
		total = uint64(n)
	}
	amounts := make([]uint64, n)
	left := total
	for i := 0; i < n-1; i++ {
		capv := left - uint64(n-1-i)
		share := capv / uint64(n-i)
		if share < 1 {
			share = 1
		}
		amounts[i] = rapid.Uint64Range(1, share).Draw(t, "am")
		left -= amounts[i]
	}
	amounts[n-1] = left
	// two thirds of the non-final amounts move to a nearby value whose 8-decimal string is float-fragile (same
	// parser as the fee); the last amount keeps the total where it was aimed
	for i := 0; i < n-1; i++ {
		if rapid.IntRange(0, 2).Draw(t, "am_fragile") != 0 {
			if v := nextFragile(amounts[i]); v-amounts[i] < amounts[n-1] {
				amounts[n-1] -= v - amounts[i]
				amounts[i] = v
			}
		}
	}
	if n == 1 && target >= 5 && rapid.Bool().Draw(t, "am_fragile1") {
		amounts[0] = nextFragile(amounts[0])
	}
	if c.SubFee && rapid.IntRange(0, 9).Draw(t, "f_under") != 0 && amounts[0] < fee {
		// keep -f inside its meaningful domain most of the time: the first amount covers the fee
		amounts[0] = fee + rapid.Uint64Range(0, 1000).Draw(t, "f_pad")
	}
	for i := 0; i < n; i++ {
		d := dest{spk: genSpk(t, "d", 20), Amount: amounts[i], Fmt: rapid.IntRange(0, 5).Draw(t, "fmt")}
		if rapid.IntRange(0, 3).Draw(t, "pad") == 0 {
			d.Lead, d.Trail = rapid.IntRange(0, 2).Draw(t, "lead"), rapid.IntRange(0, 3).Draw(t, "trail")
		}
		if i < nSend {
			c.Send = append(c.Send, d)
		} else {
			c.Batch = append(c.Batch, d)
		}
	}
	if nBatch > 0 {
		c.BatchNoNL = rapid.Bool().Draw(t, "batch_nonl")
		c.BatchCRLF = rapid.IntRange(0, 2).Draw(t, "batch_crlf") == 0
		if rapid.IntRange(0, 3).Draw(t, "batch_cmt") == 0 {
			c.BatchComment = rapid.IntRange(1, 1<<uint(nBatch)-1).Draw(t, "batch_cmtmask")
		}
	}
	if rapid.IntRange(0, 9).Draw(t, "change") < 3 {
		s := genSpk(t, "chg", 40)
		c.Change = &s
	}
	if rapid.IntRange(0, 9).Draw(t, "msg") < 3 {
		// 1..100 bytes, with weight on the lengths where the push encoding changes (75/76) and the relay limits (80/83)
		k := rapid.SampledFrom([]int{75, 76, 77, 1, 2, 40, 74, 78, 80, 83, 84, 100}).Draw(t, "msglen")
		if rapid.IntRange(0, 2).Draw(t, "msgany") == 0 {
			k = rapid.IntRange(1, 100).Draw(t, "msglen2")
		}
		if rapid.IntRange(0, 4).Draw(t, "msgwide") == 0 {
			rs := make([]rune, (k+2)/3)
			for i := range rs {
				rs[i] = msgRunes[rapid.IntRange(0, len(msgRunes)-1).Draw(t, "mr")]
			}
			c.Msg = "m" + strings.TrimSpace(string(rs)) + "."
		} else {
			b := make([]byte, k)
			for i := range b {
				b[i] = "abcdefghijklmnopqrstuvwxyzABCDEFGHIJKLMNOPQRSTUVWXYZ0123456789 .,:;!?_/"[rapid.IntRange(0, 70).Draw(t, "mc")]
			}
			b[0], b[k-1] = 'M', '.'
			c.Msg = string(b)
		}
	}
	if rapid.IntRange(0, 9).Draw(t, "seq") < 3 {
		v := rapid.SampledFrom([]int64{-1, -2, -3, 0, 1, 144, 0x00400001, 0x80000000, 0xfffffffd, 0xffffffff}).Draw(t, "seqv")
		c.Seq = &v
	}
	if rapid.IntRange(0, 9).Draw(t, "lock") < 2 {
		v := rapid.SampledFrom([]uint32{0, 1, 800000, 499999999, 500000000, 1700000000, 0xffffffff}).Draw(t, "lockv")
		c.Lock = &v
	}
	if rapid.IntRange(0, 9).Draw(t, "txver") < 2 {
		v := rapid.SampledFrom([]uint32{0, 1, 2, 3, 0x7fffffff, 0xffffffff}).Draw(t, "txverv")
		c.TxVer = &v
	}
	c.UseAll = rapid.IntRange(0, 5).Draw(t, "useall") == 0
	c.NoApply = rapid.IntRange(0, 7).Draw(t, "noapply") == 0
	c.Second = !c.NoApply && rapid.IntRange(0, 2).Draw(t, "second") != 0
	if nSend > 0 && rapid.IntRange(0, 5).Draw(t, "sign") == 0 {
		// -sign with -send: the message is signed first, then main() builds the wallet again for the transaction
		// (main() goes on after signing only when -send is given; with -batch alone it stops after the signature)
		k := rapid.IntRange(0, 19).Draw(t, "signkey")
		c.SignKey = &k
		if c.Msg == "" {
			c.Msg = "signed " + fmt.Sprint(k)
		}
	}
	return c
}

func TestWalletTx(t *testing.T) {
	if _, err := walletBinary("wallet-c13"); err != nil {
		t.Fatal(err)
	}
	pbt.Check(t, pbt.Cfg{Name: "wallet_tx", Quick: 3000, Thorough: 100000}, func(r *pbt.Run) {
		c := genCase(r.T)
		r.Case(c)
		info, err := checkCase(c)
		r.Class("mode_" + c.Mode)
		r.Class("atype_" + c.W.AType)
		if info.outcome != "" {
			r.Class(info.outcome)
		}
		var kinds []string
		for k := range info.inTypes {
			kinds = append(kinds, k)
		}
		sort.Strings(kinds)
		for _, k := range kinds {
			r.Class("spends_" + k)
		}
		if len(kinds) >= 2 {
			r.Class("inputs_of_different_types")
		}
		if info.change {
			r.Class("change_output")
		}
		for _, o := range []struct {
			name string
			on   bool
		}{{"-f", c.SubFee}, {"-change", c.Change != nil}, {"-msg", c.Msg != ""}, {"-seq", c.Seq != nil},
			{"-locktime", c.Lock != nil}, {"-txver", c.TxVer != nil}, {"-useallinputs", c.UseAll}, {"-rfc6979", c.RFC6979}, {"-minsig", c.MinSig},
			{"-fee", c.FeeFlag != ""}, {"testnet", c.W.Testnet}} {
			if o.on {
				r.Class("opt_" + o.name)
			}
		}
		if len(c.Batch) > 0 {
			if c.BatchNoNL {
				r.Class("batch_last_line_without_newline")
			}
			if c.BatchCRLF {
				r.Class("batch_crlf")
			}
			if c.BatchComment != 0 {
				r.Class("batch_comment_lines")
			}
			if len(c.Batch) == 1 {
				r.Class("batch_one_line")
			}
		}
		if c.Mode != "raw" {
			if floatFragile(feeOf(c)) {
				r.Class("fee_float_fragile")
			}
			frag, padded := false, false
			for _, d := range append(append([]dest{}, c.Send...), c.Batch...) {
				frag = frag || floatFragile(d.Amount)
				padded = padded || d.Lead+d.Trail > 0
			}
			if frag {
				r.Class("amount_float_fragile")
			}
			if padded {
				r.Class("spaces_around_pairs")
			}
		}
		if len(c.W.Others) > 0 {
			r.Class("imported_keys")
		}
		if c.Msg != "" {
			switch n := len(c.Msg); {
			case n < 75:
				r.Class("msg_below_75_bytes")
			case n <= 77:
				r.Class(fmt.Sprintf("msg_%d_bytes", n))
			default:
				r.Class("msg_above_77_bytes")
			}
		}
		if c.UnspentNoNL {
			r.Class("unspent_last_line_without_newline")
		}
		if c.UnspentCRLF {
			r.Class("unspent_crlf")
		}
		if info.second {
			r.Class("second_payment_from_updated_balance")
		}
		if info.msgSigned {
			r.Class("opt_-sign_with_-send")
		}
		if c.W.SeedPfx != "" {
			r.Class("seed_prefix")
		}
		if info.outcome == "written" && !info.change {
			r.Class("whole_balance_no_change")
		}
		if c.Mode == "raw" {
			r.Class(fmt.Sprintf("raw_signed_%d_of_%d", info.rawSigned, info.nIn))
		}
		if len(kinds) >= 2 || info.change || c.SubFee || c.Mode == "raw" {
			r.NonTrivial()
		}
		if err != nil {
			r.Failf("%v", err)
		}
	})
}
