package exp
import ("testing";"fmt";"math/big";"crypto/sha256";"github.com/piotrnar/gocoin/lib/secp256k1")
func TestExp(t *testing.T) {
	hist := map[int]int{}
	tot := 0
	for i:=0;i<400000;i++ {
		h := sha256.Sum256([]byte(fmt.Sprint("x",i)))
		var n secp256k1.Number; n.SetBytes(h[:])
		var r secp256k1.XYZ; secp256k1.ECmultGen(&r,&n)
		var xy secp256k1.XY; xy.SetXYZ(&r)
		raw := secp256k1.VerifLimbs(&xy.Y)
		c := xy.Y; c.Normalize()
		nl := secp256k1.VerifLimbs(&c)
		same := true
		for j:=range raw { if raw[j]!=nl[j] {same=false} }
		if !same {
			tot++
			v := new(big.Int); for j:=4;j>=0;j-- { v.Lsh(v,52); v.Add(v,new(big.Int).SetUint64(nl[j])) }
			hist[v.BitLen()]++
			if tot<4 { fmt.Printf("raw %x norm %x\n", raw, nl) }
		}
	}
	fmt.Println(tot, hist)
}
