// Command racecmd is the race-detector half of the C09 multi-pack block test.  The driver builds it with
// `go build -race -tags verif` (check.json "extra_builds", output .build/c09race); the test binary feeds it one
// JSON blocklib.ParCase per line.  For every case the block of RaceNTx transactions is built, decoded Reps times
// with btc.NewBlock + BuildTxList (parallel hashing packs) and compared with ref/wire: "OK <n>" / "FAIL <n> <msg>".
// A data race makes the Go runtime print its report and exit with code 66 (GORACE=halt_on_error=1 exitcode=66
// is set by the caller); the case in progress is the one after the last verdict line.
package main

import (
	"bufio"
	"bytes"
	"encoding/json"
	"fmt"
	"os"
	"strings"

	"verif/props/c09/blocklib"
)

func main() {
	in := bufio.NewReaderSize(os.Stdin, 1<<20)
	out := bufio.NewWriter(os.Stdout)
	defer out.Flush()
	for n := 0; ; n++ {
		line, err := in.ReadBytes('\n')
		if len(line) > 1 {
			var c blocklib.ParCase
			var cc blocklib.ConcCase
			verdict := ""
			if bytes.HasPrefix(line, []byte("CONC ")) {
				// transactions (and small blocks) decoded and hashed by several goroutines at once
				if e := json.Unmarshal(line[5:], &cc); e != nil {
					verdict = "harness: bad case: " + e.Error()
				} else if _, e := blocklib.RunConcurrent(cc); e != nil {
					verdict = e.Error()
				}
			} else if e := json.Unmarshal(line, &c); e != nil {
				verdict = "harness: bad case: " + e.Error()
			} else {
				b := blocklib.Build(c, c.RaceNTx)
				r, e := blocklib.MakeRef(b)
				if e != nil {
					verdict = e.Error()
				}
				for i := 0; verdict == "" && i < max(1, c.Reps); i++ {
					if e := blocklib.Decode(b, r); e != nil {
						verdict = e.Error()
					}
				}
			}
			if verdict != "" {
				fmt.Fprintf(out, "FAIL %d %s\n", n, strings.ReplaceAll(verdict, "\n", " "))
			} else {
				fmt.Fprintf(out, "OK %d\n", n)
			}
			out.Flush()
		}
		if err != nil {
			return
		}
	}
}
