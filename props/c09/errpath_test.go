package c09

// block_error_path: what the client calls on a Block object AFTER decoding it failed (or succeeded).
// client/network netBlockReceived: the payload is put into the Block made from the header, PostCheckBlock runs
// BuildTxList, and on an error Block.MerkleRootMatch() decides between "corrupt copy, ask another peer" and "wrongly
// mined block, give it up"; lib/others/utils/fetchbl.go and tools do NewBlock + BuildTxList + MerkleRootMatch.
// Blocks here have a header whose merkle root is the reference root of their transactions, then are malformed.
// Oracle: none of the calls panics; MerkleRootMatch() is true exactly when the bytes decode (ref/wire) to the
// announced number (>= 1) of transactions whose merkle root, computed without a CVE-2012-2459 duplicate pair, equals
// the header's; a second BuildTxList gives the same verdict; UpdateContent with a good block repairs the object.

import (
	"bytes"
	"encoding/hex"
	"encoding/json"
	"fmt"
	"testing"

	"github.com/piotrnar/gocoin/lib/btc"
	"pgregory.net/rapid"
	"verif/pbt"
	"verif/ref/wire"
)

type errPathCase struct {
	Kind        string `json:"kind"`
	Hex         string `json:"hex"`             // the payload
	Good        string `json:"good"`            // a well-formed block with a matching merkle root (for UpdateContent)
	HeaderFirst bool   `json:"header_first"`    // the Block is made from the 80-byte header, the payload assigned to Raw (as the network code does)
	Sweep       bool   `json:"sweep,omitempty"` // run every prefix of the payload as well
}

func init() {
	pbt.RegisterReplay("block_error_path", func(raw json.RawMessage) error {
		var c errPathCase
		if err := json.Unmarshal(raw, &c); err != nil {
			return err
		}
		return checkErrPath(c)
	})
}

// wantMatch: the reference's answer to "is this payload a block whose transactions hash to the header's merkle root"
func wantMatch(b []byte) (decodes bool, match bool) {
	rbl, _, err := wire.DecodeBlock(b)
	if err != nil || len(rbl.Txs) == 0 {
		return false, false
	}
	root, mutated := rbl.TxMerkleRoot()
	return true, !mutated && root == rbl.Header.MerkleRoot
}

func errPathOnce(b []byte, good []byte, headerFirst bool) (err error) {
	stage := "NewBlock"
	defer func() {
		if p := recover(); p != nil {
			err = fmt.Errorf("panic in %s on a %d-byte block payload (%s): %v", stage, len(b), short(b), p)
		}
	}()
	var bl *btc.Block
	var e error
	if headerFirst {
		if len(b) < 81 {
			return nil // PostCheckBlock refuses such a payload before anything is decoded
		}
		if bl, e = btc.NewBlock(b[:80]); e != nil {
			return fmt.Errorf("NewBlock refuses an 80-byte header: %v", e)
		}
		bl.Raw = b
	} else if bl, e = btc.NewBlock(b); e != nil {
		return nil
	}
	decodes, match := wantMatch(b)
	for call := 1; call <= 2; call++ {
		stage = fmt.Sprintf("BuildTxList (call %d)", call)
		e = bl.BuildTxList()
		if decodes != (e == nil) {
			return fmt.Errorf("BuildTxList call %d: error=%v, the reference decodes=%v (payload %s)", call, e, decodes, short(b))
		}
		stage = fmt.Sprintf("MerkleRoot/MerkleRootMatch after BuildTxList call %d (error: %v; %d of %d transactions decoded)", call, e, len(bl.Txs), bl.TxCount)
		if !bytes.Equal(bl.MerkleRoot(), b[36:68]) {
			return fmt.Errorf("Block.MerkleRoot() is not the header's field")
		}
		got := bl.MerkleRootMatch()
		if got != match {
			return fmt.Errorf("MerkleRootMatch() = %v after BuildTxList call %d (error: %v; %d of %d announced transactions decoded); the payload decodes completely: %v, its transactions hash to the header's merkle root without a duplicate pair: %v (payload %s)",
				got, call, e, len(bl.Txs), bl.TxCount, decodes, match, short(b))
		}
		if e == nil && len(bl.Txs) > 0 { // GetMerkle is only called on decoded blocks (chain.PostCheckBlock, tools)
			stage = "GetMerkle"
			rbl, _, _ := wire.DecodeBlock(b)
			root, mutated := rbl.TxMerkleRoot()
			gr, gm := bl.GetMerkle()
			if !bytes.Equal(gr, root[:]) || gm != mutated {
				return fmt.Errorf("GetMerkle() = %x mutated=%v, reference %x mutated=%v", gr, gm, root, mutated)
			}
		}
	}
	// the same object gets a good copy of a block (as after asking another peer)
	stage = "UpdateContent + BuildTxList with a good block"
	if e := bl.UpdateContent(good); e != nil {
		return fmt.Errorf("UpdateContent refuses a valid block: %v", e)
	}
	if e := bl.BuildTxList(); e != nil {
		return fmt.Errorf("BuildTxList after UpdateContent with a valid block: %v", e)
	}
	if err := blockAgainstRef(bl, good, "after UpdateContent with a valid block"); err != nil {
		return err
	}
	stage = "MerkleRootMatch after UpdateContent"
	if !bl.MerkleRootMatch() {
		return fmt.Errorf("MerkleRootMatch() = false for a well-formed block with the right merkle root (after UpdateContent on a Block whose first decoding failed=%v)", !decodes)
	}
	return nil
}

func checkErrPath(c errPathCase) error {
	b, _ := hex.DecodeString(c.Hex)
	good, _ := hex.DecodeString(c.Good)
	if err := errPathOnce(b, good, c.HeaderFirst); err != nil {
		return err
	}
	if c.Sweep {
		for i := 0; i < len(b); i++ {
			if err := errPathOnce(b[:i:i], good, c.HeaderFirst); err != nil {
				return fmt.Errorf("prefix of %d bytes: %v", i, err)
			}
		}
	}
	return nil
}

// a block whose header commits to its transactions
func committedBlock(t *rapid.T, label string, ntx int) (hdr []byte, txs []*wire.Tx) {
	for i := 0; i < ntx; i++ {
		tx := genRefTx(t, false)
		if len(tx.In) == 0 {
			tx.In = append(tx.In, wire.TxIn{Sequence: 1})
		}
		if len(tx.In) > 4 {
			tx.In = tx.In[:4]
		}
		if len(tx.Out) > 4 {
			tx.Out = tx.Out[:4]
		}
		tx.LockTime = uint32(i) // distinct transactions
		txs = append(txs, tx)
	}
	hdr = fill(rapid.Uint64().Draw(t, label+"hdr"), 80)
	root, _ := (&wire.Block{Txs: txs}).TxMerkleRoot()
	copy(hdr[36:68], root[:])
	return
}

var errPathKinds = []string{"genuine", "count_raised_junk", "count_raised_junk", "first_tx_broken", "first_tx_broken", "count_lowered", "junk_appended", "truncated",
	"wrong_root", "duplicated_last_tx", "later_tx_broken", "count_zero", "prefix_sweep"}

func TestBlockErrorPath(t *testing.T) {
	pbt.Check(t, pbt.Cfg{Name: "block_error_path", Quick: 16000, Thorough: 600000}, func(r *pbt.Run) {
		kind := rapid.SampledFrom(errPathKinds).Draw(r.T, "kind")
		ntx := rapid.SampledFrom([]int{1, 2, 3, 4, 5, 7, 8, 30}).Draw(r.T, "ntx")
		if kind == "prefix_sweep" {
			ntx = rapid.IntRange(1, 3).Draw(r.T, "ntxs")
		}
		hdr, txs := committedBlock(r.T, "", ntx)
		raw, fields := encodeBlock(hdr, txs)
		ghdr, gtxs := committedBlock(r.T, "good", rapid.IntRange(1, 4).Draw(r.T, "goodntx"))
		good, _ := encodeBlock(ghdr, gtxs)
		c := errPathCase{Kind: kind, Good: hex.EncodeToString(good), HeaderFirst: rapid.Bool().Draw(r.T, "headerfirst")}
		out := raw
		junk := func() []byte {
			if rapid.Bool().Draw(r.T, "junkshort") {
				return rapid.SliceOfN(rapid.Byte(), 0, 9).Draw(r.T, "junk")
			}
			return fill(rapid.Uint64().Draw(r.T, "junkseed"), rapid.IntRange(10, 200).Draw(r.T, "junklen"))
		}
		firstTx := fields[0].Off + fields[0].Len
		switch kind {
		case "genuine":
		case "count_raised_junk":
			out = append(replaceField(raw, fields[0], wire.CompactSize(uint64(ntx+rapid.IntRange(1, 3).Draw(r.T, "raise")))), junk()...)
		case "first_tx_broken":
			out = append([]byte{}, raw...)
			switch rapid.IntRange(0, 2).Draw(r.T, "how") {
			case 0: // input count of the first transaction made non-canonical / huge
				out = append(append(append([]byte{}, raw[:firstTx+4]...), 0xfd, 0x01, 0x00), raw[firstTx+5:]...)
			case 1:
				out = raw[:firstTx+rapid.IntRange(0, 9).Draw(r.T, "cut")]
			default:
				out = append(append([]byte{}, raw[:firstTx]...), junk()...)
			}
		case "count_lowered":
			if ntx > 1 {
				out = replaceField(raw, fields[0], wire.CompactSize(uint64(ntx-1)))
			}
		case "junk_appended":
			out = append(append([]byte{}, raw...), junk()...)
		case "truncated":
			out = raw[:rapid.IntRange(0, len(raw)-1).Draw(r.T, "cut")]
		case "wrong_root":
			out = append([]byte{}, raw...)
			out[36+rapid.IntRange(0, 31).Draw(r.T, "pos")] ^= 1
		case "duplicated_last_tx": // CVE-2012-2459: same root, one transaction more
			dup := append(append([]*wire.Tx{}, txs...), txs[len(txs)-1])
			out, _ = encodeBlock(hdr, dup)
		case "later_tx_broken":
			if len(fields) > 2 {
				f := fields[rapid.IntRange(1, len(fields)-1).Draw(r.T, "fi")]
				e, _ := csForm(f.Val, 9)
				out = replaceField(raw, f, e)
			}
		case "count_zero":
			out = replaceField(raw, fields[0], []byte{0})
		case "prefix_sweep":
			c.Sweep = true
			if rapid.Bool().Draw(r.T, "raised") {
				out = append(replaceField(raw, fields[0], wire.CompactSize(uint64(ntx+1))), junk()...)
			}
		}
		c.Hex = hex.EncodeToString(out)
		r.Case(c)
		r.Class(kind)
		decodes, match := wantMatch(out)
		switch {
		case match:
			r.Class("ref: root matches")
		case decodes:
			r.Class("ref: decodes, root does not match")
		default:
			r.Class("ref: does not decode")
			if rbl, _, err := wire.DecodeBlock(append(append([]byte{}, out[:min(len(out), 80)]...), 0)); err == nil && rbl != nil && len(out) > 81 {
				r.Class("decoding fails after the header")
			}
		}
		r.NonTrivial()
		if err := checkErrPath(c); err != nil {
			r.Failf("%v", err)
		}
	})
}
