import json,sys,os
M={
 "m1_nowitsize_off_by_2":("tx.go","tx.NoWitSize = uint32(offs - 2 + 4)","tx.NoWitSize = uint32(offs + 4)"),
 "m2_witness_loop_over_outputs":("tx.go","		tx.SegWit = make([][][]byte, len(tx.TxIn))\n		for i := range tx.TxIn {","		tx.SegWit = make([][][]byte, len(tx.TxIn))\n		for i := range tx.TxOut {"),
 "m3_noncanonical_accepted":("funcs.go","if n == 0 || n != VLenSize(uvl) || uvl > MAX_SERIALIZED_SIZE {","if n == 0 || uvl > MAX_SERIALIZED_SIZE {"),
 "m4_sethash_txid_over_witness":("tx.go","		tx.Hash.Calc(nowit_raw)","		tx.Hash.Hash = h"),
 "m5_no_recover_in_newtx":("tx.go","""		if r := recover(); r != nil {
			println("NewTx failed")
			tx = nil
			offs = 0
		}""","""		if false {
			println("NewTx failed")
			tx = nil
			offs = 0
		}"""),
 "m6_input_count_unbounded":("tx.go","	if le > (len(b)-offs)/MIN_TXIN_SIZE {","	if false && le > (len(b)-offs)/MIN_TXIN_SIZE {"),
 "m7_blockweight_without_count_prefix":("block.go","	block_weight := 4 * (80 + uint64(VLenSize(uint64(bl.TxCount))))","	block_weight := 4 * (80 + uint64(0*VLenSize(uint64(bl.TxCount))))"),
 "m8_superfluous_witness_accepted":("tx.go","		if !has_witness {","		if false && !has_witness {"),
 "m9_vsize_rounds_down":("tx.go","	return (3*int(tx.NoWitSize+1) + int(tx.Size)) >> 2","	return (3*int(tx.NoWitSize) + int(tx.Size)) >> 2"),
 "m10_txcount_unbounded":("block.go","	if bl.TxCount > (len(bl.Raw)-bl.TxOffset)/MIN_TX_SIZE {","	if false && bl.TxCount > (len(bl.Raw)-bl.TxOffset)/MIN_TX_SIZE {"),
}
for name,(f,old,new) in M.items():
    s=open("/repo/lib/btc/"+f).read()
    assert s.count(old)==1,(name,s.count(old))
    os.makedirs(name,exist_ok=True)
    open(name+"/"+f,"w").write(s.replace(old,new))
    json.dump({"Replace":{"/repo/lib/btc/"+f:"/tmp/c09mut/%s/%s"%(name,f)}},open(name+"/ov.json","w"))
print(" ".join(M))
