package c09

// tx_reuse / block_reuse: the "second use of an object".  btc.NewTx + SetHash(raw) is followed by what the wallet
// does with a decoded transaction (wallet -raw: raw_tx_from_file = NewTx + SetHash; signing sets or extends the
// ScriptSig of an input - e.g. the redeem-script push of a P2SH-P2WPKH input -, adds or replaces witness stacks, a
// second signer completes a partially signed transaction; write_tx_file = SerializeNew + SetHash), all on the SAME
// object: after every step the object is re-serialised and SetHash(newRaw) is called again.  Oracle: the new bytes
// decode (ref/wire) to what the object holds, and txid, wtxid, Size, NoWitSize, Weight(), VSize() equal the
// reference's values for the new bytes - and what a fresh NewTx(newRaw)+SetHash(newRaw) reports.  Block objects:
// BuildTxList called again on the same object, and UpdateContent with another block's bytes followed by BuildTxList.

import (
	"bytes"
	"encoding/hex"
	"encoding/json"
	"fmt"
	"testing"

	"github.com/piotrnar/gocoin/lib/btc"
	"pgregory.net/rapid"
	"verif/pbt"
	"verif/ref/wire"
)

type reuseOp struct {
	Kind  string   `json:"kind"`         // set_scriptsig | extend_scriptsig | set_witness | add_input | add_output | set_locktime
	In    int      `json:"in,omitempty"` // input index, taken modulo the current number of inputs
	Data  string   `json:"data,omitempty"`
	Items []string `json:"items,omitempty"`
	Value uint64   `json:"value,omitempty"`
}

type reuseCase struct {
	Hex      string      `json:"hex"`                // the transaction decoded first
	Steps    [][]reuseOp `json:"steps"`              // after each step: SerializeNew + SetHash on the same object
	Stripped bool        `json:"stripped,omitempty"` // also take Serialize() (no witness) once at the end and SetHash that on a fresh decode of it
}

func init() {
	pbt.RegisterReplay("tx_reuse", func(raw json.RawMessage) error {
		var c reuseCase
		if err := json.Unmarshal(raw, &c); err != nil {
			return err
		}
		return checkReuse(c)
	})
	pbt.RegisterReplay("block_reuse", func(raw json.RawMessage) error {
		var c blockReuseCase
		if err := json.Unmarshal(raw, &c); err != nil {
			return err
		}
		return checkBlockReuse(c)
	})
}

func applyReuseOp(tx *btc.Tx, op reuseOp) {
	data, _ := hex.DecodeString(op.Data)
	switch op.Kind {
	case "set_scriptsig":
		tx.TxIn[op.In%len(tx.TxIn)].ScriptSig = data
	case "extend_scriptsig":
		in := tx.TxIn[op.In%len(tx.TxIn)]
		in.ScriptSig = append(append([]byte{}, in.ScriptSig...), data...)
	case "set_witness":
		if tx.SegWit == nil { // as Tx.SignWitness does
			tx.SegWit = make([][][]byte, len(tx.TxIn))
		}
		var st [][]byte
		for _, it := range op.Items {
			b, _ := hex.DecodeString(it)
			st = append(st, b)
		}
		tx.SegWit[op.In%len(tx.TxIn)] = st
	case "add_input":
		in := &btc.TxIn{Sequence: 0xfffffffe, ScriptSig: data}
		copy(in.Input.Hash[:], fill(op.Value, 32))
		in.Input.Vout = uint32(op.Value % 5)
		tx.TxIn = append(tx.TxIn, in)
		if tx.SegWit != nil {
			tx.SegWit = append(tx.SegWit, nil)
		}
	case "add_output":
		tx.TxOut = append(tx.TxOut, &btc.TxOut{Value: op.Value, Pk_script: data})
	case "set_locktime":
		tx.Lock_time = uint32(op.Value)
	}
}

func reported(tx *btc.Tx) string {
	return fmt.Sprintf("txid %x wtxid %x Size %d NoWitSize %d Weight %d VSize %d", tx.Hash.Hash, tx.WTxID().Hash, tx.Size, tx.NoWitSize, tx.Weight(), tx.VSize())
}

func compareWithRef(tx *btc.Tx, raw []byte, what string) error {
	rtx, used, err := wire.DecodeTx(raw)
	if err != nil || used != len(raw) {
		return fmt.Errorf("%s: the re-serialised object (%s) is not a valid encoding: %v", what, short(raw), err)
	}
	if err := sameTx(tx, rtx); err != nil {
		return fmt.Errorf("%s: the re-serialised bytes do not decode to what the object holds: %v", what, err)
	}
	want := fmt.Sprintf("txid %x wtxid %x Size %d NoWitSize %d Weight %d VSize %d", rtx.TxID(), rtx.WTxID(), len(raw), len(rtx.Serialize(false)), rtx.Weight(), rtx.VSize())
	if got := reported(tx); got != want {
		return fmt.Errorf("%s: the object reports %s; the definitions give %s (bytes %s)", what, got, want, short(raw))
	}
	fresh, n := btc.NewTx(raw)
	if fresh == nil || n != len(raw) {
		return fmt.Errorf("%s: btc.NewTx refuses the object's own serialisation %s", what, short(raw))
	}
	fresh.SetHash(raw)
	if got := reported(fresh); got != want {
		return fmt.Errorf("%s: a fresh decode reports %s; the definitions give %s", what, got, want)
	}
	return nil
}

func checkReuse(c reuseCase) (err error) {
	defer func() {
		if p := recover(); p != nil {
			err = fmt.Errorf("panic while re-using a decoded transaction: %v", p)
		}
	}()
	raw, _ := hex.DecodeString(c.Hex)
	tx, n := btc.NewTx(raw)
	if tx == nil || n != len(raw) || len(tx.TxIn) == 0 {
		return nil // not a start the generator makes
	}
	tx.SetHash(raw)
	if err := compareWithRef(tx, raw, "first use"); err != nil {
		return err
	}
	for si, step := range c.Steps {
		for _, op := range step {
			applyReuseOp(tx, op)
		}
		if tx.SegWit != nil {
			any := false
			for _, st := range tx.SegWit {
				any = any || len(st) > 0
			}
			if !any {
				return nil // a witness-flagged form without witness has no valid encoding; the generator does not make it
			}
		}
		nraw := tx.SerializeNew()
		tx.SetHash(nraw)
		what := fmt.Sprintf("use %d of the same object (after %d changes, SerializeNew + SetHash)", si+2, len(step))
		if err := compareWithRef(tx, nraw, what); err != nil {
			return err
		}
		before := reported(tx)
		tx.SetHash(nil) // hashes tx.Raw, which is nraw now
		if after := reported(tx); after != before {
			return fmt.Errorf("%s: SetHash(nil) on the unchanged object changes %s into %s", what, before, after)
		}
	}
	if c.Stripped {
		sraw := tx.Serialize()
		stx, n := btc.NewTx(sraw)
		if stx == nil || n != len(sraw) {
			return fmt.Errorf("btc.NewTx refuses Serialize() of the object: %s", short(sraw))
		}
		stx.SetHash(sraw)
		rtx, _, err := wire.DecodeTx(sraw)
		if err != nil {
			return fmt.Errorf("Serialize() of the object is not a valid encoding: %v", err)
		}
		if stx.Hash.Hash != tx.Hash.Hash || stx.Hash.Hash != rtx.TxID() {
			return fmt.Errorf("txid of the stripped serialisation %x, of the object %x, reference %x", stx.Hash.Hash, tx.Hash.Hash, rtx.TxID())
		}
	}
	return nil
}

var reuseScriptLens = []int{0, 23, 23, 72, 106, 107, 140, 252, 253, 254, 300, 1}

func genReuseOp(t *rapid.T, canWitness bool) reuseOp {
	kinds := []string{"set_scriptsig", "set_scriptsig", "extend_scriptsig", "set_witness", "set_witness", "add_output", "add_input", "set_locktime"}
	op := reuseOp{Kind: rapid.SampledFrom(kinds).Draw(t, "op"), In: rapid.IntRange(0, 7).Draw(t, "in")}
	blob := func(n int) string { return hex.EncodeToString(fill(rapid.Uint64().Draw(t, "blob"), n)) }
	switch op.Kind {
	case "set_scriptsig":
		n := rapid.SampledFrom(reuseScriptLens).Draw(t, "len")
		if n == 23 { // the redeem-script push of a P2SH-P2WPKH input
			op.Data = "160014" + blob(20)
		} else {
			op.Data = blob(n)
		}
	case "extend_scriptsig":
		op.Data = blob(rapid.SampledFrom([]int{1, 34, 73, 200}).Draw(t, "len"))
	case "set_witness":
		switch rapid.IntRange(0, 3).Draw(t, "shape") {
		case 0, 1:
			op.Items = []string{blob(71 + rapid.IntRange(0, 2).Draw(t, "siglen")), blob(33)}
		case 2:
			op.Items = []string{"", blob(72), blob(71), blob(rapid.SampledFrom([]int{71, 105, 253}).Draw(t, "wslen"))}
		default:
			op.Items = []string{blob(64)}
		}
	case "add_input":
		op.Value = rapid.Uint64().Draw(t, "prev")
		op.Data = blob(rapid.SampledFrom([]int{0, 23, 106}).Draw(t, "len"))
	case "add_output":
		op.Value = rapid.Uint64Range(0, 21e14).Draw(t, "value")
		op.Data = blob(rapid.SampledFrom([]int{22, 23, 25, 34, 0}).Draw(t, "len"))
	case "set_locktime":
		op.Value = uint64(rapid.Uint32().Draw(t, "lt"))
	}
	return op
}

func TestTxReuse(t *testing.T) {
	pbt.Check(t, pbt.Cfg{Name: "tx_reuse", Quick: 60000, Thorough: 2000000}, func(r *pbt.Run) {
		tx := genRefTx(r.T, false)
		if len(tx.In) == 0 {
			tx.In = append(tx.In, wire.TxIn{Sequence: 0xffffffff})
		}
		if len(tx.In) > 8 {
			tx.In = tx.In[:8]
		}
		if len(tx.Out) > 8 {
			tx.Out = tx.Out[:8]
		}
		raw, _ := encodeTx(tx)
		c := reuseCase{Hex: hex.EncodeToString(raw), Stripped: rapid.IntRange(0, 3).Draw(r.T, "stripped") == 0}
		nsteps := rapid.IntRange(1, 3).Draw(r.T, "steps")
		changesSize, addsWitness := false, false
		for i := 0; i < nsteps; i++ {
			var step []reuseOp
			for j, n := 0, rapid.IntRange(1, 3).Draw(r.T, "ops"); j < n; j++ {
				op := genReuseOp(r.T, true)
				if op.Kind != "set_locktime" && op.Kind != "set_witness" {
					changesSize = true
				}
				if op.Kind == "set_witness" {
					addsWitness = true
				}
				step = append(step, op)
			}
			c.Steps = append(c.Steps, step)
		}
		r.Case(c)
		wit := tx.HasWitness()
		switch {
		case wit && changesSize:
			r.Class("witness tx, non-witness part changed before SetHash")
		case wit:
			r.Class("witness tx, witness/locktime changed only")
		case addsWitness:
			r.Class("legacy tx that gets a witness")
		default:
			r.Class("legacy tx stays legacy")
		}
		if addsWitness && changesSize {
			r.Class("script and witness set (nested segwit signing)")
		}
		r.NonTrivial()
		pbt.AddExtra("sethash_calls_on_reused_objects", int64(nsteps))
		if err := checkReuse(c); err != nil {
			r.Failf("%v", err)
		}
	})
}

// ---------------------------------------------------------------------------------------------

type blockReuseCase struct {
	A string `json:"a"` // a valid block
	B string `json:"b"` // another valid block (or the same)
}

func blockAgainstRef(bl *btc.Block, b []byte, what string) error {
	rbl, _, err := wire.DecodeBlock(b)
	if err != nil {
		return fmt.Errorf("harness: reference refuses its own block: %v", err)
	}
	if len(bl.Txs) != len(rbl.Txs) || bl.TxCount != len(rbl.Txs) {
		return fmt.Errorf("%s: TxCount/len(Txs) %d/%d, reference %d", what, bl.TxCount, len(bl.Txs), len(rbl.Txs))
	}
	if int(bl.BlockWeight) != rbl.Weight() {
		return fmt.Errorf("%s: BlockWeight %d, reference %d", what, bl.BlockWeight, rbl.Weight())
	}
	for i, rt := range rbl.Txs {
		gt := bl.Txs[i]
		if gt.Hash.Hash != rt.TxID() || i > 0 && gt.WTxID().Hash != rt.WTxID() || int(gt.Size) != len(rt.Serialize(true)) || int(gt.NoWitSize) != len(rt.Serialize(false)) || !bytes.Equal(gt.Raw, rt.Serialize(true)) {
			return fmt.Errorf("%s: Txs[%d] hash/wtxid/Size/NoWitSize/Raw differ from the reference", what, i)
		}
	}
	return nil
}

func checkBlockReuse(c blockReuseCase) (err error) {
	defer func() {
		if p := recover(); p != nil {
			err = fmt.Errorf("panic while re-using a Block object: %v", p)
		}
	}()
	a, _ := hex.DecodeString(c.A)
	b, _ := hex.DecodeString(c.B)
	bl, e := btc.NewBlock(a)
	if e != nil {
		return fmt.Errorf("NewBlock refuses a valid block: %v", e)
	}
	for i := 1; i <= 2; i++ { // the same object, hashed twice
		if e := bl.BuildTxList(); e != nil {
			return fmt.Errorf("BuildTxList call %d refuses a valid block: %v", i, e)
		}
		if err := blockAgainstRef(bl, a, fmt.Sprintf("BuildTxList call %d on the same Block", i)); err != nil {
			return err
		}
	}
	if e := bl.BuildTxListExt(false); e != nil {
		return fmt.Errorf("BuildTxListExt(false) after BuildTxList refuses a valid block: %v", e)
	}
	if rbl, _, _ := wire.DecodeBlock(a); int(bl.BlockWeight) != rbl.Weight() || len(bl.Txs) != len(rbl.Txs) {
		return fmt.Errorf("BuildTxListExt(false) on the same Block: BlockWeight %d / %d txs, reference %d / %d", bl.BlockWeight, len(bl.Txs), rbl.Weight(), len(rbl.Txs))
	}
	// new content in the same object, as the network code does when the full block arrives for a known header
	if e := bl.UpdateContent(b); e != nil {
		return fmt.Errorf("UpdateContent refuses a valid block: %v", e)
	}
	if e := bl.BuildTxList(); e != nil {
		return fmt.Errorf("BuildTxList after UpdateContent refuses a valid block: %v", e)
	}
	return blockAgainstRef(bl, b, "BuildTxList after UpdateContent with another block's bytes")
}

func TestBlockReuse(t *testing.T) {
	pbt.Check(t, pbt.Cfg{Name: "block_reuse", Quick: 8000, Thorough: 300000}, func(r *pbt.Run) {
		mk := func(label string) []byte {
			hdr := fill(rapid.Uint64().Draw(r.T, label+"hdr"), 80)
			n := rapid.SampledFrom([]int{1, 2, 3, 5, 40}).Draw(r.T, label+"ntx")
			var txs []*wire.Tx
			for i := 0; i < n; i++ {
				tx := genRefTx(r.T, false)
				if len(tx.In) == 0 {
					tx.Out = nil
				}
				txs = append(txs, tx)
			}
			raw, _ := encodeBlock(hdr, txs)
			return raw
		}
		a := mk("a")
		b := a
		if rapid.IntRange(0, 4).Draw(r.T, "same") != 0 {
			b = mk("b")
		}
		c := blockReuseCase{A: hex.EncodeToString(a), B: hex.EncodeToString(b)}
		r.Case(c)
		if len(a) != len(b) {
			r.Class("content replaced by a block of another size")
		} else {
			r.Class("same size")
		}
		r.NonTrivial()
		if err := checkBlockReuse(c); err != nil {
			r.Failf("%v", err)
		}
	})
}
