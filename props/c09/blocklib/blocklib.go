// Package blocklib is the part of the C09 check that is shared between the test binary and the
// race-detector helper (props/c09/racecmd): deterministic construction of large multi-pack blocks and
// the comparison of btc.NewBlock + Block.BuildTxList (parallel hashing, 4096-byte packs) with ref/wire.
package blocklib

import (
	"encoding/binary"
	"fmt"
	"runtime"
	"sync"
	"sync/atomic"

	"github.com/piotrnar/gocoin/lib/btc"
	"verif/ref/wire"
)

// ParCase describes a block by numbers only: NTx transactions derived from Seed, each with one input whose
// scriptSig has ScriptLen (+0..15) bytes, one or two outputs, and a witness on every WitEvery-th one (0 = never);
// every BigEvery-th transaction (0 = never) carries a 5000-byte script, i.e. fills a hashing pack on its own.
type ParCase struct {
	Seed      uint64 `json:"seed"`
	NTx       int    `json:"ntx"`
	ScriptLen int    `json:"script_len"`
	WitEvery  int    `json:"wit_every"`
	BigEvery  int    `json:"big_every"`
	Reps      int    `json:"reps"`     // decodings per GOMAXPROCS value
	Procs     []int  `json:"procs"`    // GOMAXPROCS values (in-process run)
	RaceNTx   int    `json:"race_ntx"` // size of the block handed to the race-detector helper (0 = none)
}

func mix(x uint64) uint64 {
	x += 0x9e3779b97f4a7c15
	x = (x ^ x>>30) * 0xbf58476d1ce4e5b9
	x = (x ^ x>>27) * 0x94d049bb133111eb
	return x ^ x>>31
}

func fill(seed uint64, n int) []byte {
	b := make([]byte, n)
	for i := 0; i < n; i += 8 {
		seed = mix(seed)
		for j := 0; j < 8 && i+j < n; j++ {
			b[i+j] = byte(seed >> (8 * j))
		}
	}
	return b
}

// Build returns the serialized block (random header, ntx transactions).
func Build(c ParCase, ntx int) []byte {
	bl := &wire.Block{}
	hdr, _ := wire.DecodeHeader(fill(c.Seed^0x68647200, 80))
	bl.Header = *hdr
	for i := 0; i < ntx; i++ {
		s := mix(c.Seed + uint64(i)*0x632be59bd9b4e019)
		tx := &wire.Tx{Version: 1 + uint32(s&1), LockTime: uint32(s >> 40 & 3)}
		var in wire.TxIn
		copy(in.PrevHash[:], fill(s, 32))
		in.PrevIndex = uint32(s >> 8 & 7)
		if i == 0 {
			in.PrevHash = [32]byte{}
			in.PrevIndex = 0xffffffff
		}
		n := c.ScriptLen + int(s>>16&15)
		if c.BigEvery > 0 && i%c.BigEvery == c.BigEvery-1 {
			n = 5000
		}
		in.ScriptSig = fill(s^1, n)
		in.Sequence = 0xffffffff - uint32(s>>20&1)
		if c.WitEvery > 0 && i%c.WitEvery == 0 {
			in.Witness = [][]byte{fill(s^2, 71+int(s>>24&1)), fill(s^3, 33)}
		}
		tx.In = []wire.TxIn{in}
		for j := 0; j <= int(s>>28&1); j++ {
			tx.Out = append(tx.Out, wire.TxOut{Value: binary.LittleEndian.Uint64(fill(s^uint64(4+j), 8)) % 21e14, PkScript: fill(s^uint64(6+j), 22+3*j)})
		}
		bl.Txs = append(bl.Txs, tx)
	}
	return bl.Serialize(true)
}

// Ref is what the reference says about a block.
type Ref struct {
	Weight int
	TxIDs  [][32]byte
	WTxIDs [][32]byte
	Packs  int // (approximate) number of 4096-byte hashing packs
}

func MakeRef(b []byte) (*Ref, error) {
	rb, used, err := wire.DecodeBlock(b)
	if err != nil || used != len(b) {
		return nil, fmt.Errorf("harness: the reference refuses its own block: %v (%d of %d bytes)", err, used, len(b))
	}
	r := &Ref{Weight: rb.Weight(), Packs: (len(b) - 80) / 4096}
	for _, t := range rb.Txs {
		r.TxIDs = append(r.TxIDs, t.TxID())
		r.WTxIDs = append(r.WTxIDs, t.WTxID())
	}
	return r, nil
}

// Decode runs btc.NewBlock + BuildTxList once and compares what it reports with the reference.
func Decode(b []byte, r *Ref) error {
	bl, err := btc.NewBlock(b)
	if err == nil {
		err = bl.BuildTxList()
	}
	if err != nil {
		return fmt.Errorf("NewBlock+BuildTxList refuse a valid %d-transaction block: %v", len(r.TxIDs), err)
	}
	if len(bl.Txs) != len(r.TxIDs) {
		return fmt.Errorf("%d transactions, reference %d", len(bl.Txs), len(r.TxIDs))
	}
	if int(bl.BlockWeight) != r.Weight {
		return fmt.Errorf("Block.BlockWeight = %d, BIP141 block weight is %d (short by %d; block of %d bytes, %d transactions, ~%d hashing packs)",
			bl.BlockWeight, r.Weight, r.Weight-int(bl.BlockWeight), len(b), len(r.TxIDs), r.Packs)
	}
	for i, t := range bl.Txs {
		if t.Hash.Hash != r.TxIDs[i] {
			return fmt.Errorf("Txs[%d].Hash %x, reference %x", i, t.Hash.Hash, r.TxIDs[i])
		}
		if i > 0 && t.WTxID().Hash != r.WTxIDs[i] {
			return fmt.Errorf("Txs[%d].WTxID %x, reference %x", i, t.WTxID().Hash, r.WTxIDs[i])
		}
	}
	return nil
}

// ---------------------------------------------------------------------------------------------
// concurrent decoding and hashing

// ConcCase: Workers goroutines start together; each owns TxPerWorker transactions derived from Seed (WitPercent
// of them with a witness; stripped sizes drawn from Sizes, as many outputs or as one long scriptSig) and, when
// BlockPacks > 0, one block of about that many 4096-byte hashing packs.  For Rounds rounds every worker runs
// btc.NewTx + Tx.SetHash(raw) on each of its transactions (what ParseTxNet does per connection) and - every
// BlockEvery-th round - NewBlock + BuildTxList on its block; everything reported is compared with the reference
// values computed sequentially beforehand.
type ConcCase struct {
	Seed        uint64 `json:"seed"`
	Workers     int    `json:"workers"`
	Rounds      int    `json:"rounds"`
	TxPerWorker int    `json:"tx_per_worker"`
	WitPercent  int    `json:"wit_percent"`
	Sizes       []int  `json:"sizes"`
	BlockPacks  int    `json:"block_packs"`
	BlockEvery  int    `json:"block_every"`
	Procs       int    `json:"procs"` // GOMAXPROCS while the workers run (0 = leave)
}

type concTx struct {
	raw                        []byte
	txid, wtxid                [32]byte
	size, nowit, weight, vsize int
	witness                    bool
}

func concBuildTx(s uint64, witPercent int, sizes []int) *wire.Tx {
	tx := &wire.Tx{Version: 2, LockTime: uint32(s >> 50)}
	size := 100
	if len(sizes) > 0 {
		size = sizes[int(s>>8)%len(sizes)]
	}
	var in wire.TxIn
	copy(in.PrevHash[:], fill(s, 32))
	in.Sequence = 0xfffffffd
	nout := 1 + int(s>>16&1)
	if s>>20&1 == 0 {
		in.ScriptSig = fill(s^1, max(0, size-80)) // one long script
	} else {
		nout = max(1, (size-60)/31) // many outputs
	}
	if int(s>>24%100) < witPercent {
		in.Witness = [][]byte{fill(s^2, 4+int(s>>32&63)), fill(s^3, 33)}
	}
	tx.In = []wire.TxIn{in}
	for j := 0; j < nout; j++ {
		tx.Out = append(tx.Out, wire.TxOut{Value: mix(s+uint64(j)) % 21e14, PkScript: fill(s^uint64(8+j), 22)})
	}
	return tx
}

type ConcStats struct {
	SetHashCalls, WitnessCalls, BlockDecodes int64
}

// RunConcurrent executes the case; the error (if any) is the first disagreement or panic of any worker.
func RunConcurrent(c ConcCase) (st ConcStats, err error) {
	if c.Workers < 1 || c.TxPerWorker < 1 {
		return st, nil
	}
	type worker struct {
		txs   []concTx
		block []byte
		ref   *Ref
	}
	ws := make([]worker, c.Workers)
	for w := range ws {
		for j := 0; j < c.TxPerWorker; j++ {
			t := concBuildTx(mix(c.Seed^uint64(w)<<20^uint64(j)), c.WitPercent, c.Sizes)
			ct := concTx{raw: t.Serialize(true), txid: t.TxID(), wtxid: t.WTxID(), weight: t.Weight(), vsize: t.VSize(), witness: t.HasWitness()}
			ct.size, ct.nowit = len(ct.raw), len(t.Serialize(false))
			ws[w].txs = append(ws[w].txs, ct)
		}
		if c.BlockPacks > 0 {
			pc := ParCase{Seed: c.Seed + uint64(w), ScriptLen: 107, WitEvery: 2}
			ws[w].block = Build(pc, c.BlockPacks*4096/200)
			if ws[w].ref, err = MakeRef(ws[w].block); err != nil {
				return st, err
			}
		}
	}
	if c.Procs > 0 {
		defer runtime.GOMAXPROCS(runtime.GOMAXPROCS(c.Procs))
	}
	var (
		wg       sync.WaitGroup
		start    = make(chan struct{})
		stop     atomic.Bool
		mu       sync.Mutex
		firstErr error
	)
	fail := func(e error) {
		mu.Lock()
		if firstErr == nil {
			firstErr = e
		}
		mu.Unlock()
		stop.Store(true)
	}
	for w := range ws {
		wg.Add(1)
		go func(w int) {
			defer wg.Done()
			defer func() {
				if p := recover(); p != nil {
					fail(fmt.Errorf("worker %d of %d: panic while decoding/hashing concurrently: %v", w, c.Workers, p))
				}
			}()
			me := &ws[w]
			var calls, wit, blocks int64
			<-start
			for r := 0; r < c.Rounds && !stop.Load(); r++ {
				for j := range me.txs {
					t := &me.txs[j]
					tx, n := btc.NewTx(t.raw)
					if tx == nil || n != len(t.raw) {
						fail(fmt.Errorf("worker %d round %d: btc.NewTx refuses a valid %d-byte transaction (consumed %d)", w, r, len(t.raw), n))
						return
					}
					tx.SetHash(t.raw)
					calls++
					if t.witness {
						wit++
					}
					if tx.Hash.Hash != t.txid {
						fail(fmt.Errorf("worker %d of %d, round %d: txid %x after NewTx+SetHash, the double-SHA256 of the stripped serialisation is %x (witness=%v, %d bytes, stripped %d; the same call gives the right txid when nothing else runs)",
							w, c.Workers, r, tx.Hash.Hash, t.txid, t.witness, t.size, t.nowit))
						return
					}
					if tx.WTxID().Hash != t.wtxid || int(tx.Size) != t.size || int(tx.NoWitSize) != t.nowit || tx.Weight() != t.weight || tx.VSize() != t.vsize {
						fail(fmt.Errorf("worker %d of %d, round %d: wtxid/Size/NoWitSize/Weight/VSize %x/%d/%d/%d/%d, reference %x/%d/%d/%d/%d",
							w, c.Workers, r, tx.WTxID().Hash, tx.Size, tx.NoWitSize, tx.Weight(), tx.VSize(), t.wtxid, t.size, t.nowit, t.weight, t.vsize))
						return
					}
				}
				if me.block != nil && c.BlockEvery > 0 && r%c.BlockEvery == 0 {
					blocks++
					if e := Decode(me.block, me.ref); e != nil {
						fail(fmt.Errorf("worker %d of %d, round %d (blocks decoded concurrently): %v", w, c.Workers, r, e))
						return
					}
				}
			}
			atomic.AddInt64(&st.SetHashCalls, calls)
			atomic.AddInt64(&st.WitnessCalls, wit)
			atomic.AddInt64(&st.BlockDecodes, blocks)
		}(w)
	}
	close(start)
	wg.Wait()
	return st, firstErr
}
