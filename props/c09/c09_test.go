// Package c09 checks property C09: transaction and block wire decoding of gocoin (btc.NewTx,
// btc.TxSize, btc.NewBlock, Block.BuildTxList/BuildTxListExt) is exact, canonical and total.
//
// Oracles (see check.json "rule"):
//
//	D  differential against verif/ref/wire (Core's UnserializeTransaction rules)
//	R  SerializeNew() of an accepted transaction is byte-identical to the consumed bytes
//	I  no panic escapes, heap allocation around every decoder call <= 64*len(input)+64 KiB
//
// The case of every test is nothing but the input bytes (hex) plus labels, so a replay file is a
// plain regression input.
package c09

import (
	"bufio"
	"bytes"
	"encoding/binary"
	"encoding/hex"
	"encoding/json"
	"fmt"
	"os"
	"os/exec"
	"path/filepath"
	"runtime"
	"runtime/metrics"
	"strconv"
	"strings"
	"syscall"
	"testing"
	"time"

	"github.com/piotrnar/gocoin/lib/btc"
	"pgregory.net/rapid"
	"verif/pbt"
	"verif/props/c09/blocklib"
	"verif/ref/wire"
)

func TestMain(m *testing.M) {
	if mode := os.Getenv("VERIF_C09_CHILD"); mode != "" {
		childMain(mode)
		return
	}
	pbt.RegisterReplay("tx_bytes", func(raw json.RawMessage) error {
		var c byteCase
		if err := json.Unmarshal(raw, &c); err != nil {
			return err
		}
		return checkTxCase(c)
	})
	pbt.RegisterReplay("core_vectors", func(raw json.RawMessage) error {
		var c byteCase
		if err := json.Unmarshal(raw, &c); err != nil {
			return err
		}
		return checkTxCase(c)
	})
	pbt.RegisterReplay("tx_sweep", func(raw json.RawMessage) error {
		var c byteCase
		if err := json.Unmarshal(raw, &c); err != nil {
			return err
		}
		return checkTxCase(c)
	})
	pbt.RegisterReplay("block_bytes", func(raw json.RawMessage) error {
		var c byteCase
		if err := json.Unmarshal(raw, &c); err != nil {
			return err
		}
		return checkBlockCase(c)
	})
	pbt.RegisterReplay("block_parallel", func(raw json.RawMessage) error {
		var c blocklib.ParCase
		if err := json.Unmarshal(raw, &c); err != nil {
			return err
		}
		return checkParallel(c)
	})
	pbt.RegisterReplay("tx_concurrent", func(raw json.RawMessage) error {
		var c concCase
		if err := json.Unmarshal(raw, &c); err != nil {
			return err
		}
		return checkConcurrent(c)
	})
	pbt.RegisterReplay("hostile_counts", func(raw json.RawMessage) error {
		var c byteCase
		if err := json.Unmarshal(raw, &c); err != nil {
			return err
		}
		return checkHostile(c)
	})
	pbt.Main(m, "C09")
}

// ---------------------------------------------------------------------------------------------
// the case

type byteCase struct {
	Kind  string `json:"kind"`            // how the bytes were made (label only)
	Hex   string `json:"hex"`             // the input bytes
	Sweep string `json:"sweep,omitempty"` // "" one input; "trunc": every proper prefix; "byte": every position xor Xor
	Xor   int    `json:"xor,omitempty"`
	Block bool   `json:"block,omitempty"` // hostile_counts: the bytes are a block
}

func (c byteCase) bytes() []byte { b, _ := hex.DecodeString(c.Hex); return b }

// ---------------------------------------------------------------------------------------------
// measuring a decoder call: heap bytes allocated, escaped panic

// The cheap probe is runtime/metrics' cumulative heap allocation counter: exact for large objects
// (> 32 KiB, accounted at allocation), lagging by at most a span per size class for small ones.  An
// apparent excess is therefore re-measured exactly (runtime.ReadMemStats around a second run of the
// same deterministic call) before it counts.
var allocSample = []metrics.Sample{{Name: "/gc/heap/allocs:bytes"}}

func heapAllocs() uint64 {
	metrics.Read(allocSample)
	return allocSample[0].Value.Uint64()
}

func run(f func()) (pan any) {
	defer func() { pan = recover() }()
	f()
	return
}

func measure(n int, f func()) (alloc uint64, pan any) {
	a0 := heapAllocs()
	pan = run(f)
	alloc = heapAllocs() - a0
	if pan == nil && alloc > allocBound(n) {
		var m0, m1 runtime.MemStats
		runtime.ReadMemStats(&m0)
		pan = run(f)
		runtime.ReadMemStats(&m1)
		alloc = m1.TotalAlloc - m0.TotalAlloc
	}
	return
}

var sink []byte

// the probe must see a large allocation, otherwise the allocation oracle would be blind
func TestAllocProbe(t *testing.T) {
	for _, n := range []int{1 << 20, 200 << 10} {
		a, _ := measure(0, func() { sink = make([]byte, n) })
		if a < uint64(n) {
			t.Fatalf("allocation probe blind: %d bytes allocated, %d seen", n, a)
		}
	}
	a, _ := measure(0, func() {
		for i := 0; i < 4096; i++ {
			sink = make([]byte, 64)
		}
	})
	if a < 200<<10 {
		t.Fatalf("allocation probe blind for many small objects: %d seen", a)
	}
}

func allocBound(n int) uint64 { return 64*uint64(n) + 64<<10 }

func short(b []byte) string {
	if len(b) <= 400 {
		return hex.EncodeToString(b)
	}
	return fmt.Sprintf("%x...(%d bytes)", b[:400], len(b))
}

// ---------------------------------------------------------------------------------------------
// oracle for one transaction byte string

func sameTx(g *btc.Tx, r *wire.Tx) error {
	if g.Version != r.Version || g.Lock_time != r.LockTime {
		return fmt.Errorf("version/locktime %d/%d, reference %d/%d", g.Version, g.Lock_time, r.Version, r.LockTime)
	}
	if len(g.TxIn) != len(r.In) || len(g.TxOut) != len(r.Out) {
		return fmt.Errorf("%d inputs / %d outputs, reference %d / %d", len(g.TxIn), len(g.TxOut), len(r.In), len(r.Out))
	}
	for i, in := range r.In {
		gi := g.TxIn[i]
		if gi == nil {
			return fmt.Errorf("input %d is nil", i)
		}
		if gi.Input.Hash != in.PrevHash || gi.Input.Vout != in.PrevIndex || gi.Sequence != in.Sequence || !bytes.Equal(gi.ScriptSig, in.ScriptSig) {
			return fmt.Errorf("input %d differs from the reference", i)
		}
	}
	for i, o := range r.Out {
		gout := g.TxOut[i]
		if gout == nil {
			return fmt.Errorf("output %d is nil", i)
		}
		if gout.Value != o.Value || !bytes.Equal(gout.Pk_script, o.PkScript) {
			return fmt.Errorf("output %d differs from the reference", i)
		}
	}
	if !r.HasWitness() {
		if g.SegWit != nil {
			return fmt.Errorf("SegWit set for a transaction without witness")
		}
		return nil
	}
	if len(g.SegWit) != len(r.In) {
		return fmt.Errorf("%d witness stacks for %d inputs", len(g.SegWit), len(r.In))
	}
	for i, in := range r.In {
		if len(g.SegWit[i]) != len(in.Witness) {
			return fmt.Errorf("witness stack %d has %d items, reference %d", i, len(g.SegWit[i]), len(in.Witness))
		}
		for j := range in.Witness {
			if !bytes.Equal(g.SegWit[i][j], in.Witness[j]) {
				return fmt.Errorf("witness item %d/%d differs", i, j)
			}
		}
	}
	return nil
}

// widen returns the same byte string in a slice with spare capacity (zero-filled).  A Go slice
// expression b[i:j] is checked against cap(b), not len(b): a decoder that relies on the bounds
// panic reads on into the spare capacity and "decodes" bytes that are not part of its input.
func widen(b []byte) []byte {
	w := make([]byte, len(b), len(b)+96)
	copy(w, b)
	return w
}

// checkTxBytes runs every oracle of the property on one byte string, handed over once in a slice
// of exactly its length and once in a slice with spare capacity.
func checkTxBytes(b []byte) error {
	if err := checkTxBytes1(b[:len(b):len(b)]); err != nil {
		return err
	}
	if err := checkTxBytes1(widen(b)); err != nil {
		return fmt.Errorf("input in a slice with spare capacity (zero-filled): %v", err)
	}
	return nil
}

func checkTxBytes1(b []byte) error {
	rtx, rused, rerr := wire.DecodeTx(b)

	var gtx *btc.Tx
	var gused int
	alloc, pan := measure(len(b), func() { gtx, gused = btc.NewTx(b) })
	if pan != nil {
		return fmt.Errorf("panic escaped btc.NewTx: %v (input %s)", pan, short(b))
	}
	if alloc > allocBound(len(b)) {
		return fmt.Errorf("btc.NewTx allocated %d bytes for a %d-byte input (bound %d) (input %s)", alloc, len(b), allocBound(len(b)), short(b))
	}
	if gtx == nil && gused != 0 {
		return fmt.Errorf("btc.NewTx returned nil with consumed=%d", gused)
	}

	var sz int
	alloc, pan = measure(len(b), func() { sz = btc.TxSize(b) })
	if pan != nil {
		return fmt.Errorf("panic escaped btc.TxSize: %v (input %s)", pan, short(b))
	}
	if alloc > allocBound(len(b)) {
		return fmt.Errorf("btc.TxSize allocated %d bytes for a %d-byte input", alloc, len(b))
	}
	if sz < 0 || sz > len(b) {
		return fmt.Errorf("btc.TxSize reports %d bytes for a %d-byte input (truncated data not refused) (input %s)", sz, len(b), short(b))
	}

	if rerr != nil {
		if gtx != nil {
			return fmt.Errorf("btc.NewTx accepts (consumed %d) what Bitcoin's deserialiser refuses: %v (input %s)", gused, rerr, short(b))
		}
		return nil
	}
	if gtx == nil {
		return fmt.Errorf("btc.NewTx refuses a valid encoding (reference consumed %d) (input %s)", rused, short(b))
	}
	if gused != rused {
		return fmt.Errorf("btc.NewTx consumed %d bytes, reference %d (input %s)", gused, rused, short(b))
	}
	if sz != rused {
		return fmt.Errorf("btc.TxSize = %d, reference consumed %d (input %s)", sz, rused, short(b))
	}
	if err := sameTx(gtx, rtx); err != nil {
		return fmt.Errorf("decoded fields: %v (input %s)", err, short(b))
	}
	raw := b[:gused]
	if re := gtx.SerializeNew(); !bytes.Equal(re, raw) {
		return fmt.Errorf("SerializeNew() is not the consumed bytes: %s (input %s)", short(re), short(b))
	}
	stripped := rtx.Serialize(false)
	if int(gtx.NoWitSize) != len(stripped) {
		return fmt.Errorf("NewTx set NoWitSize=%d, stripped size is %d (input %s)", gtx.NoWitSize, len(stripped), short(b))
	}
	// NewTx deliberately leaves Hash/Size/Raw unset; its callers use SetHash
	gtx.SetHash(raw)
	if gtx.Hash.Hash != rtx.TxID() {
		return fmt.Errorf("txid %x, reference %x (input %s)", gtx.Hash.Hash, rtx.TxID(), short(b))
	}
	if gtx.WTxID().Hash != rtx.WTxID() {
		return fmt.Errorf("wtxid %x, reference %x (input %s)", gtx.WTxID().Hash, rtx.WTxID(), short(b))
	}
	if int(gtx.Size) != rused || int(gtx.NoWitSize) != len(stripped) {
		return fmt.Errorf("Size/NoWitSize %d/%d, reference %d/%d (input %s)", gtx.Size, gtx.NoWitSize, rused, len(stripped), short(b))
	}
	if gtx.Weight() != rtx.Weight() || gtx.VSize() != rtx.VSize() {
		return fmt.Errorf("weight/vsize %d/%d, reference %d/%d (input %s)", gtx.Weight(), gtx.VSize(), rtx.Weight(), rtx.VSize(), short(b))
	}
	return nil
}

func checkTxCase(c byteCase) error {
	b := c.bytes()
	switch c.Sweep {
	case "":
		return checkTxBytes(b)
	case "trunc":
		for i := 0; i <= len(b); i++ {
			if err := checkTxBytes(b[:i:i]); err != nil {
				return fmt.Errorf("prefix of %d bytes: %v", i, err)
			}
		}
	case "byte":
		m := make([]byte, len(b))
		for i := range b {
			copy(m, b)
			m[i] ^= byte(c.Xor)
			if err := checkTxBytes(m); err != nil {
				return fmt.Errorf("byte %d xor %#x: %v", i, c.Xor, err)
			}
		}
	default:
		return fmt.Errorf("unknown sweep %q", c.Sweep)
	}
	return nil
}

// ---------------------------------------------------------------------------------------------
// oracle for one block byte string

func checkBlockBytes(b []byte) error {
	if err := checkBlockBytes1(b[:len(b):len(b)]); err != nil {
		return err
	}
	if err := checkBlockBytes1(widen(b)); err != nil {
		return fmt.Errorf("input in a slice with spare capacity (zero-filled): %v", err)
	}
	return nil
}

func checkBlockBytes1(b []byte) error {
	rbl, _, rerr := wire.DecodeBlock(b)

	for _, dohash := range []bool{true, false} {
		var bl *btc.Block
		var err error
		alloc, pan := measure(len(b), func() {
			bl, err = btc.NewBlock(b)
			if err == nil {
				if dohash {
					err = bl.BuildTxList()
				} else {
					err = bl.BuildTxListExt(false)
				}
			}
		})
		if pan != nil {
			return fmt.Errorf("panic escaped NewBlock/BuildTxListExt(%v): %v (input %s)", dohash, pan, short(b))
		}
		if alloc > allocBound(len(b)) {
			return fmt.Errorf("NewBlock+BuildTxListExt(%v) allocated %d bytes for a %d-byte input (bound %d) (input %s)", dohash, alloc, len(b), allocBound(len(b)), short(b))
		}
		if rerr != nil {
			if err == nil {
				return fmt.Errorf("NewBlock+BuildTxListExt(%v) accept what Bitcoin's deserialiser refuses: %v (input %s)", dohash, rerr, short(b))
			}
			continue
		}
		if len(rbl.Txs) == 0 {
			continue // a block without transactions: gocoin reports bad-blk-length at this stage (Core: in CheckBlock); either verdict
		}
		if err != nil {
			return fmt.Errorf("NewBlock+BuildTxListExt(%v) refuse a valid block encoding: %v (input %s)", dohash, err, short(b))
		}
		if bl.TxCount != len(rbl.Txs) || len(bl.Txs) != len(rbl.Txs) {
			return fmt.Errorf("TxCount/len(Txs) %d/%d, reference %d (input %s)", bl.TxCount, len(bl.Txs), len(rbl.Txs), short(b))
		}
		if int(bl.BlockWeight) != rbl.Weight() {
			return fmt.Errorf("BuildTxListExt(%v): BlockWeight %d, reference %d (input %s)", dohash, bl.BlockWeight, rbl.Weight(), short(b))
		}
		for i, rt := range rbl.Txs {
			gt := bl.Txs[i]
			if gt == nil {
				return fmt.Errorf("Txs[%d] is nil", i)
			}
			if err := sameTx(gt, rt); err != nil {
				return fmt.Errorf("Txs[%d]: %v (input %s)", i, err, short(b))
			}
			full := rt.Serialize(true)
			if !bytes.Equal(gt.Raw, full) || int(gt.Size) != len(full) || int(gt.NoWitSize) != len(rt.Serialize(false)) {
				return fmt.Errorf("Txs[%d]: Raw/Size/NoWitSize differ from the reference (input %s)", i, short(b))
			}
			if !dohash {
				continue
			}
			if gt.Hash.Hash != rt.TxID() {
				return fmt.Errorf("Txs[%d].Hash %x, reference %x (input %s)", i, gt.Hash.Hash, rt.TxID(), short(b))
			}
			if i > 0 && gt.WTxID().Hash != rt.WTxID() { // the coinbase's wtxid is defined as zero and not computed
				return fmt.Errorf("Txs[%d].WTxID %x, reference %x (input %s)", i, gt.WTxID().Hash, rt.WTxID(), short(b))
			}
		}
	}
	return nil
}

func checkBlockCase(c byteCase) error {
	b := c.bytes()
	switch c.Sweep {
	case "":
		return checkBlockBytes(b)
	case "trunc":
		for i := 0; i <= len(b); i++ {
			if err := checkBlockBytes(b[:i:i]); err != nil {
				return fmt.Errorf("prefix of %d bytes: %v", i, err)
			}
		}
		return nil
	}
	return fmt.Errorf("unknown sweep %q", c.Sweep)
}

// ---------------------------------------------------------------------------------------------
// encoders that remember where every CompactSize field sits

type field struct {
	Off, Len int
	Val      uint64
	Role     string
}

type enc struct {
	b []byte
	f []field
}

func (e *enc) u32(v uint32) { e.b = binary.LittleEndian.AppendUint32(e.b, v) }
func (e *enc) u64(v uint64) { e.b = binary.LittleEndian.AppendUint64(e.b, v) }
func (e *enc) cs(v uint64, role string) {
	off := len(e.b)
	e.b = append(e.b, wire.CompactSize(v)...)
	e.f = append(e.f, field{off, len(e.b) - off, v, role})
}

// body: inputs, outputs, optional witness stacks, locktime
func (e *enc) txBody(tx *wire.Tx, wit bool) {
	e.cs(uint64(len(tx.In)), "nin")
	for _, in := range tx.In {
		e.b = append(e.b, in.PrevHash[:]...)
		e.u32(in.PrevIndex)
		e.cs(uint64(len(in.ScriptSig)), "scriptsig")
		e.b = append(e.b, in.ScriptSig...)
		e.u32(in.Sequence)
	}
	e.cs(uint64(len(tx.Out)), "nout")
	for _, o := range tx.Out {
		e.u64(o.Value)
		e.cs(uint64(len(o.PkScript)), "pkscript")
		e.b = append(e.b, o.PkScript...)
	}
	if wit {
		for _, in := range tx.In {
			e.cs(uint64(len(in.Witness)), "nwit")
			for _, it := range in.Witness {
				e.cs(uint64(len(it)), "witem")
				e.b = append(e.b, it...)
			}
		}
	}
	e.u32(tx.LockTime)
}

// encodeTx: version, optional marker bytes, body.  With marker==nil and wit==tx.HasWitness() (and the
// 00 01 marker for a witness) it is the reference encoding.
func (e *enc) tx(tx *wire.Tx, marker []byte, wit bool) {
	e.u32(tx.Version)
	e.b = append(e.b, marker...)
	e.txBody(tx, wit)
}

func (e *enc) canonicalTx(tx *wire.Tx) {
	if tx.HasWitness() {
		e.tx(tx, []byte{0, 1}, true)
	} else {
		e.tx(tx, nil, false)
	}
}

func encodeTx(tx *wire.Tx) ([]byte, []field) {
	var e enc
	e.canonicalTx(tx)
	if !bytes.Equal(e.b, tx.Serialize(true)) {
		panic("harness: layout encoder disagrees with ref/wire")
	}
	return e.b, e.f
}

func encodeBlock(hdr []byte, txs []*wire.Tx) ([]byte, []field) {
	var e enc
	e.b = append(e.b, hdr...)
	e.cs(uint64(len(txs)), "ntx")
	for _, t := range txs {
		e.canonicalTx(t)
	}
	return e.b, e.f
}

// csForm encodes v in the CompactSize form of the given total length (1, 3, 5, 9); ok=false when
// the value does not fit.
func csForm(v uint64, form int) ([]byte, bool) {
	switch form {
	case 1:
		if v < 0xfd {
			return []byte{byte(v)}, true
		}
	case 3:
		if v <= 0xffff {
			return []byte{0xfd, byte(v), byte(v >> 8)}, true
		}
	case 5:
		if v <= 0xffffffff {
			return binary.LittleEndian.AppendUint32([]byte{0xfe}, uint32(v)), true
		}
	case 9:
		return binary.LittleEndian.AppendUint64([]byte{0xff}, v), true
	}
	return nil, false
}

func replaceField(b []byte, f field, with []byte) []byte {
	out := make([]byte, 0, len(b)+9)
	out = append(out, b[:f.Off]...)
	out = append(out, with...)
	return append(out, b[f.Off+f.Len:]...)
}

// ---------------------------------------------------------------------------------------------
// generators

// fill expands a drawn seed into n bytes (splitmix64): long scripts without one rapid draw per byte.
func fill(seed uint64, n int) []byte {
	b := make([]byte, n)
	x := seed
	for i := 0; i < n; i += 8 {
		x += 0x9e3779b97f4a7c15
		z := x
		z = (z ^ z>>30) * 0xbf58476d1ce4e5b9
		z = (z ^ z>>27) * 0x94d049bb133111eb
		z ^= z >> 31
		for j := 0; j < 8 && i+j < n; j++ {
			b[i+j] = byte(z >> (8 * j))
		}
	}
	return b
}

func genBlob(t *rapid.T, label string, big bool) []byte {
	var n int
	switch k := rapid.IntRange(0, 19).Draw(t, label+"_lk"); {
	case k < 10:
		n = rapid.IntRange(0, 40).Draw(t, label+"_len")
	case k < 16:
		n = rapid.SampledFrom([]int{0, 1, 2, 75, 76, 107, 252, 253, 254, 255, 256, 520}).Draw(t, label+"_len")
	case k < 19 || !big:
		n = rapid.IntRange(0, 1200).Draw(t, label+"_len")
	default:
		n = rapid.SampledFrom([]int{9999, 10000, 10001, 65534, 65535, 65536, 65537}).Draw(t, label+"_len")
	}
	if n <= 8 {
		return rapid.SliceOfN(rapid.Byte(), n, n).Draw(t, label)
	}
	return fill(rapid.Uint64().Draw(t, label+"_seed"), n)
}

func genCount(t *rapid.T, label string, allowZero bool) int {
	k := rapid.IntRange(0, 99).Draw(t, label+"_k")
	switch {
	case k < 4 && allowZero:
		return 0
	case k < 55:
		return 1
	case k < 80:
		return 2
	case k < 96:
		return rapid.IntRange(3, 8).Draw(t, label)
	case k < 99:
		return rapid.IntRange(9, 40).Draw(t, label)
	default:
		return rapid.SampledFrom([]int{252, 253, 254, 300}).Draw(t, label)
	}
}

func genRefTx(t *rapid.T, big bool) *wire.Tx {
	tx := &wire.Tx{}
	tx.Version = rapid.SampledFrom([]uint32{1, 2, 1, 2, 0, 3, 0xffffffff, 0x80000000, 0x100}).Draw(t, "version")
	nin := genCount(t, "nin", true)
	nout := genCount(t, "nout", true)
	wit := rapid.IntRange(0, 9).Draw(t, "wit") < 5
	small := nin+nout > 20
	for i := 0; i < nin; i++ {
		var in wire.TxIn
		copy(in.PrevHash[:], fill(rapid.Uint64().Draw(t, "prev"), 32))
		in.PrevIndex = rapid.SampledFrom([]uint32{0, 1, 2, 0xffffffff, 7, 0x10000}).Draw(t, "vout")
		if small {
			in.ScriptSig = fill(uint64(i), rapid.IntRange(0, 3).Draw(t, "ssl"))
		} else {
			in.ScriptSig = genBlob(t, "scriptsig", big)
		}
		in.Sequence = rapid.SampledFrom([]uint32{0xffffffff, 0xfffffffe, 0, 1, 0x80000000}).Draw(t, "seq")
		if wit && rapid.IntRange(0, 3).Draw(t, "haswit") != 0 {
			n := rapid.SampledFrom([]int{0, 1, 1, 2, 2, 3, 5, 9}).Draw(t, "nitems")
			if small {
				n = n % 3
			}
			for j := 0; j < n; j++ {
				in.Witness = append(in.Witness, genBlob(t, "witem", big && j == 0))
			}
		}
		tx.In = append(tx.In, in)
	}
	for i := 0; i < nout; i++ {
		var o wire.TxOut
		o.Value = rapid.SampledFrom([]uint64{0, 1, 546, 5000000000, 2100000000000000, 0xffffffffffffffff, 0x8000000000000000, 123456789}).Draw(t, "value")
		if small {
			o.PkScript = fill(uint64(i), rapid.IntRange(0, 3).Draw(t, "pkl"))
		} else {
			o.PkScript = genBlob(t, "pkscript", big)
		}
		tx.Out = append(tx.Out, o)
	}
	tx.LockTime = rapid.SampledFrom([]uint32{0, 1, 499999999, 500000000, 0xffffffff}).Draw(t, "locktime")
	return tx
}

// moderate count values used in-process (a decoder that allocates ahead of the data shows up as an
// allocation-bound violation, without endangering the test process); the huge ones run in the
// hostile_counts children under an address-space limit.
var moderateCounts = []uint64{0, 1, 0xfc, 0xfd, 0xfe, 0xff, 0x100, 0xffff, 0x10000, 0x10001, 1 << 20}

var hugeCounts = []uint64{1 << 24, 1 << 25, 1<<25 + 1, 1<<31 - 1, 1 << 31, 1<<32 - 1, 1 << 32, 1<<32 + 1, 1 << 40, 1<<63 - 1, 1 << 63, 1<<63 + 1, 1<<64 - 1}

var markers = [][]byte{{0, 0}, {0, 1}, {0, 2}, {0, 3}, {1, 1}, {0, 0xff}, {0, 0x81}, {0}, {1}}

var txKinds = []string{"pristine", "pristine", "truncated", "truncated", "bytemut", "bytemut", "bytemut", "prefix_form", "prefix_form", "prefix_form",
	"count_value", "count_value", "marker_flag", "marker_flag", "witflag_empty", "trailing", "concat", "random", "random_structured"}

func genTxCase(t *rapid.T) byteCase {
	kind := rapid.SampledFrom(txKinds).Draw(t, "kind")
	if kind == "random" {
		return byteCase{Kind: kind, Hex: hex.EncodeToString(rapid.SliceOfN(rapid.Byte(), 0, 120).Draw(t, "raw"))}
	}
	if kind == "random_structured" {
		// version, then bytes biased towards small values / prefix bytes so that counts parse
		n := rapid.IntRange(0, 100).Draw(t, "n")
		b := []byte{1, 0, 0, 0}
		for i := 0; i < n; i++ {
			b = append(b, rapid.SampledFrom([]byte{0, 0, 0, 1, 1, 2, 3, 0xfd, 0xfe, 0xff, 0xfc, 0x20, 0x80}).Draw(t, "b"))
		}
		return byteCase{Kind: kind, Hex: hex.EncodeToString(b)}
	}
	tx := genRefTx(t, true)
	raw, fields := encodeTx(tx)
	out := raw
	switch kind {
	case "pristine":
	case "truncated":
		out = raw[:rapid.IntRange(0, len(raw)-1).Draw(t, "cut")]
	case "bytemut":
		out = append([]byte{}, raw...)
		var p int
		if rapid.Bool().Draw(t, "atfield") && len(fields) > 0 {
			f := fields[rapid.IntRange(0, len(fields)-1).Draw(t, "fi")]
			p = f.Off + rapid.IntRange(-1, f.Len).Draw(t, "fo")
			if p < 0 || p >= len(out) {
				p = 4
			}
		} else if len(raw) > 300 && rapid.Bool().Draw(t, "head") {
			p = rapid.IntRange(0, 60).Draw(t, "pos")
		} else {
			p = rapid.IntRange(0, len(raw)-1).Draw(t, "pos")
		}
		nv := rapid.SampledFrom([]int{-1, 0, 1, 2, 0xfc, 0xfd, 0xfe, 0xff, 0x80, -2, -3}).Draw(t, "newval")
		switch nv {
		case -1:
			out[p] ^= byte(rapid.IntRange(1, 255).Draw(t, "xor"))
		case -2:
			out[p]++
		case -3:
			out[p]--
		default:
			out[p] = byte(nv)
		}
	case "prefix_form":
		f := fields[rapid.IntRange(0, len(fields)-1).Draw(t, "fi")]
		form := rapid.SampledFrom([]int{1, 3, 5, 9}).Draw(t, "form")
		e, ok := csForm(f.Val, form)
		if !ok {
			e, _ = csForm(f.Val, 9)
		}
		out = replaceField(raw, f, e)
		kind += "/" + f.Role
	case "count_value":
		f := fields[rapid.IntRange(0, len(fields)-1).Draw(t, "fi")]
		var v uint64
		if rapid.Bool().Draw(t, "offby") {
			v = f.Val + uint64(rapid.SampledFrom([]int{1, 2, -1, 3}).Draw(t, "delta"))
		} else {
			v = rapid.SampledFrom(moderateCounts).Draw(t, "cv")
		}
		e := wire.CompactSize(v)
		if rapid.IntRange(0, 4).Draw(t, "nonmin") == 0 {
			e, _ = csForm(v, 9)
		}
		out = replaceField(raw, f, e)
		kind += "/" + f.Role
	case "marker_flag":
		mk := rapid.SampledFrom(markers).Draw(t, "marker")
		var e enc
		e.tx(tx, mk, rapid.Bool().Draw(t, "witsection"))
		out = e.b
		kind += fmt.Sprintf("/%x", mk)
	case "witflag_empty":
		for i := range tx.In {
			tx.In[i].Witness = nil
		}
		var e enc
		e.tx(tx, []byte{0, 1}, true)
		out = e.b
	case "trailing":
		out = append(append([]byte{}, raw...), rapid.SliceOfN(rapid.Byte(), 1, 12).Draw(t, "tail")...)
	case "concat":
		raw2, _ := encodeTx(genRefTx(t, false))
		out = append(append([]byte{}, raw...), raw2...)
	}
	return byteCase{Kind: kind, Hex: hex.EncodeToString(out)}
}

func refClass(err error) string {
	if err == nil {
		return "ref_accepts"
	}
	s := err.Error()
	switch {
	case strings.Contains(s, "non-canonical"):
		return "ref_refuses/non_canonical"
	case strings.Contains(s, "Superfluous"):
		return "ref_refuses/superfluous_witness"
	case strings.Contains(s, "Unknown"):
		return "ref_refuses/unknown_optional_data"
	case strings.Contains(s, "too large"):
		return "ref_refuses/size_too_large"
	}
	return "ref_refuses/short"
}

func nontrivialTx(kind string, b []byte) bool {
	if len(b) < 10 {
		return false
	}
	if kind != "pristine" {
		return true
	}
	tx, _, err := wire.DecodeTx(b)
	return err == nil && (len(tx.In) >= 2 || len(tx.Out) >= 2 || tx.HasWitness())
}

func TestTxBytes(t *testing.T) {
	pbt.Check(t, pbt.Cfg{Name: "tx_bytes", Quick: 400000, Thorough: 16000000}, func(r *pbt.Run) {
		c := genTxCase(r.T)
		r.Case(c)
		b := c.bytes()
		r.Class(c.Kind)
		_, _, rerr := wire.DecodeTx(b)
		rc := refClass(rerr)
		r.Class(rc)
		if rerr != nil {
			r.Class("ref_refuses")
		}
		if nontrivialTx(c.Kind, b) {
			r.NonTrivial()
		}
		pbt.AddExtra("byte_strings_decoded", 1)
		if err := checkTxCase(c); err != nil {
			r.Failf("%v", err)
		}
	})
}

// every truncation and every single-byte mutation (one xor value per case) of a reference encoding
func TestTxSweep(t *testing.T) {
	pbt.Check(t, pbt.Cfg{Name: "tx_sweep", Quick: 6000, Thorough: 200000}, func(r *pbt.Run) {
		tx := genRefTx(r.T, false)
		raw, _ := encodeTx(tx)
		if len(raw) > 1500 {
			raw, _ = encodeTx(&wire.Tx{Version: tx.Version, In: tx.In[:min(1, len(tx.In))], Out: tx.Out[:min(1, len(tx.Out))], LockTime: tx.LockTime})
			if len(raw) > 3000 {
				r.T.Skip("too long for a sweep")
			}
		}
		c := byteCase{Kind: "sweep", Hex: hex.EncodeToString(raw)}
		if rapid.Bool().Draw(r.T, "trunc") {
			c.Sweep = "trunc"
		} else {
			c.Sweep = "byte"
			c.Xor = rapid.SampledFrom([]int{1, 2, 0x80, 0xff, 0xfd, 0xfe, 0x03}).Draw(r.T, "xor")
			if rapid.IntRange(0, 2).Draw(r.T, "anyxor") == 0 {
				c.Xor = rapid.IntRange(1, 255).Draw(r.T, "xorv")
			}
		}
		r.Case(c)
		r.Class(c.Sweep)
		r.NonTrivial()
		pbt.AddExtra("byte_strings_decoded", int64(len(raw)))
		if err := checkTxCase(c); err != nil {
			r.Failf("%v", err)
		}
	})
}

// ---------------------------------------------------------------------------------------------
// blocks

var blockKinds = []string{"pristine", "pristine", "count_off", "count_form", "count_value", "truncated", "bytemut", "trailing", "tx_prefix_form", "tx_witflag_empty", "tx_marker", "header_only", "random"}

func genBlockTxs(t *rapid.T) []*wire.Tx {
	n := rapid.SampledFrom([]int{1, 1, 2, 3, 5, 8, 0, 30, 60}).Draw(t, "ntx")
	var txs []*wire.Tx
	for i := 0; i < n; i++ {
		tx := genRefTx(t, n <= 3)
		if len(tx.In) == 0 && len(tx.Out) != 0 {
			tx.Out = nil // a 0-input transaction with outputs has no valid encoding; it would turn the whole block invalid
		}
		if i > 0 && len(tx.In) > 0 && rapid.IntRange(0, 4).Draw(t, "cbshape") == 0 {
			// a transaction BEHIND the first one that has the shape of a coinbase (one input, null previous output):
			// position, not shape, decides which transaction's wtxid is left at zero
			tx.In = tx.In[:1]
			tx.In[0].PrevHash = [32]byte{}
			tx.In[0].PrevIndex = 0xffffffff
			if len(tx.In[0].Witness) == 0 && rapid.IntRange(0, 2).Draw(t, "cbwit") != 0 {
				tx.In[0].Witness = [][]byte{fill(uint64(i)+7, 32)}
			}
		}
		txs = append(txs, tx)
	}
	return txs
}

func genBlockCase(t *rapid.T) byteCase {
	kind := rapid.SampledFrom(blockKinds).Draw(t, "kind")
	hdr := fill(rapid.Uint64().Draw(t, "hdr"), 80)
	if kind == "random" {
		return byteCase{Kind: kind, Hex: hex.EncodeToString(append(hdr[:rapid.SampledFrom([]int{80, 80, 80, 79, 10, 0}).Draw(t, "hl")], rapid.SliceOfN(rapid.Byte(), 0, 100).Draw(t, "raw")...))}
	}
	if kind == "header_only" {
		return byteCase{Kind: kind, Hex: hex.EncodeToString(hdr[:rapid.SampledFrom([]int{80, 79, 81, 1, 0}).Draw(t, "hl")%81])}
	}
	txs := genBlockTxs(t)
	raw, fields := encodeBlock(hdr, txs)
	out := raw
	switch kind {
	case "pristine":
	case "count_off":
		v := fields[0].Val + uint64(rapid.SampledFrom([]int{1, -1, 2, 100}).Draw(t, "delta"))
		out = replaceField(raw, fields[0], wire.CompactSize(v))
	case "count_form":
		e, ok := csForm(fields[0].Val, rapid.SampledFrom([]int{3, 5, 9}).Draw(t, "form"))
		if ok {
			out = replaceField(raw, fields[0], e)
		}
	case "count_value":
		out = replaceField(raw, fields[0], wire.CompactSize(rapid.SampledFrom(moderateCounts).Draw(t, "cv")))
	case "truncated":
		out = raw[:rapid.IntRange(0, len(raw)-1).Draw(t, "cut")]
	case "bytemut":
		out = append([]byte{}, raw...)
		p := rapid.IntRange(80, len(raw)-1).Draw(t, "pos")
		if rapid.Bool().Draw(t, "atfield") {
			f := fields[rapid.IntRange(0, len(fields)-1).Draw(t, "fi")]
			p = f.Off
		}
		out[p] ^= byte(rapid.SampledFrom([]int{1, 2, 0xff, 0x80, 0xfd}).Draw(t, "xor"))
	case "trailing":
		out = append(append([]byte{}, raw...), rapid.SliceOfN(rapid.Byte(), 1, 12).Draw(t, "tail")...)
	case "tx_prefix_form":
		f := fields[rapid.IntRange(0, len(fields)-1).Draw(t, "fi")]
		e, ok := csForm(f.Val, rapid.SampledFrom([]int{3, 5, 9}).Draw(t, "form"))
		if ok {
			out = replaceField(raw, f, e)
		}
	case "tx_witflag_empty", "tx_marker":
		if len(txs) == 0 {
			break
		}
		k := rapid.IntRange(0, len(txs)-1).Draw(t, "which")
		var e enc
		e.b = append(e.b, hdr...)
		e.cs(uint64(len(txs)), "ntx")
		for i, tx := range txs {
			if i != k {
				e.canonicalTx(tx)
				continue
			}
			if kind == "tx_witflag_empty" {
				c := tx.Copy()
				for j := range c.In {
					c.In[j].Witness = nil
				}
				e.tx(c, []byte{0, 1}, true)
			} else {
				e.tx(tx, rapid.SampledFrom(markers).Draw(t, "marker"), rapid.Bool().Draw(t, "witsection"))
			}
		}
		out = e.b
	}
	return byteCase{Kind: kind, Hex: hex.EncodeToString(out)}
}

func TestBlockBytes(t *testing.T) {
	pbt.Check(t, pbt.Cfg{Name: "block_bytes", Quick: 60000, Thorough: 2500000}, func(r *pbt.Run) {
		c := genBlockCase(r.T)
		r.Case(c)
		b := c.bytes()
		r.Class(c.Kind)
		rbl, _, rerr := wire.DecodeBlock(b)
		if rerr != nil {
			r.Class("ref_refuses")
		} else {
			r.Class("ref_accepts")
			if len(b)-80 > 2*4096 {
				r.Class("multi_pack") // more than one parallel hashing pack in BuildTxListExt
			}
			for i, tx := range rbl.Txs {
				if i > 0 && len(tx.In) == 1 && tx.In[0].PrevHash == [32]byte{} && tx.In[0].PrevIndex == 0xffffffff {
					r.Class("coinbase_shaped_tx_behind_the_first")
					if len(tx.In[0].Witness) > 0 {
						r.Class("coinbase_shaped_witness_tx_behind_the_first")
					}
					break
				}
			}
		}
		if c.Kind != "pristine" && len(b) >= 90 || rerr == nil && len(rbl.Txs) >= 2 {
			r.NonTrivial()
		}
		pbt.AddExtra("byte_strings_decoded", 1)
		if err := checkBlockCase(c); err != nil {
			r.Failf("%v", err)
		}
	})
}

// ---------------------------------------------------------------------------------------------
// large multi-pack blocks: BuildTxListExt(true) hashes the transactions in parallel, one goroutine per
// 4096-byte pack, and sums the block weight from those goroutines.  A block of hundreds of packs is decoded
// repeatedly under several GOMAXPROCS values and compared with the reference every time (a lost update of
// the weight shows as a short BlockWeight), and a smaller block goes through a helper binary built with the
// race detector, which reports unsynchronised accesses from the pack goroutines deterministically.

func raceBinary() string {
	if dir := os.Getenv("VERIF_BUILD"); dir != "" {
		return filepath.Join(dir, "c09race")
	}
	return ""
}

// errInfra marks harness failures (no verdict about gocoin)
type errInfra struct{ error }

func runRaceHelper(c blocklib.ParCase) error {
	if c.RaceNTx <= 0 {
		return nil
	}
	line, _ := json.Marshal(c)
	return raceHelper(line, fmt.Sprintf("NewBlock+BuildTxList on a block of %d transactions", c.RaceNTx))
}

func raceHelper(line []byte, what string) error {
	bin := raceBinary()
	if bin == "" {
		return nil
	}
	if _, err := os.Stat(bin); err != nil {
		return errInfra{fmt.Errorf("race helper %s is missing: %v", bin, err)}
	}
	cmd := exec.Command(bin)
	cmd.Env = append(os.Environ(), "GORACE=halt_on_error=1 exitcode=66", "GOMAXPROCS=4")
	cmd.Stdin = bytes.NewReader(append(line, '\n'))
	var so, se bytes.Buffer
	cmd.Stdout, cmd.Stderr = &so, &se
	runErr := cmd.Run()
	if strings.Contains(se.String(), "WARNING: DATA RACE") {
		return fmt.Errorf("data race reported by the Go race detector inside %s (what is reported depends on the schedule): %s", what, raceFrames(se.String()))
	}
	out := strings.TrimSpace(so.String())
	if strings.HasPrefix(out, "FAIL ") {
		return fmt.Errorf("under the race-detector build: %s", out)
	}
	if runErr != nil || !strings.HasPrefix(out, "OK") {
		return errInfra{fmt.Errorf("race helper: %v: %s %s", runErr, out, tail(se.String(), 300))}
	}
	return nil
}

// raceFrames keeps the function names of the first report
func raceFrames(rep string) string {
	var fr []string
	for _, l := range strings.Split(rep, "\n") {
		l = strings.TrimSpace(l)
		if strings.HasPrefix(l, "Write at") || strings.HasPrefix(l, "Previous") || strings.HasPrefix(l, "Read at") || strings.HasPrefix(l, "github.com/piotrnar/gocoin") {
			fr = append(fr, l)
		}
		if len(fr) >= 6 {
			break
		}
	}
	return strings.Join(fr, " | ")
}

func checkParallel(c blocklib.ParCase) error {
	b := blocklib.Build(c, c.NTx)
	r, err := blocklib.MakeRef(b)
	if err != nil {
		return err
	}
	old := runtime.GOMAXPROCS(0)
	defer runtime.GOMAXPROCS(old)
	for _, p := range c.Procs {
		runtime.GOMAXPROCS(p)
		for i := 0; i < c.Reps; i++ {
			if err := blocklib.Decode(b, r); err != nil {
				return fmt.Errorf("decoding %d of %d with GOMAXPROCS=%d: %v", i+1, c.Reps, p, err)
			}
		}
	}
	runtime.GOMAXPROCS(old)
	return runRaceHelper(c)
}

func TestBlockParallel(t *testing.T) {
	if raceBinary() == "" {
		pbt.Note("block_parallel: VERIF_BUILD not set (not run by the driver) - race-detector half skipped")
	}
	pbt.Check(t, pbt.Cfg{Name: "block_parallel", Quick: 48, Thorough: 1600}, func(r *pbt.Run) {
		c := blocklib.ParCase{Seed: rapid.Uint64().Draw(r.T, "seed"), Reps: 8, Procs: []int{2, 4, 16}}
		c.ScriptLen = rapid.SampledFrom([]int{0, 20, 107, 107, 250}).Draw(r.T, "scriptlen")
		packs := rapid.IntRange(150, 700).Draw(r.T, "packs")
		c.WitEvery = rapid.SampledFrom([]int{0, 1, 2, 3, 10}).Draw(r.T, "witevery")
		c.BigEvery = rapid.SampledFrom([]int{0, 0, 7, 50}).Draw(r.T, "bigevery")
		per := 4 + 1 + 41 + c.ScriptLen + 8 + 1 + 9 + 24 + 4 // rough transaction size
		c.NTx = packs * 4096 / per
		c.RaceNTx = rapid.IntRange(40, 120).Draw(r.T, "racepacks") * 4096 / per
		r.Case(c)
		r.Class(fmt.Sprintf("packs>=%d00", min(packs/100, 6)))
		if raceBinary() != "" {
			r.Class("race_detector_run")
		}
		r.NonTrivial()
		pbt.AddExtra("multi_pack_block_decodings", int64(c.Reps*len(c.Procs)))
		err := checkParallel(c)
		if _, infra := err.(errInfra); infra {
			r.T.Fatalf("%v", err) // no replay file: the driver reports inconclusive
		}
		if err != nil {
			r.Failf("%v", err)
		}
	})
}

// ---------------------------------------------------------------------------------------------
// transactions decoded and hashed by several goroutines at once (what the per-connection goroutines do in
// ParseTxNet: btc.NewTx + Tx.SetHash on their own transactions), with a simultaneous start; some workers also
// decode their own multi-pack block.  All reference values are computed sequentially beforehand.  The same kind of
// case (smaller) also runs inside the race-detector build.

type concCase struct {
	Main blocklib.ConcCase `json:"main"` // in-process
	Race blocklib.ConcCase `json:"race"` // inside the race-detector helper (Workers == 0: none)
}

func checkConcurrent(c concCase) error {
	st, err := blocklib.RunConcurrent(c.Main)
	pbt.AddExtra("concurrent_sethash_calls", st.SetHashCalls)
	pbt.AddExtra("concurrent_sethash_calls_witness", st.WitnessCalls)
	pbt.AddExtra("concurrent_block_decodings", st.BlockDecodes)
	if err != nil {
		return err
	}
	if c.Race.Workers > 0 {
		line, _ := json.Marshal(c.Race)
		return raceHelper(append([]byte("CONC "), line...), fmt.Sprintf("NewTx+SetHash (+BuildTxList) called from %d goroutines on their own transactions", c.Race.Workers))
	}
	return nil
}

var concSizeSets = [][]int{{200, 2000, 20000, 60000}, {60000, 93000}, {20000, 40000}, {300, 93000}, {250}}

func TestTxConcurrent(t *testing.T) {
	pbt.Check(t, pbt.Cfg{Name: "tx_concurrent", Quick: 48, Thorough: 1600}, func(r *pbt.Run) {
		var c concCase
		m := &c.Main
		m.Seed = rapid.Uint64().Draw(r.T, "seed")
		m.Workers = rapid.SampledFrom([]int{16, 8, 4, 2, 3, 32, 64, 128}).Draw(r.T, "workers")
		m.TxPerWorker = rapid.IntRange(1, 3).Draw(r.T, "txper")
		m.WitPercent = rapid.SampledFrom([]int{100, 90, 100, 60}).Draw(r.T, "witpercent")
		m.Sizes = concSizeSets[rapid.IntRange(0, len(concSizeSets)-1).Draw(r.T, "sizes")]
		m.Procs = rapid.SampledFrom([]int{16, 4, 2, 16}).Draw(r.T, "procs")
		avg := 0
		for _, s := range m.Sizes {
			avg += s
		}
		avg /= len(m.Sizes)
		m.Rounds = max(30, min(400, concByteBudget/(m.Workers*m.TxPerWorker*avg)))
		if rapid.IntRange(0, 2).Draw(r.T, "blocks") == 0 {
			m.BlockPacks = rapid.IntRange(3, 12).Draw(r.T, "blockpacks")
			m.BlockEvery = max(1, m.Rounds/8)
		}
		if raceBinary() != "" {
			c.Race = blocklib.ConcCase{Seed: m.Seed + 1, Workers: rapid.IntRange(2, 6).Draw(r.T, "raceworkers"), Rounds: 5, TxPerWorker: 2, WitPercent: 100,
				Sizes: []int{300, 3000, 20000}, BlockPacks: 3, BlockEvery: 2}
			r.Class("race_detector_run")
		}
		r.Case(c)
		r.Class("witness txs hashed concurrently")
		r.Class(fmt.Sprintf("workers=%d", m.Workers))
		if m.Sizes[len(m.Sizes)-1] >= 60000 {
			r.Class("large txs (>= 60 KB)")
		}
		if m.BlockPacks > 0 {
			r.Class("blocks decoded concurrently")
		}
		r.NonTrivial()
		err := checkConcurrent(c)
		if _, infra := err.(errInfra); infra {
			r.T.Fatalf("%v", err)
		}
		if err != nil {
			r.Failf("%v", err)
		}
	})
}

const concByteBudget = 150 << 20

// ---------------------------------------------------------------------------------------------
// hostile counts: every CompactSize field of a reference encoding replaced by huge values, decoded
// in a child process whose address space is limited to 4 GiB.  A child that dies (allocation
// refused by the OS, unrecovered panic) is a violation attributed to the input it was working on.

const childASLimit = 4 << 30
const childHangBound = 120 * time.Second

func hostileVariants(c byteCase) [][]byte {
	b := c.bytes()
	var fields []field
	if c.Block {
		rbl, _, err := wire.DecodeBlock(b)
		if err != nil {
			return nil
		}
		_, fields = encodeBlock(b[:80], rbl.Txs)
	} else {
		tx, _, err := wire.DecodeTx(b)
		if err != nil {
			return nil
		}
		_, fields = encodeTx(tx)
	}
	var out [][]byte
	for _, f := range fields {
		for _, v := range hugeCounts {
			out = append(out, replaceField(b, f, wire.CompactSize(v)))
		}
		// a huge value in a non-minimal / shorter-than-needed place: 0xff prefix with few data bytes left
		out = append(out, append(append([]byte{}, b[:f.Off]...), 0xff, 0xff, 0xff, 0xff, 0xff, 0xff, 0xff, 0xff, 0x7f))
		out = append(out, append(append([]byte{}, b[:f.Off]...), 0xfe, 0xff, 0xff, 0xff, 0x7f))
		// a huge count followed by an element whose own length prefix cannot be read: a sizing loop
		// that does not stop at the first unreadable element spins for `count` rounds
		for _, v := range []uint64{1 << 25, 1 << 32, 1<<63 - 1} {
			for _, pad := range []int{0, 8, 36} {
				x := append(append([]byte{}, b[:f.Off]...), wire.CompactSize(v)...)
				x = append(x, make([]byte, pad)...)
				out = append(out, append(x, 0xfd))
				out = append(out, append(append([]byte{}, x...), 0xfd, 0x01, 0x00)) // non-minimal length
			}
		}
	}
	return out
}

// runChildren feeds the inputs to child processes; returns the first failure.
func runChildren(inputs [][]byte, block bool) error {
	mode := "tx"
	if block {
		mode = "block"
	}
	start := 0
	for start < len(inputs) {
		cmd := exec.Command(os.Args[0], "-test.run", "^$")
		cmd.Env = append(os.Environ(), "VERIF_C09_CHILD="+mode, "VERIF_REPLAY=", "VERIF_STATS=", "GOMAXPROCS=2")
		var in bytes.Buffer
		for _, b := range inputs[start:] {
			in.WriteString(hex.EncodeToString(b))
			in.WriteByte('\n')
		}
		cmd.Stdin = &in
		var stdout, stderr bytes.Buffer
		cmd.Stdout = &stdout
		cmd.Stderr = &stderr
		runErr := cmd.Start()
		if runErr == nil {
			// hang bound ("never hangs" is part of the property): a batch normally takes well under a second
			timer := time.AfterFunc(childHangBound, func() { cmd.Process.Kill() })
			runErr = cmd.Wait()
			if !timer.Stop() {
				runErr = fmt.Errorf("no answer within %v, killed (hang): %v", childHangBound, runErr)
			}
		}
		done := 0
		begun := -1
		sc := bufio.NewScanner(&stdout)
		sc.Buffer(make([]byte, 1<<20), 1<<26)
		for sc.Scan() {
			line := sc.Text()
			switch {
			case strings.HasPrefix(line, "B "):
				begun, _ = strconv.Atoi(line[2:])
			case strings.HasPrefix(line, "OK "):
				done++
			case strings.HasPrefix(line, "FAIL "):
				return fmt.Errorf("%s", line[5:])
			case strings.HasPrefix(line, "SETUP-ERROR"):
				return nil // the limit could not be installed: no verdict from this child
			}
		}
		if runErr == nil && done == len(inputs)-start {
			return nil
		}
		if begun < 0 || begun < done {
			return fmt.Errorf("harness: child ended without protocol (%v): %s", runErr, tail(stderr.String(), 300))
		}
		bad := inputs[start+begun]
		return fmt.Errorf("decoder child died (%v) under a %d-byte address-space limit while decoding %s: %s", runErr, uint64(childASLimit), short(bad), tail(stderr.String(), 300))
	}
	return nil
}

func tail(s string, n int) string {
	s = strings.TrimSpace(s)
	if len(s) > n {
		s = s[len(s)-n:]
	}
	return strings.ReplaceAll(s, "\n", " | ")
}

func childMain(mode string) {
	lim := syscall.Rlimit{Cur: childASLimit, Max: childASLimit}
	if err := syscall.Setrlimit(syscall.RLIMIT_AS, &lim); err != nil {
		fmt.Println("SETUP-ERROR", err)
		os.Exit(0)
	}
	w := bufio.NewWriter(os.Stdout)
	sc := bufio.NewScanner(os.Stdin)
	sc.Buffer(make([]byte, 1<<20), 1<<28)
	i := 0
	for sc.Scan() {
		b, err := hex.DecodeString(strings.TrimSpace(sc.Text()))
		if err != nil {
			continue
		}
		fmt.Fprintf(w, "B %d\n", i)
		w.Flush()
		if mode == "block" {
			err = checkBlockBytes(b)
		} else {
			err = checkTxBytes(b)
		}
		if err != nil {
			fmt.Fprintf(w, "FAIL %s\n", strings.ReplaceAll(err.Error(), "\n", " "))
			w.Flush()
			os.Exit(0)
		}
		fmt.Fprintf(w, "OK %d\n", i)
		i++
	}
	w.Flush()
	os.Exit(0)
}

func checkHostile(c byteCase) error {
	vs := hostileVariants(c)
	if len(vs) == 0 {
		return nil
	}
	return runChildren(vs, c.Block)
}

func TestHostileCounts(t *testing.T) {
	pbt.Check(t, pbt.Cfg{Name: "hostile_counts", Quick: 640, Thorough: 16000}, func(r *pbt.Run) {
		var c byteCase
		if rapid.IntRange(0, 2).Draw(r.T, "block") == 0 {
			hdr := fill(rapid.Uint64().Draw(r.T, "hdr"), 80)
			n := rapid.IntRange(1, 3).Draw(r.T, "ntx")
			var txs []*wire.Tx
			for i := 0; i < n; i++ {
				tx := genRefTx(r.T, false)
				if len(tx.In) > 3 {
					tx.In = tx.In[:3]
				}
				if len(tx.Out) > 3 {
					tx.Out = tx.Out[:3]
				}
				if len(tx.In) == 0 {
					tx.Out = nil
				}
				txs = append(txs, tx)
			}
			raw, _ := encodeBlock(hdr, txs)
			c = byteCase{Kind: "hostile_block", Hex: hex.EncodeToString(raw), Block: true}
		} else {
			tx := genRefTx(r.T, false)
			if len(tx.In) > 4 {
				tx.In = tx.In[:4]
			}
			if len(tx.Out) > 4 {
				tx.Out = tx.Out[:4]
			}
			if len(tx.In) == 0 {
				tx.Out = nil
			}
			raw, _ := encodeTx(tx)
			c = byteCase{Kind: "hostile_tx", Hex: hex.EncodeToString(raw)}
		}
		r.Case(c)
		r.Class(c.Kind)
		n := len(hostileVariants(c))
		if n > 0 {
			r.NonTrivial()
		}
		pbt.AddExtra("byte_strings_decoded", int64(n))
		pbt.AddExtra("hostile_inputs_in_children", int64(n))
		if err := checkHostile(c); err != nil {
			r.Failf("%v", err)
		}
	})
}

// ---------------------------------------------------------------------------------------------
// native fuzz targets (thorough tier), seeded with Core's tx_valid.json; the oracle is inside

func coreTxs() [][]byte {
	var out [][]byte
	for _, fn := range []string{"/repo/lib/test/tx_valid.json", "/repo/lib/test/tx_invalid.json"} {
		b, err := os.ReadFile(fn)
		if err != nil {
			continue
		}
		var rows [][]any
		if json.Unmarshal(b, &rows) != nil {
			continue
		}
		for _, r := range rows {
			if len(r) == 3 {
				if s, ok := r[1].(string); ok {
					if raw, err := hex.DecodeString(s); err == nil {
						out = append(out, raw)
					}
				}
			}
		}
	}
	return out
}

// Core's vectors are also a fixed part of every run: each must decode, round-trip and hash like the reference.
func TestCoreVectors(t *testing.T) {
	if os.Getenv("VERIF_REPLAY") != "" {
		t.Skip()
	}
	i, _ := pbt.Shard()
	if i != 0 {
		return
	}
	d := pbt.Direct{Name: "core_vectors"}
	txs := coreTxs()
	if len(txs) < 150 {
		pbt.Note("only %d Core vectors found", len(txs))
	}
	for _, raw := range txs {
		c := byteCase{Kind: "core_vector", Hex: hex.EncodeToString(raw)}
		d.Eval("core_vector", true, c.Hex, nil)
		if err := checkTxCase(c); err != nil {
			d.Fail(t, c, "%v", err)
			return
		}
	}
}

func FuzzNewTx(f *testing.F) {
	for _, raw := range coreTxs() {
		f.Add(raw)
	}
	f.Add([]byte{1, 0, 0, 0, 0, 0, 0, 0, 0, 0})
	f.Fuzz(func(t *testing.T, b []byte) {
		if err := checkTxBytes(b); err != nil {
			pbt.FuzzFail(t, "tx_bytes", byteCase{Kind: "fuzz", Hex: hex.EncodeToString(b)}, "%v", err)
		}
	})
}

func FuzzBlock(f *testing.F) {
	txs := coreTxs()
	hdr := fill(7, 80)
	for i := 0; i+2 < len(txs) && i < 60; i += 3 {
		b := append(append([]byte{}, hdr...), 3)
		b = append(append(append(b, txs[i]...), txs[i+1]...), txs[i+2]...)
		f.Add(b)
	}
	f.Add(hdr)
	f.Fuzz(func(t *testing.T, b []byte) {
		if err := checkBlockBytes(b); err != nil {
			pbt.FuzzFail(t, "block_bytes", byteCase{Kind: "fuzz", Hex: hex.EncodeToString(b)}, "%v", err)
		}
	})
}
