package c08

import (
	"fmt"
	"math/big"
	"testing"

	"github.com/piotrnar/gocoin/lib/secp256k1"
	"pgregory.net/rapid"
	"verif/pbt"
	"verif/ref/ec"
)

// ---------------------------------------------------------------------------------------------
// (2) op sequences over Jacobian point registers.
//
// Every register holds a gocoin XYZ and is shadowed by its discrete logarithm k (the point is k*G;
// the reference point is ec.BaseMul(k)).  Initial registers are k*G for k from the hostile scalar
// pool, written as (x*z^2, y*z^3, z) with z from a pool and the coordinates optionally in a
// non-canonical field representation.  Comparison is done on big integers read from the raw limbs.

const nPts = 4

type gInit struct {
	K     string `json:"k"`     // scalar (hex); the point is K*G, infinity when K = 0 mod n
	Z     string `json:"z"`     // Jacobian z (hex, non-zero mod p)
	Style [3]int `json:"style"` // field representation of X, Y, Z (see denorm)
	Junk  string `json:"junk"`  // coordinates stored next to the Infinity flag
}

type gOp struct {
	Op    string `json:"op"`
	A     int    `json:"a"`
	B     int    `json:"b"`
	R     int    `json:"r"`
	Alias bool   `json:"alias,omitempty"` // result written over operand a (r.Op(r, ..))
	NA    string `json:"na,omitempty"`
	NG    string `json:"ng,omitempty"`
	Style int    `json:"style,omitempty"`
}

type groupCase struct {
	Arch string  `json:"arch"`
	Init []gInit `json:"init"`
	Ops  []gOp   `json:"ops"`
}

type gReg struct {
	p    secp256k1.XYZ
	k    *big.Int
	want *ec.Point // ec.BaseMul(k), computed once
}

func makeJac(in gInit) (secp256k1.XYZ, *big.Int, *ec.Point) {
	k := modN(bigHex(in.K))
	var r secp256k1.XYZ
	if k.Sign() == 0 {
		j := new(big.Int).SetBytes(unhex(in.Junk))
		r.X, r.Y, r.Z = denorm(j, in.Style[0]), denorm(new(big.Int).Add(j, one), in.Style[1]), denorm(new(big.Int).Rsh(j, 3), in.Style[2])
		r.Infinity = true
		return r, k, &ec.Point{Inf: true}
	}
	z := modP(bigHex(in.Z))
	if z.Sign() == 0 {
		z = big.NewInt(1)
	}
	pt := ec.BaseMul(k)
	z2 := modP(new(big.Int).Mul(z, z))
	z3 := modP(new(big.Int).Mul(z2, z))
	r.X = denorm(new(big.Int).Mul(pt.X, z2), in.Style[0])
	r.Y = denorm(new(big.Int).Mul(pt.Y, z3), in.Style[1])
	r.Z = denorm(z, in.Style[2])
	return r, k, &pt
}

func (g *gReg) check(what string) error {
	if g.want == nil {
		w := ec.BaseMul(g.k)
		g.want = &w
	}
	want := *g.want
	got, err := jacToRef(&g.p)
	if err != nil {
		return fmt.Errorf("%s: %v", what, err)
	}
	if !got.Equal(want) {
		return fmt.Errorf("%s: got %s, the group law gives %s (= %x * G)", what, ptStr(got), ptStr(want), g.k)
	}
	return nil
}

func pidx(i int) int {
	if i < 0 {
		i = -i
	}
	return i % nPts
}

// affineOf builds an XY for k*G straight from the reference (not through gocoin's conversion).
func affineOf(k *big.Int, style int) secp256k1.XY {
	var xy secp256k1.XY
	pt := ec.BaseMul(k)
	if pt.Inf {
		xy.Infinity = true
		return xy
	}
	xy.X = fieldFromBig(pt.X)
	switch style {
	case 1: // as XY.Neg leaves it: magnitude 2
		y := fieldFromBig(modP(new(big.Int).Neg(pt.Y)))
		secp256k1.VerifNegate(&y, &y, 1)
		xy.Y = y
	case 2:
		xy.X = denorm(pt.X, 2)
		xy.Y = denorm(pt.Y, 2)
	default:
		xy.Y = fieldFromBig(pt.Y)
	}
	return xy
}

type groupStats struct {
	applied   int
	doubling  int // Add/AddXY of equal points
	inverse   int // P + (-P)
	withInf   int
	infRes    int
	converted int // SetXYZ applied to a register in place
	reused    int // a later operation took such a register as an operand
}

func checkGroup(c groupCase) error {
	_, err := runGroup(c)
	return err
}

func runGroup(c groupCase) (st groupStats, err error) {
	regs := make([]gReg, nPts)
	for i := range regs {
		regs[i].p.Infinity = true
		regs[i].k = new(big.Int)
		if i < len(c.Init) {
			regs[i].p, regs[i].k, regs[i].want = makeJac(c.Init[i])
		}
		if err := regs[i].check(fmt.Sprintf("init %d", i)); err != nil {
			return st, fmt.Errorf("harness: %v", err)
		}
	}
	conv := map[*gReg]bool{} // registers whose representation was rescaled in place by SetXYZ
	for n, op := range c.Ops {
		a, b, r := &regs[pidx(op.A)], &regs[pidx(op.B)], &regs[pidx(op.R)]
		if op.Alias {
			r = a
		}
		if conv[a] || conv[b] && (op.Op == "add" || op.Op == "addxy") {
			st.reused++
		}
		what := fmt.Sprintf("op %d %s(a=P%d b=P%d r=P%d alias=%v na=%s ng=%s)", n, op.Op, pidx(op.A), pidx(op.B), pidx(op.R), op.Alias, op.NA, op.NG)
		pair := func(ka, kb *big.Int) {
			if ka.Sign() == 0 || kb.Sign() == 0 {
				st.withInf++
			} else if ka.Cmp(kb) == 0 {
				st.doubling++
			} else if modN(new(big.Int).Add(ka, kb)).Sign() == 0 {
				st.inverse++
			}
		}
		var out secp256k1.XYZ
		var kout *big.Int
		switch op.Op {
		case "add":
			pair(a.k, b.k)
			kout = modN(new(big.Int).Add(a.k, b.k))
			if op.Alias {
				bc := b.p // when b is the same register the second operand is a copy of it
				a.p.Add(&a.p, &bc)
				out = a.p
			} else {
				a.p.Add(&out, &b.p)
			}
		case "addxy":
			pair(a.k, b.k)
			kout = modN(new(big.Int).Add(a.k, b.k))
			bxy := affineOf(b.k, op.Style)
			if op.Alias {
				a.p.AddXY(&a.p, &bxy)
				out = a.p
			} else {
				a.p.AddXY(&out, &bxy)
			}
		case "double":
			if a.k.Sign() == 0 {
				st.withInf++
			}
			kout = modN(new(big.Int).Lsh(a.k, 1))
			if op.Alias {
				a.p.Double(&a.p)
				out = a.p
			} else {
				a.p.Double(&out)
			}
		case "neg":
			kout = modN(new(big.Int).Neg(a.k))
			if op.Alias {
				a.p.Neg(&a.p)
				out = a.p
			} else {
				a.p.Neg(&out)
			}
		case "ecmult":
			na, ng := bigHex(op.NA), bigHex(op.NG)
			if na.Sign() < 0 || ng.Sign() < 0 || na.BitLen() > 256 || ng.BitLen() > 256 {
				continue
			}
			if a.k.Sign() == 0 {
				st.withInf++
			}
			kout = new(big.Int).Mul(na, a.k)
			kout = modN(kout.Add(kout, ng))
			var xna, xng secp256k1.Number
			xna.Set(na)
			xng.Set(ng)
			if op.Alias {
				a.p.ECmult(&a.p, &xna, &xng)
				out = a.p
			} else {
				a.p.ECmult(&out, &xna, &xng)
			}
			if xna.Cmp(na) != 0 || xng.Cmp(ng) != 0 {
				return st, fmt.Errorf("%s: ECmult changed its scalar arguments", what)
			}
		case "ecmultgen":
			ng := bigHex(op.NG)
			if ng.Sign() < 0 || ng.BitLen() > 256 {
				continue
			}
			kout = modN(ng)
			var xng secp256k1.Number
			xng.Set(ng)
			secp256k1.ECmultGen(&out, &xng)
		case "setxy": // Jacobian -> affine -> Jacobian.  SetXYZ rescales its ARGUMENT in place (that is
			// its documented way of working); the argument register is used again by later
			// operations and must keep denoting the same point.
			kout = new(big.Int).Set(a.k)
			var xy secp256k1.XY
			if a.p.Infinity {
				xy.Infinity = true
			} else {
				xy.SetXYZ(&a.p)
				st.converted++
				conv[a] = true
			}
			out.SetXY(&xy)
		default:
			continue
		}
		st.applied++
		if kout.Sign() == 0 {
			st.infRes++
		}
		if !(op.Op == "setxy" && r != a) {
			delete(conv, r)
		}
		*r = gReg{p: out, k: kout}
		if err := r.check(what); err != nil {
			return st, err
		}
		// every register - operands included - keeps denoting its point
		for i := range regs {
			if err := regs[i].check(fmt.Sprintf("%s [register P%d afterwards]", what, i)); err != nil {
				return st, err
			}
		}
	}
	return st, nil
}

var zFixed = []*big.Int{big.NewInt(1), big.NewInt(2), big.NewInt(3), new(big.Int).Sub(ec.P, big.NewInt(1)), new(big.Int).Sub(ec.P, big.NewInt(2)),
	new(big.Int).Rsh(ec.P, 1), pow2(255), pow2(128)}

func genGInit(t *rapid.T, label string, pool []*big.Int) gInit {
	var k *big.Int
	if len(pool) > 0 && rapid.IntRange(0, 2).Draw(t, label+"_related") > 0 {
		// related to an earlier register: equal, opposite, or +-1 - this is what reaches the
		// doubling and the cancellation branches
		base := pool[rapid.IntRange(0, len(pool)-1).Draw(t, label+"_base")]
		switch rapid.IntRange(0, 4).Draw(t, label+"_rel") {
		case 0:
			k = new(big.Int).Set(base)
		case 1:
			k = modN(new(big.Int).Neg(base))
		case 2:
			k = modN(new(big.Int).Add(base, one))
		case 3:
			k = modN(new(big.Int).Lsh(base, 1))
		default:
			k = modN(new(big.Int).Mul(base, lambda)) // same y, x multiplied by beta
		}
	} else {
		k = genScalar(t, label+"_k")
	}
	var z *big.Int
	if rapid.Bool().Draw(t, label+"_zfixed") {
		z = zFixed[rapid.IntRange(0, len(zFixed)-1).Draw(t, label+"_z")]
	} else {
		z = modP(new(big.Int).SetBytes(rapid.SliceOfN(rapid.Byte(), 32, 32).Draw(t, label+"_zr")))
		if z.Sign() == 0 {
			z = big.NewInt(1)
		}
	}
	var st [3]int
	if rapid.Bool().Draw(t, label+"_denorm") {
		for i := range st {
			st[i] = rapid.IntRange(0, 4).Draw(t, label+"_style")
		}
	}
	return gInit{K: hexBig(k), Z: hexBig(z), Style: st, Junk: hx(rapid.SliceOfN(rapid.Byte(), 32, 32).Draw(t, label+"_junk"))}
}

func genGroupCase(t *rapid.T) groupCase {
	c := groupCase{Arch: arch}
	var pool []*big.Int
	for i := 0; i < nPts; i++ {
		in := genGInit(t, "p", pool)
		c.Init = append(c.Init, in)
		pool = append(pool, modN(bigHex(in.K)))
	}
	nops := rapid.IntRange(1, 8).Draw(t, "nops")
	names := []string{"add", "add", "add", "addxy", "addxy", "double", "double", "neg", "ecmult", "ecmult", "ecmultgen", "setxy", "setxy"}
	for n := 0; n < nops; n++ {
		op := gOp{Op: rapid.SampledFrom(names).Draw(t, "op"), A: rapid.IntRange(0, nPts-1).Draw(t, "a"), B: rapid.IntRange(0, nPts-1).Draw(t, "b"),
			R: rapid.IntRange(0, nPts-1).Draw(t, "r"), Alias: rapid.Bool().Draw(t, "alias")}
		switch op.Op {
		case "addxy":
			op.Style = rapid.IntRange(0, 2).Draw(t, "xystyle")
		case "ecmult":
			op.NA = hexBig(genScalar(t, "na"))
			op.NG = hexBig(genScalar(t, "ng"))
			if rapid.IntRange(0, 5).Draw(t, "ngzero") == 0 {
				op.NG = "0"
			}
		case "ecmultgen":
			op.NG = hexBig(genScalar(t, "ng"))
		}
		c.Ops = append(c.Ops, op)
	}
	return c
}

func TestGroupOps(t *testing.T) {
	pbt.Check(t, pbt.Cfg{Name: "group_ops", Quick: 40000, Thorough: 1200000}, func(r *pbt.Run) {
		c := genGroupCase(r.T)
		r.Case(c)
		st, err := runGroup(c)
		pbt.AddExtra("group_ops_applied", int64(st.applied))
		if st.doubling > 0 {
			r.Class("add_of_equal_points")
		}
		if st.inverse > 0 {
			r.Class("add_of_opposite_points")
		}
		if st.withInf > 0 {
			r.Class("operand_infinity")
		}
		if st.infRes > 0 {
			r.Class("result_infinity")
		}
		if st.reused > 0 {
			r.Class("register_reused_after_setxyz")
		}
		seen := map[string]bool{}
		for _, op := range c.Ops {
			if !seen[op.Op] {
				seen[op.Op] = true
				r.Class("op_" + op.Op)
			}
			if op.Op == "ecmult" {
				r.Class("ecmult_na_" + scalarClass(bigHex(op.NA))[7:])
			}
		}
		for _, in := range c.Init {
			if in.Style != [3]int{} {
				r.Class("non_canonical_coordinates")
				break
			}
		}
		if st.applied > 0 {
			r.NonTrivial()
		}
		if err != nil {
			r.Failf("%v", err)
		}
	})
}

// ---------------------------------------------------------------------------------------------
// (2b) the byte-level and affine helpers, one call per case

type funcCase struct {
	Arch string `json:"arch"`
	Fn   string `json:"fn"`
	K    string `json:"k,omitempty"`   // the point is K*G unless X is given
	X    string `json:"x,omitempty"`   // x coordinate of an arbitrary curve point (hex 32 bytes)
	Odd  bool   `json:"odd"`           // which of the two points with that x
	S    string `json:"s,omitempty"`   // scalar argument (hex, up to 32 bytes)
	K2   string `json:"k2,omitempty"`  // second point K2*G
	Fmt  int    `json:"fmt"`           // 0 compressed, 1 uncompressed, 2 hybrid
	Src  string `json:"src,omitempty"` // how the point was chosen (class label)
}

// point of the case: either K*G or the lifted X.
func (c funcCase) point() (ec.Point, bool) {
	if c.X != "" {
		pt, ok := ec.LiftX(new(big.Int).SetBytes(unhex(c.X)))
		if !ok {
			return ec.Infinity, false
		}
		if c.Odd {
			pt = ec.Neg(pt)
		}
		return pt, true
	}
	pt := ec.BaseMul(bigHex(c.K))
	return pt, !pt.Inf
}

func serialise(pt ec.Point, f int) []byte {
	switch f {
	case 1:
		return ec.SerializeUncompressed(pt)
	case 2:
		b := ec.SerializeUncompressed(pt)
		b[0] = 6 + byte(pt.Y.Bit(0))
		return b
	}
	return ec.SerializeCompressed(pt)
}

func checkFunc(c funcCase) error {
	pt, ok := c.point()
	if !ok {
		return nil // not a curve point: outside this property's domain (acceptance is C03)
	}
	s := new(big.Int).SetBytes(unhex(c.S))
	sb := b32(s)
	switch c.Fn {
	case "decompress":
		var y [32]byte
		secp256k1.DecompressPoint(b32(pt.X), pt.Y.Bit(0) == 1, y[:])
		if new(big.Int).SetBytes(y[:]).Cmp(pt.Y) != 0 {
			return fmt.Errorf("DecompressPoint(x=%x, odd=%v) = %x, the curve point has y=%x", pt.X, pt.Y.Bit(0) == 1, y, pt.Y)
		}
	case "setxo", "xonly", "parse":
		var xy secp256k1.XY
		want := pt
		switch c.Fn {
		case "setxo":
			x := fieldFromBig(pt.X)
			xy.SetXO(&x, pt.Y.Bit(0) == 1)
		case "xonly":
			if !xy.ParseXOnlyPubkey(b32(pt.X)) {
				return fmt.Errorf("ParseXOnlyPubkey refuses x=%x of a curve point", pt.X)
			}
			if pt.Y.Bit(0) == 1 {
				want = ec.Neg(pt)
			}
		default:
			enc := serialise(pt, c.Fmt)
			if !xy.ParsePubkey(enc) {
				return fmt.Errorf("ParsePubkey refuses the valid key %x", enc)
			}
		}
		if got := xyToRef(&xy); !got.Equal(want) {
			return fmt.Errorf("%s of %s gives %s", c.Fn, ptStr(want), ptStr(got))
		}
		if !xy.IsValid() {
			return fmt.Errorf("%s: IsValid is false for the curve point %s", c.Fn, ptStr(want))
		}
		// serialisation back
		cp := xy
		var out33 [33]byte
		var out65 [65]byte
		cp.GetPublicKey(out33[:])
		cp = xy
		cp.GetPublicKey(out65[:])
		if hx(out33[:]) != hx(ec.SerializeCompressed(want)) || hx(out65[:]) != hx(ec.SerializeUncompressed(want)) {
			return fmt.Errorf("%s: GetPublicKey gives %x / %x for %s", c.Fn, out33, out65, ptStr(want))
		}
		cp = xy
		cp.X.Normalize()
		cp.Y.Normalize()
		if hx(cp.Bytes(true)) != hx(ec.SerializeCompressed(want)) || hx(cp.Bytes(false)) != hx(ec.SerializeUncompressed(want)) {
			return fmt.Errorf("%s: Bytes gives %x / %x for %s", c.Fn, cp.Bytes(true), cp.Bytes(false), ptStr(want))
		}
	case "isvalid_off": // (x, y+1) is not on the curve
		y1 := modP(new(big.Int).Add(pt.Y, one))
		var xy secp256k1.XY
		xy.X, xy.Y = fieldFromBig(pt.X), fieldFromBig(y1)
		if xy.IsValid() {
			return fmt.Errorf("IsValid accepts (%x,%x) which is not on the curve", pt.X, y1)
		}
	case "multiply":
		want := ec.Mul(s, pt)
		var out [33]byte
		enc := serialise(pt, c.Fmt)
		if !secp256k1.Multiply(enc, sb, out[:]) {
			return fmt.Errorf("Multiply refuses the valid key %x", enc)
		}
		if want.Inf {
			return nil // the identity has no encoding: the output is not judged
		}
		if hx(out[:]) != hx(ec.SerializeCompressed(want)) {
			return fmt.Errorf("Multiply(%x, %x) = %x, expected %x", enc, sb, out, ec.SerializeCompressed(want))
		}
	case "basemultiply":
		want := ec.BaseMul(s)
		var out [33]byte
		secp256k1.BaseMultiply(sb, out[:])
		if !want.Inf && hx(out[:]) != hx(ec.SerializeCompressed(want)) {
			return fmt.Errorf("BaseMultiply(%x) = %x, expected %x", sb, out, ec.SerializeCompressed(want))
		}
		var out65 [65]byte
		secp256k1.BaseMultiply(sb, out65[:])
		if !want.Inf && hx(out65[:]) != hx(ec.SerializeUncompressed(want)) {
			return fmt.Errorf("BaseMultiply(%x) = %x, expected %x", sb, out65, ec.SerializeUncompressed(want))
		}
	case "basemultiplyadd":
		want := ec.Add(ec.BaseMul(s), pt)
		var out [33]byte
		enc := serialise(pt, c.Fmt)
		if !secp256k1.BaseMultiplyAdd(enc, sb, out[:]) {
			return fmt.Errorf("BaseMultiplyAdd refuses the valid key %x", enc)
		}
		if !want.Inf && hx(out[:]) != hx(ec.SerializeCompressed(want)) {
			return fmt.Errorf("BaseMultiplyAdd(%x, %x) = %x, expected %x", enc, sb, out, ec.SerializeCompressed(want))
		}
	case "xy_addxy", "xy_neg":
		q := ec.BaseMul(bigHex(c.K2))
		var a, b secp256k1.XY
		a.X, a.Y = fieldFromBig(pt.X), fieldFromBig(pt.Y)
		if c.Fn == "xy_neg" {
			var r secp256k1.XY
			a.Neg(&r)
			if got := xyToRef(&r); !got.Equal(ec.Neg(pt)) {
				return fmt.Errorf("XY.Neg(%s) = %s", ptStr(pt), ptStr(got))
			}
			return nil
		}
		if q.Inf {
			return nil
		}
		b.X, b.Y = fieldFromBig(q.X), fieldFromBig(q.Y)
		want := ec.Add(pt, q)
		a.AddXY(&b)
		if want.Inf {
			if !a.Infinity {
				return fmt.Errorf("XY.AddXY(%s, %s) is not flagged infinity", ptStr(pt), ptStr(q))
			}
			return nil
		}
		if got := xyToRef(&a); !got.Equal(want) {
			return fmt.Errorf("XY.AddXY(%s, %s) = %s, expected %s", ptStr(pt), ptStr(q), ptStr(got), ptStr(want))
		}
	case "precomp": // odd multiples used by ECmult, both coordinate systems
		var a secp256k1.XY
		a.X, a.Y = fieldFromBig(pt.X), fieldFromBig(pt.Y)
		var aj secp256k1.XYZ
		aj.SetXY(&a)
		pa := secp256k1.VerifPrecompXY(&a, secp256k1.WINDOW_A)
		pj := secp256k1.VerifPrecompXYZ(&aj, secp256k1.WINDOW_A)
		cur, step := pt, ec.Double(pt)
		for i := range pa {
			if got := xyToRef(&pa[i]); !got.Equal(cur) {
				return fmt.Errorf("XY.precomp[%d] of %s = %s, expected %s", i, ptStr(pt), ptStr(got), ptStr(cur))
			}
			got, err := jacToRef(&pj[i])
			if err != nil || !got.Equal(cur) {
				return fmt.Errorf("XYZ.precomp[%d] of %s = %s (%v), expected %s", i, ptStr(pt), ptStr(got), err, ptStr(cur))
			}
			cur = ec.Add(cur, step)
		}
	case "mul_lambda":
		var a secp256k1.XY
		a.X, a.Y = fieldFromBig(pt.X), fieldFromBig(pt.Y)
		var aj, rj secp256k1.XYZ
		aj.SetXY(&a)
		secp256k1.VerifMulLambda(&aj, &rj)
		got, err := jacToRef(&rj)
		want := ec.Mul(lambda, pt)
		if err != nil || !got.Equal(want) {
			return fmt.Errorf("mul_lambda(%s) = %s, lambda*P = %s", ptStr(pt), ptStr(got), ptStr(want))
		}
	case "ecmult_any": // na*P + ng*G for a point of unknown discrete logarithm
		na, ng := s, bigHex(c.K2)
		if ng.BitLen() > 256 || ng.Sign() < 0 {
			return nil
		}
		var a secp256k1.XY
		a.X, a.Y = fieldFromBig(pt.X), fieldFromBig(pt.Y)
		var aj, rj secp256k1.XYZ
		aj.SetXY(&a)
		var xna, xng secp256k1.Number
		xna.Set(na)
		xng.Set(ng)
		aj.ECmult(&rj, &xna, &xng)
		got, err := jacToRef(&rj)
		want := ec.MulAdd(na, pt, ng)
		if err != nil || !got.Equal(want) {
			return fmt.Errorf("ECmult(P=%s, na=%x, ng=%x) = %s (%v), expected %s", ptStr(pt), na, ng, ptStr(got), err, ptStr(want))
		}
	}
	return nil
}

var funcNames = []string{"decompress", "setxo", "xonly", "parse", "isvalid_off", "multiply", "basemultiply", "basemultiplyadd", "xy_addxy", "xy_neg", "precomp", "mul_lambda", "ecmult_any"}

// cubeRootExp = (p+2)/9: for p = 7 (mod 9) a cubic residue a has the cube root a^((p+2)/9).
var cubeRootExp = new(big.Int).Div(new(big.Int).Add(ec.P, big.NewInt(2)), big.NewInt(9))

// pointWithY returns a curve point whose y coordinate is the given value, if one exists
// (x = cube root of y^2-7; a third of the y have one).
func pointWithY(y *big.Int) (ec.Point, bool) {
	y = modP(y)
	a := modP(new(big.Int).Sub(new(big.Int).Mul(y, y), big.NewInt(7)))
	x := new(big.Int).Exp(a, cubeRootExp, bigP)
	if !ec.OnCurve(x, y) {
		return ec.Infinity, false
	}
	return ec.Point{X: x, Y: y}, true
}

// genSpecialY: y coordinates for which a square-root routine is likely to leave a non-canonical
// representation or a special limb pattern: tiny y, p - tiny, values next to the limb boundaries
// 2^(26i) / 2^(52i), (p-1)/2 +- small, all-ones limbs.
func genSpecialY(t *rapid.T) *big.Int {
	small := new(big.Int).SetUint64(rapid.Uint64Range(1, 1<<33).Draw(t, "ysmall"))
	if rapid.Bool().Draw(t, "ytiny") {
		small = new(big.Int).SetUint64(uint64(rapid.IntRange(1, 2000).Draw(t, "ytiny_v")))
	}
	var y *big.Int
	switch rapid.IntRange(0, 5).Draw(t, "ykind") {
	case 0, 1:
		y = small
	case 2:
		y = new(big.Int).Sub(bigP, small)
	case 3: // next to a limb boundary
		b := uint(rapid.SampledFrom([]int{26, 52, 78, 104, 130, 156, 182, 208, 234}).Draw(t, "ylimb"))
		y = pow2(b)
		if rapid.Bool().Draw(t, "ybelow") {
			y.Sub(y, small)
		} else {
			y.Add(y, small)
		}
	case 4:
		y = new(big.Int).Rsh(bigP, 1)
		if rapid.Bool().Draw(t, "ybelow") {
			y.Sub(y, small)
		} else {
			y.Add(y, small)
		}
	default: // one limb all-ones, the rest tiny
		b := uint(rapid.SampledFrom([]int{0, 26, 52, 104, 156, 204}).Draw(t, "ylimb"))
		y = new(big.Int).Lsh(new(big.Int).Sub(pow2(52), one), b)
		y.Add(y, small)
	}
	return modP(y)
}

func genFuncCase(t *rapid.T) funcCase {
	c := funcCase{Arch: arch, Fn: rapid.SampledFrom(funcNames).Draw(t, "fn"), Fmt: rapid.IntRange(0, 2).Draw(t, "fmt"), Odd: rapid.Bool().Draw(t, "odd")}
	switch rapid.IntRange(0, 3).Draw(t, "point_source") {
	case 0: // a point chosen by its y coordinate (special square roots)
		y := genSpecialY(t)
		for i := 0; i < 200; i++ {
			if pt, ok := pointWithY(y); ok {
				c.X, c.Odd, c.Src = hx(b32(pt.X)), pt.Y.Bit(0) == 1, "special_y"
				// the functions that decompress
				c.Fn = rapid.SampledFrom([]string{"setxo", "xonly", "parse", "decompress", "multiply", "basemultiplyadd", "setxo", "parse"}).Draw(t, "fn_y")
				c.Fmt = 0
				break
			}
			y = modP(y.Add(y, one))
		}
	case 1:
		// arbitrary x; about half of them are on the curve
		x := genFieldValue(t, "x")
		if x.Cmp(bigP) >= 0 {
			x = modP(x)
		}
		for i := 0; i < 64; i++ {
			if _, ok := ec.LiftX(x); ok {
				break
			}
			x = modP(new(big.Int).Add(x, one))
		}
		c.X = hx(b32(x))
	}
	if c.X == "" {
		k := modN(genScalar(t, "k"))
		if k.Sign() == 0 {
			k = big.NewInt(1)
		}
		c.K = hexBig(k)
	}
	c.S = hx(b32(genScalar(t, "s")))
	switch c.Fn {
	case "xy_addxy":
		k2 := genScalar(t, "k2")
		if c.K != "" {
			switch rapid.IntRange(0, 3).Draw(t, "rel") {
			case 0:
				k2 = bigHex(c.K)
			case 1:
				k2 = modN(new(big.Int).Neg(bigHex(c.K)))
			}
		}
		c.K2 = hexBig(k2)
	case "ecmult_any":
		c.K2 = hexBig(genScalar(t, "ng"))
	case "basemultiplyadd":
		// sometimes s*G = -P (identity result) or s*G = P (doubling inside AddXY)
		if c.K != "" {
			switch rapid.IntRange(0, 5).Draw(t, "rel") {
			case 0:
				c.S = hx(b32(bigHex(c.K)))
			case 1:
				c.S = hx(b32(modN(new(big.Int).Neg(bigHex(c.K)))))
			}
		}
	}
	return c
}

func TestFuncs(t *testing.T) {
	pbt.Check(t, pbt.Cfg{Name: "funcs", Quick: 64000, Thorough: 2000000}, func(r *pbt.Run) {
		c := genFuncCase(r.T)
		r.Case(c)
		r.Class(c.Fn)
		if c.Src != "" {
			r.Class(c.Src)
			r.Class(c.Src + "/" + c.Fn)
		} else if c.X != "" {
			r.Class("arbitrary_curve_point")
		}
		r.NonTrivial()
		if err := checkFunc(c); err != nil {
			r.Failf("%v", err)
		}
	})
}

// ---------------------------------------------------------------------------------------------
// (2c) scalar decomposition and wNAF: the conditions ECmult depends on

type scalarCase struct {
	Arch string `json:"arch"`
	K    string `json:"k"`
}

func checkScalar(c scalarCase) error {
	k := bigHex(c.K)
	if k.Sign() < 0 || k.BitLen() > 256 {
		return nil
	}
	var a, r1, r2 secp256k1.Number
	a.Set(k)
	secp256k1.VerifSplitExp(&a, &r1, &r2)
	// k1 + k2*lambda = k (mod n), both halves short enough for the 129-entry wNAF arrays
	v := new(big.Int).Mul(&r2.Int, lambda)
	v.Add(v, &r1.Int)
	if modN(v).Cmp(modN(k)) != 0 {
		return fmt.Errorf("split_exp(%x) = (%x, %x): k1 + k2*lambda != k (mod n)", k, &r1.Int, &r2.Int)
	}
	var lo, hi secp256k1.Number
	secp256k1.VerifSplit(&a, &lo, &hi, 128)
	if a.Cmp(k) != 0 {
		return fmt.Errorf("split changed its argument")
	}
	wantLo := new(big.Int).And(k, new(big.Int).Sub(pow2(128), one))
	wantHi := new(big.Int).Rsh(k, 128)
	if lo.Cmp(wantLo) != 0 || hi.Cmp(wantHi) != 0 {
		return fmt.Errorf("split(%x, 128) = (%x, %x), expected (%x, %x)", k, &lo.Int, &hi.Int, wantLo, wantHi)
	}
	for _, x := range []struct {
		v *big.Int
		w uint
	}{{&r1.Int, secp256k1.WINDOW_A}, {&r2.Int, secp256k1.WINDOW_A}, {wantLo, secp256k1.WINDOW_G}, {wantHi, secp256k1.WINDOW_G}} {
		var num secp256k1.Number
		num.Set(x.v)
		wnaf := make([]int, 129)
		var n int
		func() {
			defer func() {
				if p := recover(); p != nil {
					n = -1
				}
			}()
			n = secp256k1.VerifWnaf(wnaf, &num, x.w)
		}()
		if n < 0 {
			return fmt.Errorf("ecmult_wnaf(%x, w=%d) overruns the 129-entry array", x.v, x.w)
		}
		sum := new(big.Int)
		for i := n - 1; i >= 0; i-- {
			sum.Lsh(sum, 1)
			sum.Add(sum, big.NewInt(int64(wnaf[i])))
			d := wnaf[i]
			if d != 0 && (d&1 == 0 || d >= 1<<(x.w-1) || d <= -(1<<(x.w-1))) {
				return fmt.Errorf("ecmult_wnaf(%x, w=%d): digit %d = %d is outside the table of odd multiples", x.v, x.w, i, d)
			}
		}
		if sum.Cmp(x.v) != 0 {
			return fmt.Errorf("ecmult_wnaf(%x, w=%d): digits sum to %x", x.v, x.w, sum)
		}
	}
	return nil
}

func TestScalarHelpers(t *testing.T) {
	pbt.Check(t, pbt.Cfg{Name: "scalar_helpers", Quick: 200000, Thorough: 6000000}, func(r *pbt.Run) {
		k := genScalar(r.T, "k")
		c := scalarCase{Arch: arch, K: hexBig(k)}
		r.Case(c)
		r.Class(scalarClass(k))
		r.NonTrivial()
		if err := checkScalar(c); err != nil {
			r.Failf("%v", err)
		}
	})
}
