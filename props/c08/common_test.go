// Package c08 checks property C08: secp256k1 field and group arithmetic of gocoin equals the
// mathematical definition (ref/ec over math/big), and the embedded tables are exact.
package c08

import (
	"encoding/hex"
	"encoding/json"
	"fmt"
	"math/big"
	"os"
	"testing"

	"github.com/piotrnar/gocoin/lib/secp256k1"
	"pgregory.net/rapid"
	"verif/pbt"
	"verif/ref/ec"
)

var (
	bigP = ec.P
	bigN = ec.N
	one  = big.NewInt(1)
	two  = big.NewInt(2)

	limbCount, limbBits, topBits = secp256k1.VerifLimbGeometry()
	arch                         = secp256k1.FieldArch
)

func TestMain(m *testing.M) {
	pbt.RegisterReplay("field_ops", replayer(func(c fieldCase) (string, error) { return c.Arch, checkField(c) }))
	pbt.RegisterReplay("group_ops", replayer(func(c groupCase) (string, error) { return c.Arch, checkGroup(c) }))
	pbt.RegisterReplay("funcs", replayer(func(c funcCase) (string, error) { return c.Arch, checkFunc(c) }))
	pbt.RegisterReplay("scalar_helpers", replayer(func(c scalarCase) (string, error) { return c.Arch, checkScalar(c) }))
	pbt.RegisterReplay("group_constructed", replayer(func(c consCase) (string, error) { return c.Arch, checkConstructed(c) }))
	pbt.RegisterReplay("serialise65", replayer(func(c serCase) (string, error) { return c.Arch, checkSer(c) }))
	pbt.RegisterReplay("tables", replayer(func(c tableCase) (string, error) { return c.Arch, checkTableEntry(c) }))
	pbt.Main(m, "C08")
}

// replayer decodes a case; a case recorded on the other limb representation (GOARCH=386 run) is
// handed to the 386 binary.
func replayer[T any](f func(T) (string, error)) func(json.RawMessage) error {
	return func(raw json.RawMessage) error {
		var hdr struct {
			Arch string `json:"arch"`
		}
		json.Unmarshal(raw, &hdr)
		if hdr.Arch != "" && hdr.Arch != arch && os.Getenv("VERIF_C08_SUB") == "" {
			return replayOtherArch(raw)
		}
		var c T
		if err := json.Unmarshal(raw, &c); err != nil {
			return err
		}
		_, err := f(c)
		return err
	}
}

// ---------------------------------------------------------------------------------------------
// small helpers

func hx(b []byte) string { return hex.EncodeToString(b) }

func unhex(s string) []byte {
	b, err := hex.DecodeString(s)
	if err != nil {
		panic("bad hex in case: " + s)
	}
	return b
}

func bigHex(s string) *big.Int {
	if s == "" {
		return new(big.Int)
	}
	neg := false
	if s[0] == '-' {
		neg = true
		s = s[1:]
	}
	v, ok := new(big.Int).SetString(s, 16)
	if !ok {
		panic("bad number in case: " + s)
	}
	if neg {
		v.Neg(v)
	}
	return v
}

func hexBig(v *big.Int) string { return v.Text(16) }

func b32(v *big.Int) []byte { return ec.Bytes32(v) }

func pow2(n uint) *big.Int { return new(big.Int).Lsh(one, n) }

func modP(v *big.Int) *big.Int { return new(big.Int).Mod(v, bigP) }
func modN(v *big.Int) *big.Int { return new(big.Int).Mod(v, bigN) }

// limbValue is the integer a Field's raw limbs stand for (no reduction), read through the hook and
// therefore independent of gocoin's Normalize/GetB32.
func limbValue(f *secp256k1.Field) *big.Int {
	l := secp256k1.VerifLimbs(f)
	v := new(big.Int)
	for i := len(l) - 1; i >= 0; i-- {
		v.Lsh(v, limbBits)
		v.Add(v, new(big.Int).SetUint64(l[i]))
	}
	return v
}

func fieldVal(f *secp256k1.Field) *big.Int { return modP(limbValue(f)) }

func limbMax(i int) uint64 {
	if i == limbCount-1 {
		return 1<<topBits - 1
	}
	return 1<<limbBits - 1
}

// limbs of p in the native geometry
func pLimb(i int) uint64 {
	v := new(big.Int).Rsh(bigP, uint(i)*limbBits)
	return v.Uint64() & (1<<limbBits - 1)
}

func fieldFromBig(v *big.Int) secp256k1.Field {
	var f secp256k1.Field
	f.SetB32(b32(v))
	return f
}

// jacToRef converts gocoin's Jacobian point to the reference's affine point using big integers on
// the raw limbs only.
func jacToRef(p *secp256k1.XYZ) (ec.Point, error) {
	if p.Infinity {
		return ec.Infinity, nil
	}
	x, y, z := fieldVal(&p.X), fieldVal(&p.Y), fieldVal(&p.Z)
	if z.Sign() == 0 {
		return ec.Infinity, fmt.Errorf("Z = 0 (mod p) but the Infinity flag is not set")
	}
	zi := new(big.Int).ModInverse(z, bigP)
	zi2 := modP(new(big.Int).Mul(zi, zi))
	zi3 := modP(new(big.Int).Mul(zi2, zi))
	return ec.Point{X: modP(x.Mul(x, zi2)), Y: modP(y.Mul(y, zi3))}, nil
}

func xyToRef(p *secp256k1.XY) ec.Point {
	if p.Infinity {
		return ec.Infinity
	}
	return ec.Point{X: fieldVal(&p.X), Y: fieldVal(&p.Y)}
}

func ptStr(p ec.Point) string {
	if p.Inf {
		return "infinity"
	}
	return fmt.Sprintf("(%x,%x)", p.X, p.Y)
}

// denorm returns a Field holding v (mod p) in a non-canonical way.
//
//	0: SetB32(v) canonical        1: double negation (magnitude 3)
//	2: SetB32(v+p) when it fits   3: sum of two halves (magnitude 2)
//	4: (v/2)*2 through MulInt (magnitude 2)
func denorm(v *big.Int, style int) secp256k1.Field {
	v = modP(v)
	switch style {
	case 1:
		f := fieldFromBig(v)
		secp256k1.VerifNegate(&f, &f, 1)
		secp256k1.VerifNegate(&f, &f, 2)
		return f
	case 2:
		w := new(big.Int).Add(v, bigP)
		if w.BitLen() <= 256 {
			return fieldFromBig(w)
		}
		return fieldFromBig(v)
	case 3:
		a := new(big.Int).Rsh(v, 1)
		a.Xor(a, new(big.Int).Rsh(bigP, 3))
		a = modP(a)
		b := modP(new(big.Int).Sub(v, a))
		f, g := fieldFromBig(a), fieldFromBig(b)
		f.SetAdd(&g)
		return f
	case 4:
		h := new(big.Int).Mul(v, new(big.Int).ModInverse(two, bigP))
		f := fieldFromBig(modP(h))
		secp256k1.VerifMulInt(&f, 2)
		return f
	}
	return fieldFromBig(v)
}

// ---------------------------------------------------------------------------------------------
// hostile pools (all drawn through rapid)

var fieldFixed = func() []*big.Int {
	p := bigP
	l := []*big.Int{
		big.NewInt(0), big.NewInt(1), big.NewInt(2), big.NewInt(3), big.NewInt(7),
		new(big.Int).Sub(p, one), new(big.Int).Set(p), new(big.Int).Add(p, one), new(big.Int).Sub(p, two),
		new(big.Int).Sub(pow2(256), one), pow2(255), new(big.Int).Sub(pow2(255), one),
		new(big.Int).Rsh(p, 1), new(big.Int).Add(new(big.Int).Rsh(p, 1), one),
		new(big.Int).Add(p, big.NewInt(976)), new(big.Int).Add(p, big.NewInt(0x1000003D0)),
		big.NewInt(0x1000003D1), big.NewInt(0x1000003D0), pow2(32), new(big.Int).Sub(pow2(32), one),
		new(big.Int).Set(ec.Gx), new(big.Int).Set(ec.Gy), new(big.Int).Set(bigN),
	}
	for _, b := range []uint{26, 52, 78, 104, 130, 156, 182, 208, 234, 22, 48, 64, 128, 192, 230} {
		l = append(l, pow2(b), new(big.Int).Sub(pow2(b), one), new(big.Int).Add(pow2(b), one))
		// one limb all-ones at that position
		l = append(l, new(big.Int).Lsh(new(big.Int).Sub(pow2(52), one), b%205))
	}
	return l
}()

// genLimbPattern builds a 256-bit value limb by limb at 26-bit granularity (a 52-bit limb is two of
// them; the top one has 22 bits): mostly all-ones limbs with a few exceptions, or mostly zero, each
// exception being zero / all-ones / one below / the corresponding limb of p / that +-1 / random.  The
// two lowest limbs get the values around p's low limbs (0x3FFFC2F, 0x3FFFFBF) more often.
func genLimbPattern(t *rapid.T, label string) *big.Int {
	base := rapid.SampledFrom([]int{0, 0, 0, 1}).Draw(t, label+"_base") // 0: mostly ones, 1: mostly zero
	v := new(big.Int)
	for i := 9; i >= 0; i-- {
		width := uint(26)
		if i == 9 {
			width = 22
		}
		ones := uint64(1)<<width - 1
		pl := new(big.Int).Rsh(bigP, uint(i)*26).Uint64() & ones
		l := ones
		if base == 1 {
			l = 0
		}
		exc := rapid.IntRange(0, 9).Draw(t, label+"_exc")
		if i < 2 {
			exc = rapid.IntRange(0, 3).Draw(t, label+"_exclow")
		}
		if exc < 2 || i < 2 && exc < 3 {
			switch rapid.IntRange(0, 7).Draw(t, label+"_how") {
			case 0:
				l = 0
			case 1:
				l = ones
			case 2:
				l = ones - 1
			case 3:
				l = pl
			case 4:
				l = pl - 1
			case 5:
				l = (pl + 1) & ones
			case 6:
				l = 1
			default:
				l = rapid.Uint64Range(0, ones).Draw(t, label+"_rnd")
			}
		}
		v.Lsh(v, width)
		v.Or(v, new(big.Int).SetUint64(l))
	}
	return v
}

func genFieldValue(t *rapid.T, label string) *big.Int {
	switch rapid.IntRange(0, 12).Draw(t, label+"_kind") {
	case 10, 11, 12:
		return genLimbPattern(t, label+"_lp")
	case 0, 1, 2:
		return new(big.Int).Set(fieldFixed[rapid.IntRange(0, len(fieldFixed)-1).Draw(t, label+"_fixed")])
	case 3: // p + k, the whole non-canonical range
		k := rapid.Uint64Range(0, 0x1000003D0).Draw(t, label+"_k")
		return new(big.Int).Add(bigP, new(big.Int).SetUint64(k))
	case 4: // p - k
		k := rapid.Uint64Range(0, 1<<33).Draw(t, label+"_k")
		return new(big.Int).Sub(bigP, new(big.Int).SetUint64(k))
	case 5: // every byte 0x00 or 0xff: carry-heavy
		b := make([]byte, 32)
		m := rapid.Uint32().Draw(t, label+"_mask")
		for i := range b {
			if m>>uint(i)&1 == 1 {
				b[i] = 0xff
			}
		}
		return new(big.Int).SetBytes(b)
	case 6: // small
		return new(big.Int).SetUint64(rapid.Uint64().Draw(t, label+"_small"))
	default:
		return new(big.Int).SetBytes(rapid.SliceOfN(rapid.Byte(), 32, 32).Draw(t, label+"_rnd"))
	}
}

var (
	lambda = bigHex("5363ad4cc05c30e0a5261c028812645a122e22ea20816678df02967c1b23bd72")
	// lattice constants, written down here from the GLV paper / libsecp256k1 documentation
	latA1    = bigHex("3086d221a7d46bcde86c90e49284eb15")
	latB1neg = bigHex("e4437ed6010e88286f547fa90abfe4c3")
	latA2    = bigHex("114ca50f7a8e2f3f657c1108d9d44cfd8")
)

var scalarFixed = func() []*big.Int {
	n := bigN
	l := []*big.Int{
		big.NewInt(0), big.NewInt(1), big.NewInt(2), big.NewInt(3), big.NewInt(15), big.NewInt(16), big.NewInt(17),
		new(big.Int).Sub(n, one), new(big.Int).Set(n), new(big.Int).Add(n, one), new(big.Int).Sub(n, two), new(big.Int).Add(n, two),
		new(big.Int).Sub(pow2(128), one), pow2(128), new(big.Int).Add(pow2(128), one),
		new(big.Int).Sub(pow2(127), one), pow2(127), pow2(129), new(big.Int).Sub(pow2(129), one),
		new(big.Int).Sub(pow2(256), one), new(big.Int).Sub(pow2(256), two), pow2(255), new(big.Int).Sub(pow2(255), one),
		new(big.Int).Sub(pow2(64), one), pow2(64), new(big.Int).Add(pow2(64), one),
		new(big.Int).Sub(pow2(192), one), pow2(192),
		new(big.Int).Rsh(n, 1), new(big.Int).Add(new(big.Int).Rsh(n, 1), one),
		new(big.Int).Set(lambda), modN(new(big.Int).Mul(lambda, lambda)), new(big.Int).Sub(n, lambda),
		new(big.Int).Add(lambda, one), new(big.Int).Sub(lambda, one),
		new(big.Int).Set(latA1), new(big.Int).Set(latB1neg), new(big.Int).Set(latA2), new(big.Int).Sub(n, latB1neg),
		new(big.Int).Sub(pow2(256), n), new(big.Int).Set(bigP),
		// (16^64-1)/15: every nibble 1; and every nibble 15
		bigHex("1111111111111111111111111111111111111111111111111111111111111111"),
		bigHex("8888888888888888888888888888888888888888888888888888888888888888"),
		bigHex("aaaaaaaaaaaaaaaaaaaaaaaaaaaaaaaaaaaaaaaaaaaaaaaaaaaaaaaaaaaaaaaa"),
		bigHex("5555555555555555555555555555555555555555555555555555555555555555"),
	}
	return l
}()

// genScalar draws a scalar in [0, 2^256).
func genScalar(t *rapid.T, label string) *big.Int {
	switch rapid.IntRange(0, 11).Draw(t, label+"_kind") {
	case 0, 1:
		return new(big.Int).Set(scalarFixed[rapid.IntRange(0, len(scalarFixed)-1).Draw(t, label+"_fixed")])
	case 2: // run of ones 2^a - 2^b
		a := rapid.IntRange(1, 256).Draw(t, label+"_a")
		b := rapid.IntRange(0, a-1).Draw(t, label+"_b")
		return new(big.Int).Sub(pow2(uint(a)), pow2(uint(b)))
	case 3: // sparse 2^a +- 2^b
		a := rapid.IntRange(1, 255).Draw(t, label+"_a")
		b := rapid.IntRange(0, a-1).Draw(t, label+"_b")
		if rapid.Bool().Draw(t, label+"_minus") {
			return new(big.Int).Sub(pow2(uint(a)), pow2(uint(b)))
		}
		return new(big.Int).Add(pow2(uint(a)), pow2(uint(b)))
	case 4: // lambda-split extremes: k1 + k2*lambda with |k1|,|k2| near the 128-bit bound
		k1 := genHalf(t, label+"_k1")
		k2 := genHalf(t, label+"_k2")
		v := new(big.Int).Mul(k2, lambda)
		v.Add(v, k1)
		return modN(v)
	case 5: // n +- small, 2^256 - small
		k := new(big.Int).SetUint64(uint64(rapid.Uint32().Draw(t, label+"_d")))
		switch rapid.IntRange(0, 2).Draw(t, label+"_w") {
		case 0:
			return new(big.Int).Add(bigN, k)
		case 1:
			return new(big.Int).Sub(bigN, k)
		default:
			return new(big.Int).Sub(new(big.Int).Sub(pow2(256), one), k)
		}
	case 6: // repeated window pattern (wNAF digits all maximal)
		w := rapid.SampledFrom([]uint{4, 5, 14}).Draw(t, label+"_w")
		d := rapid.SampledFrom([]uint64{1<<(w-1) - 1, 1 << (w - 1), 1<<(w-1) + 1, 1<<w - 1}).Draw(t, label+"_digit")
		v := new(big.Int)
		for i := uint(0); i+w <= 256; i += w {
			v.Or(v, new(big.Int).Lsh(new(big.Int).SetUint64(d), i))
		}
		return v
	case 7: // bytes 00 / ff
		b := make([]byte, 32)
		m := rapid.Uint32().Draw(t, label+"_mask")
		for i := range b {
			if m>>uint(i)&1 == 1 {
				b[i] = 0xff
			}
		}
		return new(big.Int).SetBytes(b)
	case 8: // small
		return new(big.Int).SetUint64(uint64(rapid.Uint32().Draw(t, label+"_small")))
	case 9: // 128-bit boundary neighbourhood
		v := new(big.Int).SetBytes(rapid.SliceOfN(rapid.Byte(), 16, 16).Draw(t, label+"_lo"))
		if rapid.Bool().Draw(t, label+"_hi") {
			v.Lsh(v, 128)
		}
		return v
	default:
		return new(big.Int).SetBytes(rapid.SliceOfN(rapid.Byte(), 32, 32).Draw(t, label+"_rnd"))
	}
}

// genHalf: signed value of about 128 bits, biased to the extremes of the GLV decomposition.
func genHalf(t *rapid.T, label string) *big.Int {
	var v *big.Int
	switch rapid.IntRange(0, 6).Draw(t, label+"_kind") {
	case 0:
		v = new(big.Int).Sub(pow2(128), one)
	case 1:
		v = pow2(127)
	case 2: // (a1+a2)/2 is about the largest |k1| the rounding can leave
		v = new(big.Int).Add(latA1, latA2)
		v.Rsh(v, 1)
	case 3:
		v = new(big.Int).Add(latA1, latB1neg)
		v.Rsh(v, 1)
	case 4:
		v = new(big.Int).SetUint64(uint64(rapid.IntRange(0, 3).Draw(t, label+"_tiny")))
	default:
		v = new(big.Int).SetBytes(rapid.SliceOfN(rapid.Byte(), 16, 16).Draw(t, label+"_rnd"))
	}
	d := int64(rapid.IntRange(-2, 2).Draw(t, label+"_delta"))
	v.Add(v, big.NewInt(d))
	if rapid.Bool().Draw(t, label+"_neg") {
		v.Neg(v)
	}
	return v
}

func scalarClass(k *big.Int) string {
	switch {
	case k.Sign() == 0:
		return "scalar_zero"
	case k.Cmp(bigN) == 0:
		return "scalar_n"
	case k.Cmp(bigN) > 0:
		return "scalar_above_n"
	case k.BitLen() <= 128:
		return "scalar_le_128bit"
	}
	return "scalar_general"
}
