package c08

import (
	"fmt"
	"math/big"
	"testing"

	"github.com/piotrnar/gocoin/lib/secp256k1"
	"pgregory.net/rapid"
	"verif/pbt"
	"verif/ref/ec"
)

// ---------------------------------------------------------------------------------------------
// (2d) constructed operands for the addition formulas.
//
// Random points give random intermediate field values; a limb-level fault inside Add / AddXY / Double
// (a Negate with too small a magnitude, a dropped carry) shows only when the INTERMEDIATES
//
//	h = u2 - u1,  i = s2 - s1,  t = u1*h^2,  h^3,  i^2        (u1 = A.X, s1 = A.Y, u2 = B.X*A.Z^2, s2 = B.Y*A.Z^3)
//
// have special low limbs.  Such operands are solved for, not searched: pick h^3, t and i^2 with the wanted low
// 52 bits (two 26-bit halves: all ones, all ones minus a little, zero, a little, one, random), take
// h = cube root, i = square root, u1 = t/h^2; the two curve equations
//
//	s1^2 = u1^3 + 7 Z^6,   (s1+i)^2 = (u1+h)^3 + 7 Z^6
//
// give s1 = ((u1+h)^3 - u1^3 - i^2) / 2i and Z^6 = (s1^2 - u1^3)/7, which has a sixth root for one choice in
// six (the random upper bits are redrawn until it has).  A = (u1, s1, Z), B = ((u1+h)/Z^2, (s1+i)/Z^3).  For the
// Jacobian + Jacobian formula B is rescaled by any z and A by 1/z, which leaves u1, u2, s1, s2 unchanged.
// For Double (and as the Jacobian operand of a mixed addition with a random second point) X and Y themselves
// are limb patterns and Z is solved from Y^2 = X^3 + 7 Z^6.  The oracle is the affine group law of ref/ec on
// the points these operands denote; the construction is only the generator and is re-validated by the
// reference (both operands must lie on the curve) before gocoin is asked.

type consCase struct {
	Arch  string    `json:"arch"`
	Op    string    `json:"op"` // addxy | add | double | addxy_pattern
	A     [3]string `json:"a"`  // Jacobian X, Y, Z (canonical values)
	B     [3]string `json:"b"`  // second operand: X, Y and Z ("" = affine)
	Alias bool      `json:"alias"`
	Style [3]int    `json:"style"` // field representation of B's coordinates (see denorm); A is loaded canonically
	Tags  []string  `json:"tags,omitempty"`
}

func jacAffine(x, y, z *big.Int) (ec.Point, bool) {
	if modP(z).Sign() == 0 {
		return ec.Infinity, false
	}
	zi := new(big.Int).ModInverse(modP(z), bigP)
	zi2 := modP(new(big.Int).Mul(zi, zi))
	zi3 := modP(new(big.Int).Mul(zi2, zi))
	ax, ay := modP(new(big.Int).Mul(x, zi2)), modP(new(big.Int).Mul(y, zi3))
	return ec.Point{X: ax, Y: ay}, ec.OnCurve(ax, ay)
}

func checkConstructed(c consCase) error {
	ax, ay, az := bigHex(c.A[0]), bigHex(c.A[1]), bigHex(c.A[2])
	pa, ok := jacAffine(ax, ay, az)
	if !ok {
		return nil // not a curve point: outside the domain (only hand-edited cases)
	}
	var A secp256k1.XYZ
	A.X, A.Y, A.Z = fieldFromBig(ax), fieldFromBig(ay), fieldFromBig(az)
	var out secp256k1.XYZ
	var want ec.Point
	switch c.Op {
	case "double":
		want = ec.Double(pa)
		if c.Alias {
			A.Double(&A)
			out = A
		} else {
			A.Double(&out)
		}
	case "addxy", "addxy_pattern":
		bx, by := bigHex(c.B[0]), bigHex(c.B[1])
		if !ec.OnCurve(modP(bx), modP(by)) {
			return nil
		}
		pb := ec.Point{X: modP(bx), Y: modP(by)}
		want = ec.Add(pa, pb)
		var B secp256k1.XY
		B.X, B.Y = denorm(bx, c.Style[0]), denorm(by, c.Style[1])
		if c.Alias {
			A.AddXY(&A, &B)
			out = A
		} else {
			A.AddXY(&out, &B)
		}
	case "add":
		bx, by, bz := bigHex(c.B[0]), bigHex(c.B[1]), bigHex(c.B[2])
		pb, ok := jacAffine(bx, by, bz)
		if !ok {
			return nil
		}
		want = ec.Add(pa, pb)
		var B secp256k1.XYZ
		B.X, B.Y, B.Z = denorm(bx, c.Style[0]), denorm(by, c.Style[1]), denorm(bz, c.Style[2])
		if c.Alias {
			A.Add(&A, &B)
			out = A
		} else {
			A.Add(&out, &B)
		}
	default:
		return nil
	}
	got, err := jacToRef(&out)
	if err != nil {
		return fmt.Errorf("%s(A=%v, B=%v): %v", c.Op, c.A, c.B, err)
	}
	if !got.Equal(want) {
		return fmt.Errorf("%s(A=%v, B=%v, alias=%v) [%v]: got %s, the group law gives %s", c.Op, c.A, c.B, c.Alias, c.Tags, ptStr(got), ptStr(want))
	}
	return nil
}

// low52 draws the low 52 bits as two 26-bit halves; returns the value and a label of the low half.
func low52(t *rapid.T, label string) (uint64, string) {
	half := func(l string) (uint64, string) {
		const ones = 1<<26 - 1
		switch rapid.IntRange(0, 5).Draw(t, l+"_kind") {
		case 0:
			return ones, "ones"
		case 1:
			return ones - uint64(rapid.IntRange(1, 1000).Draw(t, l+"_below")), "near_ones"
		case 2:
			return 0, "zero"
		case 3:
			return uint64(rapid.IntRange(1, 1000).Draw(t, l+"_small")), "small"
		case 4:
			return 1, "one"
		}
		return rapid.Uint64Range(0, ones).Draw(t, l+"_rnd"), "random"
	}
	lo, tag := half(label + "_lo")
	hi := lo
	if rapid.Bool().Draw(t, label+"_hi_differs") {
		hi, _ = half(label + "_hi")
	}
	return hi<<26 | lo, tag
}

// withLow returns a field element with the given low 52 bits and drawn upper bits.
func withLow(t *rapid.T, label string, low uint64) *big.Int {
	v := new(big.Int).SetBytes(rapid.SliceOfN(rapid.Byte(), 26, 26).Draw(t, label))
	v.Lsh(v, 52)
	v.Or(v, new(big.Int).SetUint64(low))
	return modP(v)
}

func cubeRoot(a *big.Int) (*big.Int, bool) {
	r := new(big.Int).Exp(a, cubeRootExp, bigP)
	c := modP(new(big.Int).Mul(modP(new(big.Int).Mul(r, r)), r))
	return r, c.Cmp(modP(new(big.Int).Set(a))) == 0
}

// sixthRoot: z with z^6 = w, if one exists.
func sixthRoot(w *big.Int) (*big.Int, bool) {
	s, ok := ec.Sqrt(w)
	if !ok {
		return nil, false
	}
	z, ok := cubeRoot(s)
	if !ok || z.Sign() == 0 {
		return nil, false
	}
	return z, true
}

var inv7 = new(big.Int).ModInverse(big.NewInt(7), ec.P)

func mulP(a, b *big.Int) *big.Int { return modP(new(big.Int).Mul(a, b)) }
func cube(a *big.Int) *big.Int    { return mulP(mulP(a, a), a) }

// solveMixed constructs A (Jacobian) and B (affine) for chosen low limbs of h^3, t = u1*h^2 and i^2.
func solveMixed(t *rapid.T) (a [3]*big.Int, b [2]*big.Int, tags []string, ok bool) {
	h3low, tagH := low52(t, "h3")
	tlow, tagT := low52(t, "t")
	i2low, tagI := low52(t, "i2")
	tags = []string{"h3_" + tagH, "t_" + tagT, "i2_" + tagI}
	var h, i *big.Int
	for n := 0; ; n++ {
		if n > 40 {
			return a, b, tags, false
		}
		c := withLow(t, "h3_hi", h3low)
		if r, ok := cubeRoot(c); ok && r.Sign() != 0 {
			h = r
			break
		}
	}
	for n := 0; ; n++ {
		if n > 40 {
			return a, b, tags, false
		}
		w := withLow(t, "i2_hi", i2low)
		if r, ok := ec.Sqrt(w); ok && r.Sign() != 0 {
			i = r
			break
		}
	}
	h2i := new(big.Int).ModInverse(mulP(h, h), bigP)
	i2 := mulP(i, i)
	twoIinv := new(big.Int).ModInverse(modP(new(big.Int).Lsh(i, 1)), bigP)
	for n := 0; n < 80; n++ {
		tv := withLow(t, "t_hi", tlow)
		u1 := mulP(tv, h2i)
		u13 := cube(u1)
		num := new(big.Int).Sub(cube(modP(new(big.Int).Add(u1, h))), u13)
		num.Sub(num, i2)
		s1 := mulP(modP(num), twoIinv)
		w := mulP(modP(new(big.Int).Sub(mulP(s1, s1), u13)), inv7)
		z, ok := sixthRoot(w)
		if !ok {
			continue
		}
		zi := new(big.Int).ModInverse(z, bigP)
		zi2 := mulP(zi, zi)
		bx := mulP(modP(new(big.Int).Add(u1, h)), zi2)
		by := mulP(modP(new(big.Int).Add(s1, i)), mulP(zi2, zi))
		return [3]*big.Int{u1, s1, z}, [2]*big.Int{bx, by}, tags, true
	}
	return a, b, tags, false
}

// solvePattern: Jacobian (X, Y, Z) on the curve whose X and Y are limb patterns.
func solvePattern(t *rapid.T) (a [3]*big.Int, ok bool) {
	x := modP(genLimbPattern(t, "px"))
	y0 := modP(genLimbPattern(t, "py"))
	x3 := cube(x)
	for j := int64(0); j < 60; j++ {
		y := modP(new(big.Int).Add(y0, new(big.Int).Lsh(big.NewInt(j), 130)))
		w := mulP(modP(new(big.Int).Sub(mulP(y, y), x3)), inv7)
		if z, ok := sixthRoot(w); ok {
			return [3]*big.Int{x, y, z}, true
		}
	}
	return a, false
}

func h3(v *big.Int) string { return hexBig(v) }

func genConsCase(t *rapid.T) (consCase, bool) {
	c := consCase{Arch: arch, Alias: rapid.Bool().Draw(t, "alias")}
	c.Op = rapid.SampledFrom([]string{"addxy", "addxy", "add", "add", "double", "addxy_pattern"}).Draw(t, "op")
	negate := rapid.Bool().Draw(t, "negate_both") // (A, B) -> (-A, -B): h, t, h^3, i^2 unchanged
	neg := func(v *big.Int) *big.Int {
		if negate {
			return modP(new(big.Int).Neg(v))
		}
		return v
	}
	switch c.Op {
	case "addxy", "add":
		a, b, tags, ok := solveMixed(t)
		if !ok {
			return c, false
		}
		c.Tags = tags
		if c.Op == "addxy" {
			c.A = [3]string{h3(a[0]), h3(neg(a[1])), h3(a[2])}
			c.B = [3]string{h3(b[0]), h3(neg(b[1])), ""}
			if rapid.Bool().Draw(t, "denorm") {
				c.Style = [3]int{rapid.IntRange(0, 4).Draw(t, "sx"), rapid.IntRange(0, 4).Draw(t, "sy"), 0}
			}
		} else {
			// B -> (bx z^2, by z^3, z), A -> A scaled by 1/z: u1, u2, s1, s2 are the same as in the mixed case
			z := modP(new(big.Int).SetBytes(rapid.SliceOfN(rapid.Byte(), 32, 32).Draw(t, "bz")))
			if z.Sign() == 0 || rapid.IntRange(0, 4).Draw(t, "bz_one") == 0 {
				z = big.NewInt(1)
			}
			z2 := mulP(z, z)
			z3 := mulP(z2, z)
			zi := new(big.Int).ModInverse(z, bigP)
			zi2 := mulP(zi, zi)
			c.A = [3]string{h3(mulP(a[0], zi2)), h3(neg(mulP(a[1], mulP(zi2, zi)))), h3(mulP(a[2], zi))}
			c.B = [3]string{h3(mulP(b[0], z2)), h3(neg(mulP(b[1], z3))), h3(z)}
		}
	default:
		a, ok := solvePattern(t)
		if !ok {
			return c, false
		}
		c.A = [3]string{h3(a[0]), h3(neg(a[1])), h3(a[2])}
		c.Tags = []string{"pattern_xy"}
		if c.Op == "addxy_pattern" {
			k := modN(genScalar(t, "k"))
			if k.Sign() == 0 {
				k = big.NewInt(1)
			}
			pb := ec.BaseMul(k)
			c.B = [3]string{h3(pb.X), h3(pb.Y), ""}
		}
	}
	return c, true
}

func TestGroupConstructed(t *testing.T) {
	pbt.Check(t, pbt.Cfg{Name: "group_constructed", Quick: 40000, Thorough: 1000000}, func(r *pbt.Run) {
		c, ok := genConsCase(r.T)
		if !ok {
			r.Class("unsolved")
			return
		}
		r.Case(c)
		r.Class("op_" + c.Op)
		under := 0
		for _, tag := range c.Tags {
			r.Class(tag)
			if tag == "h3_ones" || tag == "h3_near_ones" || tag == "t_ones" || tag == "t_near_ones" || tag == "i2_zero" || tag == "i2_small" || tag == "i2_one" {
				under++
			}
		}
		if under == 3 {
			r.Class("t_and_h3_high_i2_low") // the combination in which a too small Negate magnitude underflows limb 0
		}
		r.NonTrivial()
		if err := checkConstructed(c); err != nil {
			r.Failf("%v", err)
		}
	})
}
