package c08

import (
	"bufio"
	"bytes"
	"fmt"
	"math/big"
	"os"
	"strings"
	"sync"
	"testing"

	"github.com/piotrnar/gocoin/lib/btc"
	"github.com/piotrnar/gocoin/lib/secp256k1"
	"pgregory.net/rapid"
	"verif/pbt"
	"verif/ref/ec"
)

// ---------------------------------------------------------------------------------------------
// (2e) serialisation of computed points, 65- and 33-byte form.
//
// A point that comes out of a scalar multiplication is converted with SetXYZ, whose coordinates are
// products and so not canonical in general: with 52-bit limbs a Y below about 2^243 is left as
// Y + 2^256 - (2^32+977) with a probability of about one third (measured), i.e. for one random scalar
// in 2^14.  Two ways to get there: volume (64k random scalars per quick run) and construction:
//   * table: testdata/smally_scalars.txt holds 320 scalars k whose k*G has Y < 2^240 (found offline, re-validated
//     here with ref/ec); each gives three scalars k, k*lambda, k*lambda^2 with the same Y (endomorphism);
//   * target: a point T chosen by a small Y (x = cube root of y^2-7) is reached as s*G + (T - s*G)
//     (BaseMultiplyAdd / btc.DeriveNextPublic) or as k*(k^-1*T) (Multiply).

var (
	smallyOnce sync.Once
	smallyK    []*big.Int
)

func smallYScalars() []*big.Int {
	smallyOnce.Do(func() {
		f, err := os.Open("testdata/smally_scalars.txt")
		if err != nil {
			pbt.Note("testdata/smally_scalars.txt not readable: %v", err)
			return
		}
		defer f.Close()
		sc := bufio.NewScanner(f)
		dropped := 0
		for sc.Scan() {
			l := strings.TrimSpace(sc.Text())
			if l == "" || l[0] == '#' {
				continue
			}
			k, ok := new(big.Int).SetString(l, 16)
			if !ok {
				dropped++
				continue
			}
			smallyK = append(smallyK, k)
		}
		if dropped > 0 {
			pbt.Note("smally_scalars.txt: %d unparsable lines", dropped)
		}
	})
	return smallyK
}

type serCase struct {
	Arch string `json:"arch"`
	Kind string `json:"kind"`        // random | table | add_target | mul_target
	K    string `json:"k"`           // scalar (hex)
	Y    string `json:"y,omitempty"` // target: Y coordinate of the result point
	Fmt  int    `json:"fmt"`         // encoding of the input point (add_target / mul_target)
}

func checkSer(c serCase) error {
	k := modN(bigHex(c.K))
	if k.Sign() == 0 {
		return nil
	}
	kb := b32(k)
	var want ec.Point
	var got65, got33 []byte
	what := ""
	switch c.Kind {
	case "random", "table":
		want = ec.BaseMul(k)
		if c.Kind == "table" && want.Y.BitLen() > 240 {
			return nil // stale table entry: not what it claims, outside the family
		}
		got65, got33 = make([]byte, 65), make([]byte, 33)
		secp256k1.BaseMultiply(kb, got65)
		secp256k1.BaseMultiply(kb, got33)
		what = fmt.Sprintf("BaseMultiply(%x)", kb)
		for _, compressed := range []bool{false, true} {
			w := ec.SerializeUncompressed(want)
			if compressed {
				w = ec.SerializeCompressed(want)
			}
			if g := btc.PublicFromPrivate(kb, compressed); !bytes.Equal(g, w) {
				return fmt.Errorf("btc.PublicFromPrivate(%x, %v) = %x, expected %x", kb, compressed, g, w)
			}
		}
	case "add_target", "mul_target":
		T, ok := pointWithY(bigHex(c.Y))
		if !ok {
			return nil
		}
		want = T
		if c.Kind == "add_target" {
			parent := ec.Add(T, ec.Neg(ec.BaseMul(k)))
			if parent.Inf {
				return nil
			}
			enc := serialise(parent, c.Fmt)
			got65, got33 = make([]byte, 65), make([]byte, 33)
			if !secp256k1.BaseMultiplyAdd(enc, kb, got65) || !secp256k1.BaseMultiplyAdd(enc, kb, got33) {
				return fmt.Errorf("BaseMultiplyAdd refuses the valid key %x", enc)
			}
			what = fmt.Sprintf("BaseMultiplyAdd(%x, %x)", enc, kb)
			// DeriveNextPublic answers in the parent's format
			w := ec.SerializeUncompressed(want)
			if len(enc) == 33 {
				w = ec.SerializeCompressed(want)
			} else if enc[0] != 4 {
				w = nil // hybrid parents are not used with it
			}
			if w != nil {
				if g := btc.DeriveNextPublic(enc, kb); !bytes.Equal(g, w) {
					return fmt.Errorf("btc.DeriveNextPublic(%x, %x) = %x, expected %x", enc, kb, g, w)
				}
			}
		} else {
			base := ec.Mul(new(big.Int).ModInverse(k, bigN), T)
			enc := serialise(base, c.Fmt)
			got65, got33 = make([]byte, 65), make([]byte, 33)
			if !secp256k1.Multiply(enc, kb, got65) || !secp256k1.Multiply(enc, kb, got33) {
				return fmt.Errorf("Multiply refuses the valid key %x", enc)
			}
			what = fmt.Sprintf("Multiply(%x, %x)", enc, kb)
		}
	default:
		return nil
	}
	if want.Inf {
		return nil
	}
	if !bytes.Equal(got65, ec.SerializeUncompressed(want)) {
		return fmt.Errorf("%s, 65-byte output = %x, expected %x", what, got65, ec.SerializeUncompressed(want))
	}
	if !bytes.Equal(got33, ec.SerializeCompressed(want)) {
		return fmt.Errorf("%s, 33-byte output = %x, expected %x", what, got33, ec.SerializeCompressed(want))
	}
	return nil
}

// genSmallY: a Y coordinate with 16..255 leading zero bits.
func genSmallY(t *rapid.T) *big.Int {
	bits := rapid.IntRange(1, 240).Draw(t, "ybits")
	if rapid.Bool().Draw(t, "ybits_high") {
		bits = rapid.IntRange(200, 240).Draw(t, "ybits_h")
	}
	y := new(big.Int).SetBytes(rapid.SliceOfN(rapid.Byte(), 30, 30).Draw(t, "ybytes"))
	y.SetBit(y, bits-1, 1)
	y.And(y, new(big.Int).Sub(pow2(uint(bits)), one))
	for i := 0; i < 300; i++ {
		if _, ok := pointWithY(y); ok {
			return y
		}
		y.Add(y, one)
	}
	return big.NewInt(1)
}

func TestSerialise65(t *testing.T) {
	pbt.Check(t, pbt.Cfg{Name: "serialise65", Quick: 80000, Thorough: 2400000}, func(r *pbt.Run) {
		t := r.T
		c := serCase{Arch: arch, Fmt: rapid.SampledFrom([]int{1, 1, 0, 2}).Draw(t, "fmt")}
		tab := smallYScalars()
		kind := rapid.SampledFrom([]string{"random", "random", "random", "random", "random", "random", "random", "random", "random", "random", "random", "random", "table", "add_target", "add_target", "mul_target"}).Draw(t, "kind")
		if kind == "table" && len(tab) == 0 {
			kind = "random"
		}
		c.Kind = kind
		k := modN(new(big.Int).SetBytes(rapid.SliceOfN(rapid.Byte(), 32, 32).Draw(t, "k")))
		switch kind {
		case "table":
			k = new(big.Int).Set(tab[rapid.IntRange(0, len(tab)-1).Draw(t, "entry")])
			for j := rapid.IntRange(0, 2).Draw(t, "endo"); j > 0; j-- {
				k = modN(k.Mul(k, lambda))
			}
		case "add_target", "mul_target":
			c.Y = hexBig(genSmallY(t))
		}
		if k.Sign() == 0 {
			k = big.NewInt(1)
		}
		c.K = hexBig(k)
		r.Case(c)
		r.Class(kind)
		if kind != "random" {
			r.Class("result_with_small_y")
		}
		r.NonTrivial()
		if err := checkSer(c); err != nil {
			r.Failf("%v", err)
		}
	})
}
