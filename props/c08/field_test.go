package c08

import (
	"bytes"
	"fmt"
	"math/big"
	"testing"

	"github.com/piotrnar/gocoin/lib/secp256k1"
	"pgregory.net/rapid"
	"verif/pbt"
	"verif/ref/ec"
)

// ---------------------------------------------------------------------------------------------
// (1) op sequences over a register file of Field values.
//
// Every register is shadowed by (value mod p, magnitude bound, normalised flag).  The magnitude
// rules are libsecp256k1's (whose field code gocoin ports): a representation of magnitude m has
// limbs <= 2*m*(2^52-1) (top limb 2*m*(2^48-1)); SetB32/Mul/Sqr/Inv/Sqrt give magnitude 1,
// SetAdd adds magnitudes, MulInt multiplies, Negate(m) needs input <= m and gives m+1; Mul, Sqr,
// Inv, Sqrt need inputs <= 8; nothing may exceed 32; Equals/IsOdd/IsZero/GetB32 need normalised
// inputs.  The executor skips any operation whose precondition does not hold (only shrunk or
// hand-written cases contain such operations; the generator tracks magnitudes).

const nRegs = 5

type fInit struct {
	B32   string   `json:"b32,omitempty"`   // SetB32 of these 32 bytes
	Limbs []uint64 `json:"limbs,omitempty"` // raw limbs stored through the hook
	Mag   int      `json:"mag,omitempty"`   // magnitude the raw limbs respect
}

type fOp struct {
	Op   string `json:"op"`
	A    int    `json:"a"`
	B    int    `json:"b"`
	R    int    `json:"r"`
	K    uint32 `json:"k,omitempty"`
	Data string `json:"data,omitempty"`
}

type fieldCase struct {
	Arch string  `json:"arch"`
	Init []fInit `json:"init"`
	Ops  []fOp   `json:"ops"`
}

type fReg struct {
	f    secp256k1.Field
	val  *big.Int // mod p
	mag  int
	norm bool
}

// maxLimb is the largest limb value a representation of the given magnitude may hold.  The two
// limb layouts of gocoin follow different generations of libsecp256k1: field_5x52.go negates with
// 2*(m+1)*p and so admits limbs up to 2*m*(2^52-1) at magnitude m; field_10x26.go negates with
// (m+1)*p (the older convention), which is closed under the operations only for limbs up to
// m*(2^26-1).  Raw limbs are injected within the bound of the representation under test.
func maxLimb(i, mag int) uint64 {
	if limbBits == 26 {
		return uint64(mag) * limbMax(i)
	}
	return 2 * uint64(mag) * limbMax(i)
}

func (r *fReg) check(what string) error {
	got := fieldVal(&r.f)
	if got.Cmp(r.val) != 0 {
		return fmt.Errorf("%s: register holds %x (limbs %x), expected %x", what, got, secp256k1.VerifLimbs(&r.f), r.val)
	}
	return nil
}

func idx(i int) int {
	if i < 0 {
		i = -i
	}
	return i % nRegs
}

type fieldStats struct {
	applied, skipped int
	maxMag           int
	hostile          bool
}

func checkField(c fieldCase) error {
	_, err := runField(c)
	return err
}

func runField(c fieldCase) (st fieldStats, err error) {
	if c.Arch != arch {
		return st, nil // raw limbs are meaningful only for the representation they were drawn for
	}
	regs := make([]fReg, nRegs)
	for i := range regs {
		regs[i] = fReg{val: new(big.Int), mag: 0, norm: true}
		if i >= len(c.Init) {
			continue
		}
		in := c.Init[i]
		if in.Limbs != nil {
			if len(in.Limbs) != limbCount || in.Mag < 1 || in.Mag > 32 {
				return st, nil
			}
			for j, l := range in.Limbs {
				if l > maxLimb(j, in.Mag) {
					return st, nil
				}
			}
			secp256k1.VerifSetLimbs(&regs[i].f, in.Limbs)
			regs[i].val = fieldVal(&regs[i].f)
			regs[i].mag = in.Mag
			regs[i].norm = false
			st.hostile = true
		} else {
			b := unhex(in.B32)
			if len(b) != 32 {
				return st, nil
			}
			regs[i].f.SetB32(b)
			v := new(big.Int).SetBytes(b)
			regs[i].norm = v.Cmp(bigP) < 0
			regs[i].val = modP(v)
			regs[i].mag = 1
			if !regs[i].norm {
				st.hostile = true
			}
		}
		if err := regs[i].check(fmt.Sprintf("init %d", i)); err != nil {
			return st, err
		}
	}
	normalise := func(r *fReg) {
		r.f.Normalize()
		r.mag, r.norm = 1, true
	}
	for n, op := range c.Ops {
		a, b, r := &regs[idx(op.A)], &regs[idx(op.B)], &regs[idx(op.R)]
		what := fmt.Sprintf("op %d %s(a=r%d b=r%d r=r%d k=%d)", n, op.Op, idx(op.A), idx(op.B), idx(op.R), op.K)
		ok := true
		switch op.Op {
		case "setb32", "setbytes":
			d := unhex(op.Data)
			if op.Op == "setb32" && len(d) != 32 || len(d) > 32 {
				ok = false
				break
			}
			if op.Op == "setb32" {
				r.f.SetB32(d)
			} else {
				r.f.SetBytes(d)
			}
			v := new(big.Int).SetBytes(d)
			r.norm = v.Cmp(bigP) < 0
			r.val, r.mag = modP(v), 1
		case "setint":
			if op.K > 0xffff {
				ok = false
				break
			}
			secp256k1.VerifSetInt(&r.f, op.K)
			r.val, r.mag, r.norm = big.NewInt(int64(op.K)), 1, true
		case "copy":
			*r = fReg{f: a.f, val: new(big.Int).Set(a.val), mag: a.mag, norm: a.norm}
		case "norm":
			normalise(r)
			// a normalised element is fully reduced: its limbs spell the canonical value
			if lv := limbValue(&r.f); lv.Cmp(r.val) != 0 {
				return st, fmt.Errorf("%s: Normalize left limbs %x = %x, canonical value is %x", what, secp256k1.VerifLimbs(&r.f), lv, r.val)
			}
			for j, l := range secp256k1.VerifLimbs(&r.f) {
				if l > limbMax(j) {
					return st, fmt.Errorf("%s: Normalize left limb %d = %x above its width", what, j, l)
				}
			}
		case "add":
			if r.mag+a.mag > 32 {
				ok = false
				break
			}
			av, am := a.val, a.mag
			r.f.SetAdd(&a.f)
			r.val = modP(new(big.Int).Add(r.val, av))
			r.mag += am
			r.norm = false
		case "mulint":
			if r.mag*int(op.K) > 32 || op.K > 32 {
				ok = false
				break
			}
			secp256k1.VerifMulInt(&r.f, op.K)
			r.val = modP(new(big.Int).Mul(r.val, big.NewInt(int64(op.K))))
			r.mag *= int(op.K)
			r.norm = op.K == 0 || op.K == 1 && r.norm
		case "neg":
			m := int(op.K)
			if a.mag > m || m > 31 {
				ok = false
				break
			}
			av := a.val
			secp256k1.VerifNegate(&a.f, &r.f, op.K)
			r.val = modP(new(big.Int).Neg(av))
			r.mag, r.norm = m+1, false
		case "mul":
			if a.mag > 8 || b.mag > 8 {
				ok = false
				break
			}
			v := modP(new(big.Int).Mul(a.val, b.val))
			a.f.Mul(&r.f, &b.f)
			r.val, r.mag, r.norm = v, 1, false
		case "sqr":
			if a.mag > 8 {
				ok = false
				break
			}
			v := modP(new(big.Int).Mul(a.val, a.val))
			a.f.Sqr(&r.f)
			r.val, r.mag, r.norm = v, 1, false
		case "inv", "invvar":
			if op.Op == "inv" && a.mag > 8 {
				ok = false
				break
			}
			if a.val.Sign() == 0 {
				// 1/0 is not defined; the call must return, its result is not judged
				var scratch secp256k1.Field
				if op.Op == "inv" {
					a.f.Inv(&scratch)
				} else {
					a.f.InvVar(&scratch)
				}
				break
			}
			v := new(big.Int).ModInverse(a.val, bigP)
			if op.Op == "inv" {
				a.f.Inv(&r.f)
			} else {
				a.f.InvVar(&r.f)
			}
			r.val, r.mag, r.norm = v, 1, false
		case "sqrt":
			if a.mag > 8 {
				ok = false
				break
			}
			av := new(big.Int).Set(a.val)
			_, isQR := ec.Sqrt(av)
			a.f.Sqrt(&r.f)
			got := fieldVal(&r.f)
			if isQR {
				if modP(new(big.Int).Mul(got, got)).Cmp(av) != 0 {
					return st, fmt.Errorf("%s: Sqrt(%x) = %x, whose square is not the operand (which is a quadratic residue)", what, av, got)
				}
			}
			// either root is a square root; for a non-residue nothing is defined: adopt the result
			r.val, r.mag, r.norm = got, 1, false
		case "equals":
			if !a.norm {
				normalise(a)
			}
			if !b.norm {
				normalise(b)
			}
			if got, want := a.f.Equals(&b.f), a.val.Cmp(b.val) == 0; got != want {
				return st, fmt.Errorf("%s: Equals = %v for values %x and %x", what, got, a.val, b.val)
			}
		case "isodd":
			if !a.norm {
				normalise(a)
			}
			if got, want := a.f.IsOdd(), a.val.Bit(0) == 1; got != want {
				return st, fmt.Errorf("%s: IsOdd = %v for value %x", what, got, a.val)
			}
		case "iszero":
			if !a.norm {
				normalise(a)
			}
			if got, want := a.f.IsZero(), a.val.Sign() == 0; got != want {
				return st, fmt.Errorf("%s: IsZero = %v for value %x", what, got, a.val)
			}
		case "getb32":
			if !a.norm {
				normalise(a)
			}
			var out [32]byte
			a.f.GetB32(out[:])
			if !bytes.Equal(out[:], b32(a.val)) {
				return st, fmt.Errorf("%s: GetB32 = %x for value %x", what, out, a.val)
			}
			if a.f.GetBig().Cmp(a.val) != 0 {
				return st, fmt.Errorf("%s: GetBig differs from value %x", what, a.val)
			}
		default:
			ok = false
		}
		if !ok {
			st.skipped++
			continue
		}
		st.applied++
		for i := range regs {
			if regs[i].mag > st.maxMag {
				st.maxMag = regs[i].mag
			}
		}
		if err := r.check(what); err != nil {
			return st, err
		}
		if err := a.check(what + " [operand a afterwards]"); err != nil {
			return st, err
		}
		if err := b.check(what + " [operand b afterwards]"); err != nil {
			return st, err
		}
	}
	// final: every register, through gocoin's own Normalize + GetB32
	for i := range regs {
		if err := regs[i].check(fmt.Sprintf("final r%d", i)); err != nil {
			return st, err
		}
		f := regs[i].f
		f.Normalize()
		var out [32]byte
		f.GetB32(out[:])
		if !bytes.Equal(out[:], b32(regs[i].val)) {
			return st, fmt.Errorf("final r%d (magnitude<=%d, limbs %x): Normalize+GetB32 = %x, expected %x", i, regs[i].mag, secp256k1.VerifLimbs(&regs[i].f), out, regs[i].val)
		}
	}
	return st, nil
}

func genRawLimbs(t *rapid.T, label string) fInit {
	mag := rapid.SampledFrom([]int{1, 1, 2, 3, 4, 7, 8, 8, 9, 16, 31, 32}).Draw(t, label+"_mag")
	l := make([]uint64, limbCount)
	mode := rapid.IntRange(0, 3).Draw(t, label+"_mode")
	for i := range l {
		bound := maxLimb(i, mag)
		k := rapid.IntRange(0, 8).Draw(t, label+"_lk")
		if mode == 0 {
			k = 0 // every limb at its bound
		}
		switch k {
		case 0:
			l[i] = bound
		case 1:
			l[i] = bound - 1
		case 2:
			l[i] = 0
		case 3:
			l[i] = limbMax(i)
		case 4:
			l[i] = limbMax(i) + 1
		case 5: // what Negate(m-1) makes of zero: 2*m*p_i (m*p_i with 26-bit limbs)
			l[i] = maxLimb(i, mag) / limbMax(i) * pLimb(i)
		case 6:
			l[i] = pLimb(i)
		default:
			l[i] = rapid.Uint64Range(0, bound).Draw(t, label+"_rnd")
		}
		if l[i] > bound {
			l[i] = bound
		}
	}
	return fInit{Limbs: l, Mag: mag}
}

func genFieldCase(t *rapid.T) fieldCase {
	c := fieldCase{Arch: arch}
	mags := make([]int, nRegs)
	norm := make([]bool, nRegs)
	for i := 0; i < nRegs; i++ {
		if rapid.IntRange(0, 3).Draw(t, "init_raw") == 0 {
			in := genRawLimbs(t, "raw")
			c.Init = append(c.Init, in)
			mags[i] = in.Mag
		} else {
			v := genFieldValue(t, "init")
			c.Init = append(c.Init, fInit{B32: hx(b32(v))})
			mags[i] = 1
			norm[i] = v.Cmp(bigP) < 0
		}
	}
	nops := rapid.IntRange(1, 40).Draw(t, "nops")
	ops := []string{"mul", "mul", "mul", "sqr", "sqr", "add", "add", "add", "mulint", "mulint", "neg", "neg", "neg", "norm", "norm",
		"inv", "invvar", "sqrt", "equals", "isodd", "iszero", "getb32", "setb32", "setint", "copy", "setbytes"}
	for n := 0; n < nops; n++ {
		op := fOp{Op: rapid.SampledFrom(ops).Draw(t, "op"), A: rapid.IntRange(0, nRegs-1).Draw(t, "a"),
			B: rapid.IntRange(0, nRegs-1).Draw(t, "b"), R: rapid.IntRange(0, nRegs-1).Draw(t, "r")}
		a, b, r := op.A, op.B, op.R
		switch op.Op {
		case "setb32":
			op.Data = hx(b32(genFieldValue(t, "set")))
			mags[r] = 1
		case "setbytes":
			v := genFieldValue(t, "set")
			by := v.Bytes()
			if len(by) == 0 || rapid.Bool().Draw(t, "pad") {
				by = append([]byte{0}, by...)
				if len(by) > 32 {
					by = by[1:]
				}
			}
			op.Data = hx(by)
			mags[r] = 1
		case "setint":
			op.K = uint32(rapid.SampledFrom([]int{0, 1, 2, 7, 0xffff, 977}).Draw(t, "int"))
			mags[r] = 1
		case "copy":
			mags[r] = mags[a]
		case "add":
			if mags[r]+mags[a] > 32 {
				op = fOp{Op: "norm", R: r}
				mags[r] = 1
			} else {
				mags[r] += mags[a]
			}
		case "mulint":
			lim := 32
			if mags[r] > 0 {
				lim = 32 / mags[r]
			}
			if lim < 2 {
				op = fOp{Op: "norm", R: r}
				mags[r] = 1
			} else {
				k := rapid.SampledFrom([]int{0, 1, 2, 2, 3, 3, 4, 6, 8, lim, lim}).Draw(t, "mk")
				if k > lim {
					k = lim
				}
				op.K = uint32(k)
				mags[r] *= k
			}
		case "neg":
			m := mags[a]
			if m > 31 {
				op = fOp{Op: "norm", R: a}
				mags[a] = 1
				break
			}
			switch rapid.IntRange(0, 5).Draw(t, "negm") {
			case 0:
				m = 31
			case 1:
				m = rapid.IntRange(mags[a], 31).Draw(t, "m")
			}
			if m > 31 {
				op = fOp{Op: "norm", R: a}
				mags[a] = 1
			} else {
				op.K = uint32(m)
				mags[r] = m + 1
			}
		case "mul":
			if mags[a] > 8 {
				op = fOp{Op: "norm", R: a}
				mags[a] = 1
			} else if mags[b] > 8 {
				op = fOp{Op: "norm", R: b}
				mags[b] = 1
			} else {
				mags[r] = 1
			}
		case "sqr", "inv", "sqrt":
			if mags[a] > 8 {
				op = fOp{Op: "norm", R: a}
				mags[a] = 1
			} else {
				mags[r] = 1
			}
		case "invvar":
			mags[r] = 1
		case "norm":
			mags[r] = 1
		case "equals":
			mags[a], mags[b] = 1, 1
		case "isodd", "iszero", "getb32":
			mags[a] = 1
		}
		c.Ops = append(c.Ops, op)
	}
	return c
}

func TestFieldOps(t *testing.T) {
	pbt.Check(t, pbt.Cfg{Name: "field_ops", Quick: 600000, Thorough: 20000000}, func(r *pbt.Run) {
		c := genFieldCase(r.T)
		r.Case(c)
		st, err := runField(c)
		pbt.AddExtra("field_ops_applied", int64(st.applied))
		pbt.AddExtra("field_ops_skipped", int64(st.skipped))
		if st.hostile {
			r.Class("hostile_initial_register")
		}
		switch {
		case st.maxMag >= 32:
			r.Class("reached_magnitude_32")
		case st.maxMag > 8:
			r.Class("reached_magnitude_9_31")
		}
		for _, in := range c.Init {
			if in.Limbs != nil {
				r.Class("raw_limbs")
				break
			}
		}
		seen := map[string]bool{}
		for _, op := range c.Ops {
			if !seen[op.Op] {
				seen[op.Op] = true
				r.Class("op_" + op.Op)
			}
		}
		// non-trivial: some operation ran on operands that are not both canonical small values -
		// with 256-bit pools that is every sequence that applied at least one operation
		if st.applied > 0 {
			r.NonTrivial()
		}
		if err != nil {
			r.Failf("%v", err)
		}
	})
}
