#!/usr/bin/env python3
"""Dev-time sensitivity helper (not part of the check): build the property package against a
mutated copy of ONE gocoin source file through `go build -overlay` (nothing under /repo is touched),
run the quick tier as 16 shards and report whether any shard fails.

  mutant.py <prop-id> <repo-relative-file> <old-text> <new-text> [--repo-tests <pkg>] [--keep <dir>]
  mutant.py <prop-id> <repo-relative-file> @file <replacement-file> ...   (whole-file replacement)

Exit 0 = mutant caught, 1 = mutant survived, 2 = could not build / text not found.
"""
import json, os, subprocess, sys, tempfile, shutil, time

ROOT = "/verif"
REPO = "/repo"
ENV = dict(os.environ, GOFLAGS="-mod=mod", GOPROXY="off", GOSUMDB="off", GOTOOLCHAIN="local")


def main():
    pid, rel, old, new = sys.argv[1:5]
    repo_pkg = sys.argv[sys.argv.index("--repo-tests") + 1] if "--repo-tests" in sys.argv else None
    src = os.path.join(REPO, rel)
    text = open(src).read()
    keep = sys.argv[sys.argv.index("--keep") + 1] if "--keep" in sys.argv else None
    if old == "@file":  # replace the whole file by the file named in <new-text>
        old, new = text, open(new).read()
    if text.count(old) != 1:
        print("old text occurs %d times" % text.count(old))
        return 2
    tmp = tempfile.mkdtemp(prefix="mutant-")
    try:
        mfile = os.path.join(tmp, os.path.basename(rel))
        open(mfile, "w").write(text.replace(old, new))
        ov = os.path.join(tmp, "overlay.json")
        json.dump({"Replace": {src: mfile}}, open(ov, "w"))
        if repo_pkg:
            p = subprocess.run(["go", "test", "-vet=off", "-count=1", "-overlay", ov, repo_pkg], cwd=REPO, env=ENV,
                               stdout=subprocess.PIPE, stderr=subprocess.STDOUT, text=True)
            print("repository tests with the mutant:", "PASS" if p.returncode == 0 else "FAIL")
            if p.returncode != 0:
                print(p.stdout[-1500:])
        binary = os.path.join(tmp, "mut.test")
        p = subprocess.run(["go", "test", "-c", "-vet=off", "-tags", "verif", "-overlay", ov, "-o", binary, "./props/" + pid.lower()],
                           cwd=ROOT, env=ENV, stdout=subprocess.PIPE, stderr=subprocess.STDOUT, text=True)
        if p.returncode != 0:
            print("build failed:\n" + p.stdout[-3000:])
            return 2
        t0 = time.time()
        procs = []
        for i in range(16):
            sd = os.path.join(tmp, "s%d" % i)
            os.makedirs(os.path.join(sd, "fail"))
            e = dict(ENV, VERIF_SEED=os.environ.get("VERIF_SEED", "1"), VERIF_TIER="quick", VERIF_SHARD=str(i), VERIF_SHARDS="16",
                     VERIF_STATS=os.path.join(sd, "stats.json"), VERIF_FAILDIR=os.path.join(sd, "fail"), TMPDIR=sd,
                     VERIF_KF=os.path.join(ROOT, "KNOWN_FINDINGS.json"), VERIF_BUILD=tmp, VERIF_ROOT=ROOT)
            procs.append((sd, subprocess.Popen([binary, "-test.timeout", "900s", "-rapid.shrinktime", "5s"], cwd=os.path.join(ROOT, "props", pid.lower()),
                                               env=e, stdout=subprocess.DEVNULL, stderr=subprocess.DEVNULL)))
        failed = {}
        for sd, p in procs:
            p.wait()
            if keep:
                os.makedirs(keep, exist_ok=True)
                for fn in os.listdir(os.path.join(sd, "fail")):
                    shutil.copy(os.path.join(sd, "fail", fn), os.path.join(keep, fn))
            try:
                s = json.load(open(os.path.join(sd, "stats.json")))
                for f in s.get("failures") or []:
                    failed.setdefault(f["test"], f["msg"])
            except Exception as ex:
                failed.setdefault("(process died)", str(ex))
        print("wall %.1fs" % (time.time() - t0))
        for k, v in failed.items():
            print("CAUGHT by %s: %s" % (k, v[:300]))
        if not failed:
            print("SURVIVED")
        return 0 if failed else 1
    finally:
        shutil.rmtree(tmp, ignore_errors=True)


if __name__ == "__main__":
    sys.exit(main())
