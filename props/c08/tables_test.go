package c08

import (
	"encoding/json"
	"fmt"
	"math/big"
	"os"
	"os/exec"
	"path/filepath"
	"runtime"
	"strings"
	"sync"
	"testing"

	"github.com/piotrnar/gocoin/lib/secp256k1"
	"verif/pbt"
	"verif/ref/ec"
)

// ---------------------------------------------------------------------------------------------
// (3) the embedded tables and constants, exhaustively.
//
//	pre_g[i]     = (2i+1)*G              i < 2^(WINDOW_G-2)
//	pre_g_128[i] = (2i+1)*2^128*G
//	prec[j][i]   = (i+1)*16^j*G          j < 64, i < 16
//	fin          = -((16^64-1)/15)*G
//
// The expected values are walked with the reference's affine addition only.  Every entry is one
// evaluation; the entries are divided over the shards (index mod shards), the union is the table.

type tableCase struct {
	Arch  string `json:"arch"`
	Table string `json:"table"`
	I     int    `json:"i"`
	J     int    `json:"j"`
}

var (
	tabOnce             sync.Once
	tabPreG, tabPreG128 []ec.Point
	tabPrec             [64][16]ec.Point
	tabFin              ec.Point
)

func buildTables() {
	tabOnce.Do(func() {
		n := 1 << (secp256k1.WINDOW_G - 2)
		odd := func(base ec.Point) []ec.Point {
			out := make([]ec.Point, n)
			step := ec.Add(base, base)
			cur := base
			for i := range out {
				out[i] = cur
				cur = ec.Add(cur, step)
			}
			return out
		}
		tabPreG = odd(ec.G)
		g128 := ec.G
		for i := 0; i < 128; i++ {
			g128 = ec.Add(g128, g128)
		}
		tabPreG128 = odd(g128)
		base := ec.G // 16^j * G
		sum := ec.Infinity
		for j := 0; j < 64; j++ {
			cur := base
			sum = ec.Add(sum, base)
			for i := 0; i < 16; i++ {
				tabPrec[j][i] = cur
				cur = ec.Add(cur, base)
			}
			base = tabPrec[j][15]
		}
		tabFin = ec.Neg(sum)
	})
}

func checkTableEntry(c tableCase) error {
	buildTables()
	var got secp256k1.XY
	var want ec.Point
	switch c.Table {
	case "pre_g", "pre_g_128":
		tab, ref := secp256k1.VerifPreG(), tabPreG
		if c.Table == "pre_g_128" {
			tab, ref = secp256k1.VerifPreG128(), tabPreG128
		}
		if len(tab) != len(ref) {
			return fmt.Errorf("%s has %d entries, ECmult indexes %d", c.Table, len(tab), len(ref))
		}
		if c.I < 0 || c.I >= len(tab) {
			return nil
		}
		got, want = tab[c.I], ref[c.I]
	case "prec":
		if c.J < 0 || c.J >= 64 || c.I < 0 || c.I >= 16 {
			return nil
		}
		got, want = secp256k1.VerifPrec()[c.J][c.I], tabPrec[c.J][c.I]
	case "fin":
		got, want = secp256k1.VerifFin(), tabFin
	default:
		return nil
	}
	if got.Infinity {
		return fmt.Errorf("%s[%d][%d] is flagged infinity", c.Table, c.J, c.I)
	}
	if g := xyToRef(&got); !g.Equal(want) {
		return fmt.Errorf("%s[j=%d][i=%d] = %s, the multiple of G it stands for is %s", c.Table, c.J, c.I, ptStr(g), ptStr(want))
	}
	return nil
}

func TestTablesExhaustive(t *testing.T) {
	if os.Getenv("VERIF_REPLAY") != "" {
		t.Skip()
	}
	d := pbt.Direct{Name: "tables"}
	shard, shards := pbt.Shard()
	n := 0
	eval := func(c tableCase) {
		mine := n%shards == shard
		n++
		if !mine {
			return
		}
		c.Arch = arch
		d.Eval(c.Table, true, fmt.Sprintf("%s/%d/%d", c.Table, c.J, c.I), c)
		if err := checkTableEntry(c); err != nil {
			d.Fail(t, c, "%v", err)
		}
	}
	for i := 0; i < 1<<(secp256k1.WINDOW_G-2); i++ {
		eval(tableCase{Table: "pre_g", I: i})
		eval(tableCase{Table: "pre_g_128", I: i})
	}
	for j := 0; j < 64; j++ {
		for i := 0; i < 16; i++ {
			eval(tableCase{Table: "prec", J: j, I: i})
		}
	}
	eval(tableCase{Table: "fin"})
	if shard == 0 {
		pbt.Extra("table_entries_total", 2*(1<<(secp256k1.WINDOW_G-2))+64*16+1)
		if err := checkConstants(); err != nil {
			d.Eval("constants", true, "constants", nil)
			d.Fail(t, tableCase{Arch: arch, Table: "constants"}, "%v", err)
		} else {
			d.Eval("constants", true, "constants", nil)
		}
	}
}

// checkConstants: the curve constants against values written down independently and the algebraic
// relations that define them.
func checkConstants() error {
	if secp256k1.TheCurve.Order.Cmp(bigN) != 0 {
		return fmt.Errorf("TheCurve.Order is not n")
	}
	if secp256k1.TheCurve.HalfOrder.Cmp(new(big.Int).Rsh(bigN, 1)) != 0 {
		return fmt.Errorf("TheCurve.HalfOrder is not floor(n/2)")
	}
	if secp256k1.VerifP().Cmp(bigP) != 0 {
		return fmt.Errorf("TheCurve.p is not p")
	}
	g := secp256k1.TheCurve.G
	if !xyToRef(&g).Equal(ec.G) {
		return fmt.Errorf("TheCurve.G is not the generator")
	}
	lam := &secp256k1.VerifLambda().Int
	l3 := new(big.Int).Exp(lam, big.NewInt(3), bigN)
	if l3.Cmp(one) != 0 || lam.Cmp(one) == 0 {
		return fmt.Errorf("lambda is not a primitive cube root of unity mod n")
	}
	bf := secp256k1.VerifBeta()
	beta := fieldVal(&bf)
	if new(big.Int).Exp(beta, big.NewInt(3), bigP).Cmp(one) != 0 || beta.Cmp(one) == 0 {
		return fmt.Errorf("beta is not a primitive cube root of unity mod p")
	}
	lg := ec.Mul(lam, ec.G)
	if lg.Inf || lg.X.Cmp(modP(new(big.Int).Mul(beta, ec.Gx))) != 0 || lg.Y.Cmp(ec.Gy) != 0 {
		return fmt.Errorf("lambda*G != (beta*Gx, Gy)")
	}
	// lattice: a1 - |b1|*lambda = 0 and a2 + b2*lambda = 0 (mod n), b2 = a1; these make
	// k1 + k2*lambda = k in split_exp
	a1, b1, a2 := &secp256k1.VerifA1B2().Int, &secp256k1.VerifB1().Int, &secp256k1.VerifA2().Int
	v := new(big.Int).Mul(b1, lam)
	v.Sub(a1, v)
	if modN(v).Sign() != 0 {
		return fmt.Errorf("a1 - b1*lambda != 0 (mod n)")
	}
	v = new(big.Int).Mul(a1, lam)
	v.Add(v, a2)
	if modN(v).Sign() != 0 {
		return fmt.Errorf("a2 + b2*lambda != 0 (mod n)")
	}
	if a1.Cmp(latA1) != 0 || b1.Cmp(latB1neg) != 0 || a2.Cmp(latA2) != 0 || lam.Cmp(lambda) != 0 {
		return fmt.Errorf("lattice constants differ from the published values")
	}
	return nil
}

// ---------------------------------------------------------------------------------------------
// the 32-bit limb representation (field_10x26.go): the same package built for GOARCH=386

func moduleRoot() string {
	if r := os.Getenv("VERIF_ROOT"); r != "" {
		return r
	}
	return "/verif"
}

func build386() (string, error) {
	dir := os.Getenv("VERIF_BUILD")
	if dir == "" {
		dir = os.TempDir()
	}
	out := filepath.Join(dir, "c08.386.test")
	cmd := exec.Command("go", "test", "-c", "-vet=off", "-tags", "verif", "-o", out, "./props/c08")
	cmd.Dir = moduleRoot()
	cmd.Env = append(os.Environ(), "GOARCH=386", "CGO_ENABLED=0", "GOPROXY=off", "GOSUMDB=off", "GOTOOLCHAIN=local")
	if os.Getenv("GOFLAGS") == "" { // the driver's GOFLAGS (possibly with a dev overlay) are kept
		cmd.Env = append(cmd.Env, "GOFLAGS=-mod=mod")
	}
	if b, err := cmd.CombinedOutput(); err != nil {
		return "", fmt.Errorf("cannot build the GOARCH=386 test binary: %v\n%s", err, b)
	}
	return out, nil
}

// inconclusive ends a replay that cannot be carried out here (the driver maps exit code 2 with a
// "replay:" line to "inconclusive", never to a violation).
func inconclusive(format string, a ...any) {
	fmt.Printf("replay: "+format+"\n", a...)
	os.Exit(2)
}

func replayOtherArch(raw json.RawMessage) error {
	if runtime.GOARCH == "386" {
		inconclusive("case recorded for the 5x52 representation cannot be replayed by a 386 binary")
	}
	bin, err := build386()
	if err != nil {
		inconclusive("%v", err)
	}
	fn := os.Getenv("VERIF_REPLAY")
	cmd := exec.Command(bin, "-test.run", "^$")
	cmd.Env = append(os.Environ(), "VERIF_REPLAY="+fn, "VERIF_C08_SUB=1")
	b, _ := cmd.CombinedOutput()
	s := string(b)
	if strings.Contains(s, "REPLAY-PASS") {
		return nil
	}
	if i := strings.Index(s, "REPLAY-FAIL"); i >= 0 {
		return fmt.Errorf("[GOARCH=386] %s", strings.TrimSpace(s[i:]))
	}
	inconclusive("the GOARCH=386 binary could not run the case: %s", s)
	return nil
}

// TestArch386 (shard 0 only): runs this whole package as a GOARCH=386 binary so that field_10x26.go,
// z_consts_10x26.go and the 32-bit big.Word paths are exercised: quick tier 2 sub-shards at 0.04 of the
// quick counts, thorough tier 4 sub-shards at 0.5 of the quick counts.
func TestArch386(t *testing.T) {
	if os.Getenv("VERIF_REPLAY") != "" || os.Getenv("VERIF_C08_SUB") != "" || runtime.GOARCH == "386" {
		t.Skip()
	}
	shard, _ := pbt.Shard()
	if shard != 0 {
		t.Skip()
	}
	sub, scale := 2, "0.04"
	if pbt.Tier() == "thorough" || os.Getenv("VERIF_C08_FORCE386") != "" {
		sub, scale = 4, "0.5"
	}
	bin, err := build386()
	if err != nil {
		pbt.Note("GOARCH=386 run NOT done: %v", err)
		pbt.Extra("arch386", "not run (build failed)")
		t.Skip(err)
	}
	tmp, _ := os.MkdirTemp("", "c08-386-")
	defer os.RemoveAll(tmp)
	type res struct {
		out []byte
		err error
	}
	results := make([]res, sub)
	var wg sync.WaitGroup
	for i := 0; i < sub; i++ {
		wg.Add(1)
		go func(i int) {
			defer wg.Done()
			sd := filepath.Join(tmp, fmt.Sprint(i))
			os.MkdirAll(filepath.Join(sd, "fail"), 0o755)
			cmd := exec.Command(bin, "-test.timeout", "3000s", "-rapid.shrinktime", "20s")
			cmd.Dir = filepath.Join(moduleRoot(), "props", "c08")
			cmd.Env = append(os.Environ(), "VERIF_C08_SUB=1", "VERIF_TIER=quick", fmt.Sprintf("VERIF_SHARD=%d", i), fmt.Sprintf("VERIF_SHARDS=%d", sub),
				"VERIF_STATS="+filepath.Join(sd, "stats.json"), "VERIF_FAILDIR="+filepath.Join(sd, "fail"), "VERIF_SCALE="+scale)
			results[i].out, results[i].err = cmd.CombinedOutput()
		}(i)
	}
	wg.Wait()
	d := pbt.Direct{Name: "arch386"}
	ran := false
	for i := 0; i < sub; i++ {
		sd := filepath.Join(tmp, fmt.Sprint(i))
		b, err := os.ReadFile(filepath.Join(sd, "stats.json"))
		if err != nil {
			msg := string(results[i].out)
			if len(msg) > 600 {
				msg = msg[len(msg)-600:]
			}
			if strings.Contains(msg, "exec format error") || strings.Contains(fmt.Sprint(results[i].err), "exec format error") {
				pbt.Note("GOARCH=386 run NOT done: this kernel does not execute 386 binaries (%v)", results[i].err)
				pbt.Extra("arch386", "not run (cannot execute)")
				t.Skip("386 binaries do not execute here")
			}
			t.Fatalf("386 sub-run %d died without statistics: %v\n%s", i, results[i].err, msg)
		}
		ran = true
		var s struct {
			Evaluations int64            `json:"evaluations"`
			PerTest     map[string]int64 `json:"per_test"`
			Failures    []struct {
				Test, Replay, Msg string
			} `json:"failures"`
		}
		json.Unmarshal(b, &s)
		pbt.AddExtra("arch386_evaluations", s.Evaluations)
		for k, v := range s.PerTest {
			pbt.AddExtra("arch386_"+k, v)
		}
		for _, f := range s.Failures {
			var doc struct {
				Case json.RawMessage `json:"case"`
			}
			if rb, err := os.ReadFile(f.Replay); err == nil {
				json.Unmarshal(rb, &doc)
			}
			pbt.Direct{Name: f.Test}.Fail(t, doc.Case, "[GOARCH=386] %s", f.Msg)
		}
		if results[i].err != nil && len(s.Failures) == 0 {
			t.Fatalf("386 sub-run %d failed without a replay file: %v\n%s", i, results[i].err, results[i].out)
		}
	}
	if ran {
		d.Eval("ran", true, "386", nil)
		pbt.Extra("arch386", "ran: field_10x26.go, quick-tier counts x"+scale)
	}
}
