// Package orderlib holds the part of the C02 check that is shared between the test binary and the
// race-detector helper program (racecmd): the digest request types, the two decoders (reference and
// gocoin), the request executors and the digest / call-order oracles.
package orderlib

import (
	"bytes"
	"crypto/sha256"
	"encoding/hex"
	"fmt"
	"sync"

	"github.com/piotrnar/gocoin/lib/btc"
	"verif/ref/sighash"
	"verif/ref/wire"
)

func Hx(b []byte) string { return hex.EncodeToString(b) }

func Unhx(s string) []byte {
	b, err := hex.DecodeString(s)
	if err != nil {
		panic("harness: bad hex in case: " + err.Error())
	}
	return b
}

func Sha(b []byte) []byte { h := sha256.Sum256(b); return h[:] }

// ---------------------------------------------------------------------------------------------
// decoding into the two worlds

type SpentOut struct {
	Value  uint64 `json:"value"`
	Script string `json:"script"`
}

func RefTx(rawHex string) *wire.Tx {
	raw := Unhx(rawHex)
	tx, n, err := wire.DecodeTx(raw)
	if err != nil || n != len(raw) {
		panic(fmt.Sprintf("harness: reference cannot decode the generated transaction: %v", err))
	}
	return tx
}

func RefSpent(sp []SpentOut) []wire.TxOut {
	out := make([]wire.TxOut, len(sp))
	for i, s := range sp {
		out[i] = wire.TxOut{Value: s.Value, PkScript: Unhx(s.Script)}
	}
	return out
}

// GocoinTx decodes raw the way the node does (btc.NewTx), then prepares the verification variables
// the way chain.commitTxs does (AllocVerVars, Spent_outputs for every input).
func GocoinTx(raw []byte, spent []wire.TxOut) (*btc.Tx, error) {
	tx, n := btc.NewTx(raw)
	if tx == nil || n != len(raw) {
		return nil, fmt.Errorf("btc.NewTx does not decode the generated transaction (%d of %d bytes)", n, len(raw))
	}
	tx.SetHash(raw)
	tx.AllocVerVars()
	if spent != nil {
		tx.Spent_outputs = make([]*btc.TxOut, len(spent))
		for i := range spent {
			tx.Spent_outputs[i] = &btc.TxOut{Value: spent[i].Value, Pk_script: append([]byte{}, spent[i].PkScript...)}
		}
	}
	return tx, nil
}

// Req is one digest request against a transaction.
type Req struct {
	Kind     string  `json:"kind"` // legacy | bip143 | bip341
	Idx      int     `json:"idx"`
	Code     string  `json:"code,omitempty"`   // script code (legacy: as handed to SignatureHash, i.e. after signature removal)
	Amount   uint64  `json:"amount,omitempty"` // bip143
	HashType int64   `json:"hash_type"`        // int32 for legacy/bip143, 0..255 for bip341
	Script   bool    `json:"script,omitempty"` // bip341: tapscript (ext_flag 1)
	Annex    *string `json:"annex,omitempty"`  // bip341: annex incl. 0x50, nil = absent
	Leaf     string  `json:"leaf,omitempty"`   // bip341: tapleaf hash
	CSP      uint32  `json:"codesep_pos,omitempty"`
}

type DigestCase struct {
	Tx    string     `json:"tx"`
	Spent []SpentOut `json:"spent,omitempty"`
	Req   Req        `json:"req"`
}

// GocoinDigest issues the request against a gocoin transaction object, at the API the interpreter uses.
func GocoinDigest(tx *btc.Tx, r Req) []byte {
	switch r.Kind {
	case "legacy":
		return tx.SignatureHash(Unhx(r.Code), r.Idx, int32(r.HashType))
	case "bip143":
		return tx.WitnessSigHash(Unhx(r.Code), r.Amount, r.Idx, int32(r.HashType))
	case "bip341":
		ed := &btc.ScriptExecutionData{M_codeseparator_pos: r.CSP, M_codeseparator_pos_init: true}
		if r.Annex != nil {
			// the interpreter hands over SHA256(compact_size(len) ‖ annex) (VerifyWitnessProgram); that
			// computation itself is covered by the taproot_spend test
			a := Unhx(*r.Annex)
			ed.M_annex_hash = Sha(append(wire.CompactSize(uint64(len(a))), a...))
		}
		if r.Script {
			ed.M_tapleaf_hash = Unhx(r.Leaf)
		}
		return tx.TaprootSigHash(ed, r.Idx, byte(r.HashType), r.Script)
	}
	panic("harness: unknown request kind " + r.Kind)
}

// refDigest: the specification's digest; defined=false when BIP341 defines none; comparable=false when
// the request is outside the domain of digest *equality* (legacy script code with an undecodable tail:
// Core's SerializeScriptCode and gocoin differ there, every such script fails evaluation anyway).
func RefDigest(tx *wire.Tx, spent []wire.TxOut, r Req) (d []byte, defined, comparable bool) {
	switch r.Kind {
	case "legacy":
		code := Unhx(r.Code)
		h := sighash.Legacy(tx, r.Idx, code, uint32(int32(r.HashType)))
		return h[:], true, sighash.ParsesCompletely(code)
	case "bip143":
		h := sighash.BIP143(tx, r.Idx, Unhx(r.Code), r.Amount, uint32(int32(r.HashType)))
		return h[:], true, true
	case "bip341":
		var annex, leaf []byte
		if r.Annex != nil {
			annex = Unhx(*r.Annex)
			if annex == nil {
				annex = []byte{}
			}
		}
		ext := byte(0)
		if r.Script {
			ext = 1
			leaf = Unhx(r.Leaf)
		}
		h, ok := sighash.BIP341(tx, r.Idx, spent, byte(r.HashType), ext, annex, leaf, r.CSP)
		if !ok {
			return nil, false, true
		}
		return h[:], true, true
	}
	panic("harness: unknown request kind " + r.Kind)
}

func CheckDigest(c DigestCase) error {
	rtx := RefTx(c.Tx)
	if c.Req.Idx < 0 || c.Req.Idx >= len(rtx.In) {
		return nil // outside the callers' precondition
	}
	var spent []wire.TxOut
	if c.Spent != nil {
		spent = RefSpent(c.Spent)
	}
	gtx, err := GocoinTx(Unhx(c.Tx), spent)
	if err != nil {
		return err
	}
	want, defined, comparable := RefDigest(rtx, spent, c.Req)
	got := GocoinDigest(gtx, c.Req)
	if !defined || !comparable {
		// no digest defined: what the property demands is that the signature CHECK fails; that is judged
		// at the interpreter (taproot_spend).  Undecodable legacy script code: outside digest equality.
		return nil
	}
	if !bytes.Equal(got, want) {
		return fmt.Errorf("%s digest of input %d, hash type %#x: gocoin %x, specification %x", c.Req.Kind, c.Req.Idx, uint32(c.Req.HashType), got, want)
	}
	// the same request again on the same (now cache-warm) object
	if again := GocoinDigest(gtx, c.Req); !bytes.Equal(again, want) {
		return fmt.Errorf("%s digest changes when requested a second time: %x then %x", c.Req.Kind, got, again)
	}
	return nil
}

type OrderCase struct {
	Tx         string     `json:"tx"`
	Spent      []SpentOut `json:"spent"`
	Reqs       []Req      `json:"reqs"`
	Goroutines int        `json:"goroutines"`
}

func CheckOrder(c OrderCase) error {
	rtx := RefTx(c.Tx)
	spent := RefSpent(c.Spent)
	raw := Unhx(c.Tx)
	one, err := GocoinTx(raw, spent)
	if err != nil {
		return err
	}
	seq := make([][]byte, len(c.Reqs))
	for i, q := range c.Reqs {
		if q.Idx < 0 || q.Idx >= len(rtx.In) {
			return nil
		}
		seq[i] = GocoinDigest(one, q)
		fresh, err := GocoinTx(raw, spent)
		if err != nil {
			return err
		}
		cold := GocoinDigest(fresh, q)
		if !bytes.Equal(seq[i], cold) {
			return fmt.Errorf("request %d (%s, input %d, type %#x) on the shared object gives %x, on a freshly decoded copy %x", i, q.Kind, q.Idx, uint32(q.HashType), seq[i], cold)
		}
		if want, defined, comparable := RefDigest(rtx, spent, q); defined && comparable && !bytes.Equal(seq[i], want) {
			return fmt.Errorf("request %d (%s, input %d, type %#x): gocoin %x, specification %x", i, q.Kind, q.Idx, uint32(q.HashType), seq[i], want)
		}
	}
	// the same multiset of requests against another single object, from several goroutines
	g := c.Goroutines
	if g < 2 {
		return nil
	}
	shared, err := GocoinTx(raw, spent)
	if err != nil {
		return err
	}
	conc := make([][]byte, len(c.Reqs))
	var start, done sync.WaitGroup
	start.Add(1)
	for w := 0; w < g; w++ {
		done.Add(1)
		go func(w int) {
			defer done.Done()
			start.Wait()
			for i := w; i < len(c.Reqs); i += g {
				conc[i] = GocoinDigest(shared, c.Reqs[i])
			}
		}(w)
	}
	start.Done()
	done.Wait()
	for i := range conc {
		if !bytes.Equal(conc[i], seq[i]) {
			q := c.Reqs[i]
			return fmt.Errorf("request %d (%s, input %d, type %#x) issued concurrently (%d goroutines) gives %x, sequentially %x", i, q.Kind, q.Idx, uint32(q.HashType), g, conc[i], seq[i])
		}
	}
	return nil
}
