// Package c02 checks property C02: the digests that gocoin signs / verifies equal the legacy, BIP143 and
// BIP341/342 definitions (reference: verif/ref/sighash), an undefined taproot digest makes the
// signature check fail, and the per-transaction caches never change a result.
package c02

import (
	"bytes"
	"encoding/json"
	"fmt"
	"os"
	"os/exec"
	"path/filepath"
	"strings"
	"testing"

	"github.com/piotrnar/gocoin/lib/script"
	"pgregory.net/rapid"
	"verif/pbt"
	"verif/ref/sighash"
	"verif/ref/wire"
)

func TestMain(m *testing.M) {
	script.DBG_ERR = false
	reg := func(name string, f func(raw json.RawMessage) error) { pbt.RegisterReplay(name, f) }
	digest := func(raw json.RawMessage) error {
		var c digestCase
		if err := json.Unmarshal(raw, &c); err != nil {
			return err
		}
		return checkDigest(c)
	}
	reg("legacy_digest", digest)
	reg("bip143_digest", digest)
	reg("bip341_digest", digest)
	reg("call_order", func(raw json.RawMessage) error {
		var c orderCase
		if err := json.Unmarshal(raw, &c); err != nil {
			return err
		}
		return checkOrder(c)
	})
	reg("call_order_race", replayRace)
	reg("ecdsa_spend", func(raw json.RawMessage) error {
		var c spendCase
		if err := json.Unmarshal(raw, &c); err != nil {
			return err
		}
		_, err := checkSpend(c)
		return err
	})
	reg("multi_check", func(raw json.RawMessage) error {
		var c multiCase
		if err := json.Unmarshal(raw, &c); err != nil {
			return err
		}
		_, err := checkMulti(c)
		return err
	})
	reg("taproot_spend", func(raw json.RawMessage) error {
		var c tapCase
		if err := json.Unmarshal(raw, &c); err != nil {
			return err
		}
		_, err := checkTap(c)
		return err
	})
	pbt.Main(m, "C02")
}

// ---------------------------------------------------------------------------------------------
// (a) digest differential

func genLegacyReq(t *rapid.T, tx *wire.Tx) (req, int) {
	code, nsep := genCode(t)
	return req{Kind: "legacy", Idx: rapid.IntRange(0, len(tx.In)-1).Draw(t, "idx"), Code: hx(code), HashType: genHashType32(t)}, nsep
}

func genBIP143Req(t *rapid.T, tx *wire.Tx) (req, int) {
	code, nsep := genCode(t)
	return req{Kind: "bip143", Idx: rapid.IntRange(0, len(tx.In)-1).Draw(t, "idx"), Code: hx(code), Amount: genValue(t, "amount"), HashType: genHashType32(t)}, nsep
}

var tapTypes = []int64{0, 1, 2, 3, 0x81, 0x82, 0x83}

func genBIP341Req(t *rapid.T, tx *wire.Tx) req {
	r := req{Kind: "bip341", Idx: rapid.IntRange(0, len(tx.In)-1).Draw(t, "idx")}
	if rapid.Bool().Draw(t, "ht_valid") {
		r.HashType = rapid.SampledFrom(tapTypes).Draw(t, "ht")
	} else {
		r.HashType = int64(rapid.IntRange(0, 255).Draw(t, "ht_any"))
	}
	r.Script = rapid.Bool().Draw(t, "tapscript")
	if rapid.IntRange(0, 2).Draw(t, "has_annex") == 0 {
		l := rapid.SampledFrom([]int{1, 2, 33, 252, 253, 300}).Draw(t, "annex_len")
		a := fill(rapid.Uint64().Draw(t, "annex_seed"), l)
		a[0] = 0x50
		s := hx(a)
		r.Annex = &s
	}
	if r.Script {
		r.Leaf = hx(fill(rapid.Uint64().Draw(t, "leaf_seed"), 32))
		r.CSP = genU32(t, "codesep_pos", []uint32{0xffffffff, 0, 1, 2, 200})
	}
	return r
}

func classesFor(r *pbt.Run, tx *wire.Tx, q req, nsep int) {
	switch {
	case len(tx.In) == 1:
		r.Class("inputs=1")
	case len(tx.In) <= 8:
		r.Class("inputs=2..8")
	default:
		r.Class("inputs=9..40")
	}
	switch {
	case len(tx.Out) == 0:
		r.Class("outputs=0")
	case len(tx.Out) <= 8:
		r.Class("outputs=1..8")
	default:
		r.Class("outputs=9..40")
	}
	if q.Kind == "bip341" {
		switch {
		case !sighash.BIP341Defined(tx, q.Idx, byte(q.HashType)) && byte(q.HashType)&3 == 3 && (q.HashType <= 3 || q.HashType >= 0x81 && q.HashType <= 0x83):
			r.Class("type=single_without_output(undefined)")
		case !sighash.BIP341Defined(tx, q.Idx, byte(q.HashType)):
			r.Class("type=undefined")
		default:
			r.Class(fmt.Sprintf("type=%#02x", q.HashType))
		}
		if q.Annex != nil {
			r.Class("annex")
		}
		if q.Script {
			r.Class("script_path")
		} else {
			r.Class("key_path")
		}
	} else {
		r.Class("type=" + typeClass(q.HashType))
		if uint32(q.HashType)&0x1f == 3 && q.Idx >= len(tx.Out) {
			r.Class("single_out_of_range")
		}
		if nsep > 0 {
			r.Class("code_separators")
		}
		if q.Kind == "legacy" && !sighash.ParsesCompletely(unhx(q.Code)) {
			r.Class("undecodable_code(not compared)")
		}
	}
	if len(tx.In) >= 2 || len(tx.Out) >= 2 || q.HashType != 1 || nsep > 0 || q.Annex != nil {
		r.NonTrivial()
	}
}

func TestLegacyDigest(t *testing.T) {
	pbt.Check(t, pbt.Cfg{Name: "legacy_digest", Quick: 200000, Thorough: 5000000}, func(r *pbt.Run) {
		var tx *wire.Tx
		var q req
		var nsep int
		if oneIn(r.T, "boundary", 200) {
			var label string
			tx, _, q, label = genBoundary(r.T, "legacy")
			nsep = bytes.Count(unhx(q.Code), []byte{0xab})
			r.Class("compactsize_boundary")
			r.Class(label)
		} else {
			tx = genTx(r.T, true)
			q, nsep = genLegacyReq(r.T, tx)
		}
		c := digestCase{Tx: hx(tx.Serialize(true)), Req: q}
		r.Case(c)
		classesFor(r, tx, q, nsep)
		if err := checkDigest(c); err != nil {
			r.Failf("%v", err)
		}
	})
}

func TestBIP143Digest(t *testing.T) {
	pbt.Check(t, pbt.Cfg{Name: "bip143_digest", Quick: 200000, Thorough: 5000000}, func(r *pbt.Run) {
		var tx *wire.Tx
		var q req
		var nsep int
		if oneIn(r.T, "boundary", 200) {
			var label string
			tx, _, q, label = genBoundary(r.T, "bip143")
			nsep = bytes.Count(unhx(q.Code), []byte{0xab})
			r.Class("compactsize_boundary")
			r.Class(label)
		} else {
			tx = genTx(r.T, true)
			q, nsep = genBIP143Req(r.T, tx)
		}
		c := digestCase{Tx: hx(tx.Serialize(true)), Req: q}
		r.Case(c)
		classesFor(r, tx, q, nsep)
		if err := checkDigest(c); err != nil {
			r.Failf("%v", err)
		}
	})
}

func TestBIP341Digest(t *testing.T) {
	pbt.Check(t, pbt.Cfg{Name: "bip341_digest", Quick: 200000, Thorough: 5000000}, func(r *pbt.Run) {
		var c digestCase
		var tx *wire.Tx
		var q req
		if oneIn(r.T, "boundary", 200) {
			var sp []spentOut
			var label string
			tx, sp, q, label = genBoundary(r.T, "bip341")
			c = digestCase{Tx: hx(tx.Serialize(true)), Spent: sp, Req: q}
			r.Class("compactsize_boundary")
			r.Class(label)
		} else {
			tx = genTx(r.T, true)
			q = genBIP341Req(r.T, tx)
			c = digestCase{Tx: hx(tx.Serialize(true)), Spent: genSpent(r.T, len(tx.In)), Req: q}
		}
		r.Case(c)
		classesFor(r, tx, q, 0)
		if err := checkDigest(c); err != nil {
			r.Failf("%v", err)
		}
	})
}

// ---------------------------------------------------------------------------------------------
// (b) call-order state machine on ONE transaction object + the same requests from several goroutines

func TestCallOrder(t *testing.T) {
	pbt.Check(t, pbt.Cfg{Name: "call_order", Quick: 16000, Thorough: 300000}, func(r *pbt.Run) {
		tx := genTx(r.T, true)
		c := orderCase{Tx: hx(tx.Serialize(true)), Spent: genSpent(r.T, len(tx.In))}
		n := rapid.IntRange(2, 24).Draw(r.T, "nreqs")
		kinds := map[string]bool{}
		for i := 0; i < n; i++ {
			var q req
			switch rapid.IntRange(0, 4).Draw(r.T, "kind") {
			case 0:
				q, _ = genLegacyReq(r.T, tx)
			case 1, 2:
				q, _ = genBIP143Req(r.T, tx)
			default:
				q = genBIP341Req(r.T, tx)
			}
			// make the hash-type classes that steer the caches frequent
			if q.Kind != "bip341" && rapid.Bool().Draw(r.T, "plain_type") {
				q.HashType = rapid.SampledFrom([]int64{1, 2, 3, 0x81, 0x82, 0x83}).Draw(r.T, "plain")
			}
			kinds[q.Kind] = true
			c.Reqs = append(c.Reqs, q)
		}
		c.Goroutines = rapid.SampledFrom([]int{0, 2, 3, 4, 8, 16}).Draw(r.T, "goroutines")
		r.Case(c)
		r.Class(fmt.Sprintf("kinds=%d", len(kinds)))
		if c.Goroutines >= 2 {
			r.Class("concurrent")
		} else {
			r.Class("sequential_only")
		}
		r.NonTrivial()
		pbt.AddExtra("order_requests", int64(len(c.Reqs)))
		if err := checkOrder(c); err != nil {
			r.Failf("%v", err)
		}
		if c.Goroutines >= 2 {
			b, _ := json.Marshal(c)
			raceBatch = append(raceBatch, b)
		}
	})
	// the same concurrent histories once more inside a binary built with the race detector
	if !t.Failed() {
		runRaceBatch(t, raceBatch)
	}
	raceBatch = nil
}

var raceBatch [][]byte

// raceBinary is the helper built by the driver (check.json extra_builds): props/c02/racecmd with -race.
func raceBinary() string {
	dir := os.Getenv("VERIF_BUILD")
	if dir == "" {
		return ""
	}
	return filepath.Join(dir, "c02race")
}

// runRace pipes the cases through the helper; it returns the helper's verdict lines, whether the race
// detector fired (exit code 66 / report on stderr), the index of the case that was executing then, and the
// tail of stderr.
func runRace(bin string, cases [][]byte) (lines []string, raced bool, at int, stderr string, err error) {
	cmd := exec.Command(bin)
	cmd.Env = append(os.Environ(), "GORACE=halt_on_error=1 exitcode=66")
	cmd.Stdin = bytes.NewReader(append(bytes.Join(cases, []byte("\n")), '\n'))
	var so, se bytes.Buffer
	cmd.Stdout, cmd.Stderr = &so, &se
	runErr := cmd.Run()
	for _, l := range strings.Split(strings.TrimSpace(so.String()), "\n") {
		if l != "" {
			lines = append(lines, l)
		}
	}
	stderr = se.String()
	if len(stderr) > 20000 {
		stderr = stderr[:20000]
	}
	if strings.Contains(stderr, "WARNING: DATA RACE") {
		return lines, true, len(lines), stderr, nil
	}
	if runErr != nil {
		return lines, false, len(lines), stderr, fmt.Errorf("race helper: %v: %s", runErr, stderr)
	}
	return lines, false, 0, stderr, nil
}

func runRaceBatch(t *testing.T, cases [][]byte) {
	bin := raceBinary()
	d := pbt.Direct{Name: "call_order_race"}
	if bin == "" {
		pbt.Note("call_order_race skipped: VERIF_BUILD not set (not run by the driver)")
		return
	}
	if _, err := os.Stat(bin); err != nil {
		t.Fatalf("race helper %s is missing: %v", bin, err)
	}
	if len(cases) == 0 {
		return
	}
	lines, raced, at, stderr, err := runRace(bin, cases)
	for i, l := range lines {
		if i >= len(cases) {
			break
		}
		d.Eval("concurrent_under_race_detector", true, string(cases[i]), nil)
		if strings.HasPrefix(l, "FAIL ") {
			d.Fail(t, json.RawMessage(cases[i]), "under the race-detector build: %s", l)
			return
		}
	}
	if raced && at < len(cases) {
		d.Fail(t, json.RawMessage(cases[at]), "data race reported by the Go race detector while digests were requested concurrently on one Tx object: %s", firstRaceFrames(stderr))
		return
	}
	if err != nil {
		t.Fatalf("%v", err) // infrastructure: no replay file, the driver reports inconclusive
	}
	if len(lines) != len(cases) {
		t.Fatalf("race helper answered %d of %d cases", len(lines), len(cases))
	}
}

func firstRaceFrames(s string) string {
	var out []string
	for _, l := range strings.Split(s, "\n") {
		l = strings.TrimSpace(l)
		if strings.Contains(l, "gocoin/lib") || strings.HasPrefix(l, "Write at") || strings.HasPrefix(l, "Read at") || strings.HasPrefix(l, "Previous") {
			out = append(out, l)
		}
		if len(out) >= 8 {
			break
		}
	}
	return strings.Join(out, " | ")
}

// replayRace re-runs one concurrent history in the race-detector build (20 times: the detector needs the
// conflicting accesses to overlap in its window).
func replayRace(raw json.RawMessage) error {
	var c orderCase
	if err := json.Unmarshal(raw, &c); err != nil {
		return err
	}
	if err := checkOrder(c); err != nil {
		return err
	}
	bin := raceBinary()
	if bin == "" {
		return nil
	}
	b, _ := json.Marshal(c)
	var cases [][]byte
	for i := 0; i < 20; i++ {
		cases = append(cases, b)
	}
	lines, raced, _, stderr, err := runRace(bin, cases)
	if raced {
		return fmt.Errorf("data race: %s", firstRaceFrames(stderr))
	}
	if err != nil {
		return err
	}
	for _, l := range lines {
		if strings.HasPrefix(l, "FAIL ") {
			return fmt.Errorf("%s", l)
		}
	}
	return nil
}
