// Command racecmd is the race-detector half of the C02 call-order check.  It is built by the driver with
// `go build -race -tags verif` (check.json "extra_builds") and fed by the test binary: one JSON OrderCase
// per line on stdin.  Every case is executed with orderlib.CheckOrder (sequential requests on one Tx
// object, then the same requests from several goroutines on another single object).  Output: one line per
// case, "OK <n>" or "FAIL <n> <message>".  A data race makes the Go runtime print its report and exit with
// code 66 (GORACE=halt_on_error=1 exitcode=66, set by the caller); the case being executed is the one after
// the last "OK"/"FAIL" line.
package main

import (
	"bufio"
	"encoding/json"
	"fmt"
	"os"
	"strings"

	"github.com/piotrnar/gocoin/lib/script"
	"verif/props/c02/orderlib"
)

func main() {
	script.DBG_ERR = false
	in := bufio.NewReaderSize(os.Stdin, 1<<20)
	out := bufio.NewWriter(os.Stdout)
	defer out.Flush()
	for n := 0; ; n++ {
		line, err := in.ReadBytes('\n')
		if len(line) > 1 {
			var c orderlib.OrderCase
			if e := json.Unmarshal(line, &c); e != nil {
				fmt.Fprintf(out, "FAIL %d harness: bad case: %v\n", n, e)
			} else if e := orderlib.CheckOrder(c); e != nil {
				fmt.Fprintf(out, "FAIL %d %s\n", n, strings.ReplaceAll(e.Error(), "\n", " "))
			} else {
				fmt.Fprintf(out, "OK %d\n", n)
			}
			out.Flush()
		}
		if err != nil {
			return
		}
	}
}
