package c02

import (
	"bytes"
	"crypto/sha256"
	"encoding/binary"
	"fmt"
	"math/big"
	"sync"

	"pgregory.net/rapid"
	"verif/props/c02/orderlib"
	"verif/ref/ec"
	"verif/ref/sighash"
	"verif/ref/wire"
)

// ---------------------------------------------------------------------------------------------
// small helpers

// shared with the race helper program (props/c02/racecmd) through package orderlib
type (
	spentOut   = orderlib.SpentOut
	req        = orderlib.Req
	digestCase = orderlib.DigestCase
	orderCase  = orderlib.OrderCase
)

var (
	hx           = orderlib.Hx
	unhx         = orderlib.Unhx
	sha          = orderlib.Sha
	refTx        = orderlib.RefTx
	refSpent     = orderlib.RefSpent
	gocoinTx     = orderlib.GocoinTx
	gocoinDigest = orderlib.GocoinDigest
	refDigest    = orderlib.RefDigest
	checkDigest  = orderlib.CheckDigest
	checkOrder   = orderlib.CheckOrder
)

// fill expands a drawn seed into n bytes (SHA-256 in counter mode).  All randomness still comes from
// rapid (the seed); drawing 24 KB of script bytes one by one would dominate the run time.
func fill(seed uint64, n int) []byte {
	out := make([]byte, 0, n+32)
	var blk [16]byte
	binary.LittleEndian.PutUint64(blk[:], seed)
	for c := uint64(0); len(out) < n; c++ {
		binary.LittleEndian.PutUint64(blk[8:], c)
		h := sha256.Sum256(blk[:])
		out = append(out, h[:]...)
	}
	return out[:n]
}

// ---------------------------------------------------------------------------------------------
// transaction generator

func genCount(t *rapid.T, label string, min int) int {
	switch rapid.IntRange(0, 9).Draw(t, label+"_band") {
	case 0, 1, 2, 3:
		return rapid.IntRange(min, 3).Draw(t, label)
	case 4, 5, 6, 7:
		return rapid.IntRange(min, 8).Draw(t, label)
	default:
		return rapid.IntRange(min, 40).Draw(t, label)
	}
}

func genLen(t *rapid.T, label string, max int) int {
	switch rapid.IntRange(0, 9).Draw(t, label+"_band") {
	case 0, 1:
		return 0
	case 2, 3, 4, 5:
		return rapid.IntRange(1, 40).Draw(t, label)
	case 6, 7, 8:
		return rapid.IntRange(1, 300).Draw(t, label)
	default:
		return rapid.IntRange(0, max).Draw(t, label)
	}
}

func genU32(t *rapid.T, label string, special []uint32) uint32 {
	if rapid.IntRange(0, 3).Draw(t, label+"_sp") != 0 {
		return rapid.SampledFrom(special).Draw(t, label)
	}
	return rapid.Uint32().Draw(t, label)
}

func genValue(t *rapid.T, label string) uint64 {
	if rapid.IntRange(0, 2).Draw(t, label+"_sp") == 0 {
		return rapid.SampledFrom([]uint64{0, 1, 546, 100000000, 2100000000000000, 0x7fffffffffffffff, 0x8000000000000000, 0xffffffffffffffff}).Draw(t, label)
	}
	return rapid.Uint64().Draw(t, label)
}

// genTx: 1..40 inputs (a digest needs an input to be requested for: callers guarantee nIn < len(TxIn)),
// 0..40 outputs, any version / locktime / sequence, scripts 0..600 bytes, optional witness data.
func genTx(t *rapid.T, withWitness bool) *wire.Tx {
	tx := &wire.Tx{}
	tx.Version = genU32(t, "version", []uint32{1, 2, 0, 3, 0xffffffff, 0x80000000})
	tx.LockTime = genU32(t, "locktime", []uint32{0, 1, 499999999, 500000000, 0xffffffff})
	nIn := genCount(t, "nin", 1)
	nOut := genCount(t, "nout", 0)
	for i := 0; i < nIn; i++ {
		var in wire.TxIn
		copy(in.PrevHash[:], fill(rapid.Uint64().Draw(t, "prevhash"), 32))
		in.PrevIndex = genU32(t, "previdx", []uint32{0, 1, 2, 0xffffffff})
		in.ScriptSig = fill(rapid.Uint64().Draw(t, "ssseed"), genLen(t, "sslen", 600))
		in.Sequence = genU32(t, "sequence", []uint32{0xffffffff, 0xfffffffe, 0xfffffffd, 0, 1, 0x80000000, 0x00400000})
		tx.In = append(tx.In, in)
	}
	for i := 0; i < nOut; i++ {
		tx.Out = append(tx.Out, wire.TxOut{Value: genValue(t, "value"), PkScript: fill(rapid.Uint64().Draw(t, "pkseed"), genLen(t, "pklen", 600))})
	}
	if withWitness && rapid.IntRange(0, 2).Draw(t, "haswit") == 0 {
		for i := range tx.In {
			n := rapid.IntRange(0, 3).Draw(t, "witn")
			for j := 0; j < n; j++ {
				tx.In[i].Witness = append(tx.In[i].Witness, fill(rapid.Uint64().Draw(t, "witseed"), rapid.IntRange(0, 80).Draw(t, "witlen")))
			}
		}
	}
	return tx
}

func genSpent(t *rapid.T, n int) []spentOut {
	out := make([]spentOut, n)
	for i := range out {
		l := 34
		switch rapid.IntRange(0, 5).Draw(t, "spklen_band") {
		case 0:
			l = 0
		case 1:
			l = rapid.IntRange(1, 80).Draw(t, "spklen")
		case 2:
			l = rapid.IntRange(200, 600).Draw(t, "spklen")
		case 3:
			l = 22
		}
		out[i] = spentOut{Value: genValue(t, "spent_value"), Script: hx(fill(rapid.Uint64().Draw(t, "spkseed"), l))}
	}
	return out
}

// ---------------------------------------------------------------------------------------------
// script code generator: instruction lists that decode completely, with OP_CODESEPARATORs, pushes in all
// four encodings, 0xab bytes inside push data, and (seldom) arbitrary byte strings.

func pushEnc(enc int, data []byte) []byte {
	n := len(data)
	switch enc {
	case 1: // direct
		if n < 76 {
			return append([]byte{byte(n)}, data...)
		}
	case 2: // PUSHDATA1
		if n <= 0xff {
			return append([]byte{0x4c, byte(n)}, data...)
		}
	case 3: // PUSHDATA2
		if n <= 0xffff {
			return append([]byte{0x4d, byte(n), byte(n >> 8)}, data...)
		}
	case 4:
		return append([]byte{0x4e, byte(n), byte(n >> 8), byte(n >> 16), byte(n >> 24)}, data...)
	}
	return sighash.PushData(data)
}

func genCode(t *rapid.T) (code []byte, nSep int) {
	if rapid.IntRange(0, 11).Draw(t, "code_raw") == 0 {
		return fill(rapid.Uint64().Draw(t, "rawcode"), genLen(t, "rawlen", 600)), 0
	}
	n := rapid.IntRange(0, 12).Draw(t, "nitems")
	for i := 0; i < n; i++ {
		switch rapid.IntRange(0, 9).Draw(t, "item") {
		case 0, 1:
			code = append(code, 0xab)
			nSep++
		case 2, 3, 4:
			op := byte(rapid.IntRange(0x4f, 0xff).Draw(t, "opcode"))
			if op == 0xab {
				nSep++
			}
			code = append(code, op)
		default:
			enc := rapid.IntRange(1, 4).Draw(t, "enc")
			max := []int{0, 75, 255, 520, 300}[enc]
			l := genLen(t, "pushlen", max)
			if l > max {
				l = max
			}
			data := fill(rapid.Uint64().Draw(t, "pushseed"), l)
			if rapid.IntRange(0, 5).Draw(t, "abdata") == 0 {
				for k := range data {
					if k%3 == 0 {
						data[k] = 0xab
					}
				}
			}
			code = append(code, pushEnc(enc, data)...)
		}
	}
	return code, nSep
}

// hash types: every byte value, the named ones with garbage in the unused bits, and full 32-bit values.
var namedTypes = []int64{0, 1, 2, 3, 0x80, 0x81, 0x82, 0x83, 1, 2, 3, 0x81, 0x82, 0x83, 0x1f, 0x20, 0x21, 0x22, 0x23, 0x41, 0x42, 0x43, 0x62, 0x63, 0x7f, 0x9f, 0xa2, 0xa3, 0xe3, 0xff}

func genHashType32(t *rapid.T) int64 {
	switch rapid.IntRange(0, 9).Draw(t, "ht_band") {
	case 0, 1, 2:
		return int64(rapid.IntRange(0, 255).Draw(t, "ht_byte"))
	case 3, 4, 5:
		return rapid.SampledFrom(namedTypes).Draw(t, "ht_named")
	case 6, 7:
		// a named low byte below random upper 24 bits
		lo := rapid.SampledFrom(namedTypes).Draw(t, "ht_low")
		return int64(int32(uint32(rapid.Uint32().Draw(t, "ht_high"))<<8 | uint32(lo)))
	default:
		return int64(rapid.Int32().Draw(t, "ht_32"))
	}
}

func typeClass(ht int64) string {
	u := uint32(ht)
	s := "all"
	switch u & 0x1f {
	case 2:
		s = "none"
	case 3:
		s = "single"
	}
	if u&0x80 != 0 {
		s += "|acp"
	}
	if u > 0xff {
		s += "/32bit"
	} else if u != 1 && u != 2 && u != 3 && u != 0x81 && u != 0x82 && u != 0x83 {
		s += "/odd_bits"
	}
	return s
}

// ---------------------------------------------------------------------------------------------
// key pool (secrets are fixed constants: the property is not about keys)

type keyPair struct {
	sk           []byte
	compressed   []byte
	uncompressed []byte
	xonly        []byte
}

var (
	poolOnce sync.Once
	pool     []keyPair
)

const poolSize = 6

func keys() []keyPair {
	poolOnce.Do(func() {
		for i := 0; i < poolSize; i++ {
			sk := fill(uint64(0xc02000+i), 32)
			sk[0] = byte(1 + i) // 0 < sk < n
			pt := ec.BaseMul(new(big.Int).SetBytes(sk))
			x, _ := ec.XOnlyPubKey(sk)
			pool = append(pool, keyPair{sk: sk, compressed: ec.SerializeCompressed(pt), uncompressed: ec.SerializeUncompressed(pt), xonly: x})
		}
	})
	return pool
}

// derSig encodes (r,s) with padR/padS leading zero bytes and trail garbage bytes after S.  The layout
// stays inside what BOTH Core's lax parser and gocoin's parser read identically: single-byte lengths
// below 0x80 for R, S and the sequence (which counts R and S only), garbage only after S.
func derSig(r, s *big.Int, padR, padS, trail int, trailSeed uint64) []byte {
	R := append(make([]byte, padR), r.Bytes()...)
	S := append(make([]byte, padS), s.Bytes()...)
	body := append([]byte{0x02, byte(len(R))}, R...)
	body = append(body, 0x02, byte(len(S)))
	body = append(body, S...)
	if len(R) > 127 || len(S) > 127 || len(body) > 127 || len(R) == 0 || len(S) == 0 {
		panic("harness: derSig padding out of the common domain")
	}
	out := append([]byte{0x30, byte(len(body))}, body...)
	return append(out, fill(trailSeed, trail)...)
}

func equalBytes(a, b []byte) bool { return bytes.Equal(a, b) }

// ---------------------------------------------------------------------------------------------
// CompactSize form boundaries: a tiny transaction in which ONE count or length that the digest algorithms
// serialise as a CompactSize is 252 / 253 / 254 / 65534 / 65535 / 65536 / 65537.

// oneIn is true for about one case in n.  rapid's integer generators favour a few values heavily (0, small
// numbers, the bounds): IntRange(0, n-1) == 0 is far more frequent than 1/n, and a single hashed draw still
// inherits the weight of its popular values.  Three draws are mixed and hashed.
func oneIn(t *rapid.T, label string, n uint64) bool {
	a, b, c := rapid.Uint64().Draw(t, label+"_a"), rapid.Uint64().Draw(t, label+"_b"), rapid.Uint64().Draw(t, label+"_c")
	return binary.LittleEndian.Uint64(fill(a*0x9e3779b97f4a7c15^b*0xc2b2ae3d27d4eb4f^c, 8))%n == 0
}

var boundarySizes = []int{252, 253, 254, 65534, 65535, 65536, 65537}

func tinyTx(seed uint64, nIn, nOut int) *wire.Tx {
	tx := &wire.Tx{Version: 2, LockTime: uint32(seed), In: make([]wire.TxIn, nIn), Out: make([]wire.TxOut, nOut)}
	base := fill(seed, 32)
	for i := range tx.In {
		copy(tx.In[i].PrevHash[:], base)
		binary.LittleEndian.PutUint32(tx.In[i].PrevHash[:], uint32(i)) // distinct prevouts without a hash per input
		tx.In[i].PrevIndex = uint32(i)
		tx.In[i].Sequence = 0xfffffffe
	}
	for i := range tx.Out {
		tx.Out[i].Value = uint64(1000 + i)
	}
	return tx
}

// genBoundary builds the case for one digest family.
func genBoundary(t *rapid.T, kind string) (tx *wire.Tx, spent []spentOut, q req, label string) {
	b := rapid.SampledFrom(boundarySizes).Draw(t, "boundary_size")
	seed := rapid.Uint64().Draw(t, "boundary_seed")
	feats := map[string][]string{
		"legacy": {"n_outputs", "n_outputs", "out_script_len", "out_script_len", "code_len", "code_len", "code_len_after_codesep_removal", "n_inputs"},
		"bip143": {"n_outputs", "out_script_len", "out_script_len", "code_len", "code_len"},
		"bip341": {"n_outputs", "out_script_len", "out_script_len", "spent_script_len", "spent_script_len", "other_spent_script_len", "annex_len"},
	}[kind]
	feat := rapid.SampledFrom(feats).Draw(t, "boundary_feature")
	label = fmt.Sprintf("boundary/%s=%d", feat, b)
	nIn, nOut := rapid.IntRange(1, 2).Draw(t, "tiny_nin"), rapid.IntRange(1, 2).Draw(t, "tiny_nout")
	switch feat {
	case "n_outputs":
		nOut = b
	case "n_inputs":
		nIn = b
	}
	tx = tinyTx(seed, nIn, nOut)
	q = req{Kind: kind, Idx: 0}
	code := []byte{0x51}
	switch feat {
	case "out_script_len":
		tx.Out[0].PkScript = fill(seed, b)
	case "code_len":
		if kind == "legacy" {
			code = bytes.Repeat([]byte{0x61}, b) // decodes completely, no separators
		} else {
			code = fill(seed, b)
		}
	case "code_len_after_codesep_removal":
		k := rapid.IntRange(1, 3).Draw(t, "boundary_nsep")
		code = bytes.Repeat([]byte{0x61}, b+k) // serialised without the k separators: CompactSize(b)
		step := len(code) / k
		for i := 0; i < k; i++ {
			code[i*step+int(seed%uint64(step))] = 0xab
		}
	}
	switch kind {
	case "legacy":
		q.Code = hx(code)
		q.HashType = rapid.SampledFrom([]int64{1, 1, 1, 3, 0x81, 0x83, 2}).Draw(t, "boundary_ht")
	case "bip143":
		q.Code = hx(code)
		q.Amount = 12345
		q.HashType = rapid.SampledFrom([]int64{1, 1, 1, 3, 0x81, 0x83, 2}).Draw(t, "boundary_ht")
	case "bip341":
		q.HashType = rapid.SampledFrom([]int64{0, 1, 1, 3, 0x81, 0x83}).Draw(t, "boundary_ht")
		spent = make([]spentOut, nIn)
		for i := range spent {
			spent[i] = spentOut{Value: uint64(5000 + i), Script: hx(append([]byte{0x51, 0x20}, fill(seed+uint64(i), 32)...))}
		}
		switch feat {
		case "spent_script_len":
			spent[0].Script = hx(fill(seed+1, b))
		case "other_spent_script_len":
			spent[len(spent)-1].Script = hx(fill(seed+1, b))
		case "annex_len":
			a := fill(seed+2, b)
			a[0] = 0x50
			h := hx(a)
			q.Annex = &h
		}
		if rapid.Bool().Draw(t, "boundary_tapscript") {
			q.Script = true
			q.Leaf = hx(fill(seed+3, 32))
			q.CSP = 0xffffffff
		}
	}
	return
}
