package c02

import (
	"bytes"
	"encoding/binary"
	"fmt"
	"testing"

	"github.com/piotrnar/gocoin/lib/btc"
	"github.com/piotrnar/gocoin/lib/script"
	"pgregory.net/rapid"
	"verif/pbt"
	"verif/ref/ec"
	"verif/ref/sighash"
	"verif/ref/wire"
)

// (c) taproot spends judged by script.VerifyTxScript.
//
//   - hash type with a defined digest: a BIP340 signature (ref/ec) over the reference digest must be accepted
//     (this also exercises the annex hash, the tapleaf hash and the code-separator position as the
//     interpreter computes them);
//   - explicit hash type 0x00 in a 65-byte signature: refused;
//   - NO digest defined (hash type outside {0,1,2,3,0x81,0x82,0x83}, or SIGHASH_SINGLE without a matching
//     output): the spend must be refused whatever was signed.  Valid signatures by the right key are tried
//     over every candidate digest an implementation might be using instead.
type tapCase struct {
	Tx       string     `json:"tx"`
	Idx      int        `json:"idx"`
	Spent    []spentOut `json:"spent"` // entry Idx is replaced by the taproot output
	KeyPath  bool       `json:"key_path"`
	Internal int        `json:"internal_key"` // pool index
	LeafKey  int        `json:"leaf_key"`     // pool index
	LeafKind int        `json:"leaf_kind"`    // 0 <pk> CHECKSIG, 1 <pk> CHECKSIGVERIFY 1, 2 0 <pk> CHECKSIGADD
	PreOps   int        `json:"pre_ops"`      // (PUSH2 <aabb> OP_DROP) pairs in front: 2 opcodes, 4 bytes each
	CodeSep  bool       `json:"codesep"`      // OP_CODESEPARATOR after them
	Nodes    []string   `json:"nodes"`        // merkle path (script path) / merkle root (key path, at most one)
	Annex    *string    `json:"annex"`
	LeafLen  int        `json:"leaf_len,omitempty"` // script path: the leaf script is padded with trailing OP_NOPs to this length
	Sig64    bool       `json:"sig64"`              // 64-byte signature (implicit SIGHASH_DEFAULT)
	HashType byte       `json:"hash_type"`
	Aux      uint64     `json:"aux"`
	Flags    uint32     `json:"flags"`
}

// naiveTapDigest runs BIP341's formula without its validity rules (what an implementation computes that
// forgets them): hash_type written as is, in/out handling by the masks, a missing SINGLE output either
// skipped (zeroHash=false) or hashed as 32 zero bytes.
func naiveTapDigest(tx *wire.Tx, idx int, spent []wire.TxOut, ht byte, ext byte, annex, leaf []byte, csp uint32, zeroHash bool) []byte {
	var w bytes.Buffer
	le32 := func(b *bytes.Buffer, v uint32) { binary.Write(b, binary.LittleEndian, v) }
	le64 := func(b *bytes.Buffer, v uint64) { binary.Write(b, binary.LittleEndian, v) }
	out := func(b *bytes.Buffer, o wire.TxOut) {
		le64(b, o.Value)
		b.Write(wire.CompactSize(uint64(len(o.PkScript))))
		b.Write(o.PkScript)
	}
	w.WriteByte(0)
	w.WriteByte(ht)
	le32(&w, tx.Version)
	le32(&w, tx.LockTime)
	if ht&0x80 == 0 {
		var a, b, c, d bytes.Buffer
		for i, in := range tx.In {
			a.Write(in.PrevHash[:])
			le32(&a, in.PrevIndex)
			le64(&b, spent[i].Value)
			c.Write(wire.CompactSize(uint64(len(spent[i].PkScript))))
			c.Write(spent[i].PkScript)
			le32(&d, in.Sequence)
		}
		w.Write(sha(a.Bytes()))
		w.Write(sha(b.Bytes()))
		w.Write(sha(c.Bytes()))
		w.Write(sha(d.Bytes()))
	}
	ot := ht & 3
	if ht == 0 {
		ot = 1
	}
	if ot == 1 || ot == 0 {
		var o bytes.Buffer
		for _, x := range tx.Out {
			out(&o, x)
		}
		w.Write(sha(o.Bytes()))
	}
	st := ext * 2
	if annex != nil {
		st++
	}
	w.WriteByte(st)
	if ht&0x80 != 0 {
		w.Write(tx.In[idx].PrevHash[:])
		le32(&w, tx.In[idx].PrevIndex)
		le64(&w, spent[idx].Value)
		w.Write(wire.CompactSize(uint64(len(spent[idx].PkScript))))
		w.Write(spent[idx].PkScript)
		le32(&w, tx.In[idx].Sequence)
	} else {
		le32(&w, uint32(idx))
	}
	if annex != nil {
		w.Write(sha(append(wire.CompactSize(uint64(len(annex))), annex...)))
	}
	if ot == 3 {
		if idx < len(tx.Out) {
			var o bytes.Buffer
			out(&o, tx.Out[idx])
			w.Write(sha(o.Bytes()))
		} else if zeroHash {
			w.Write(make([]byte, 32))
		}
	}
	if ext == 1 {
		w.Write(leaf)
		w.WriteByte(0)
		le32(&w, csp)
	}
	return ec.TaggedHash("TapSighash", w.Bytes())
}

type tapBuilt struct {
	tx      *wire.Tx
	spent   []wire.TxOut
	spk     []byte
	signKey []byte // secret that must sign
	ext     byte
	leaf    []byte
	csp     uint32
	annex   []byte
	tail    [][]byte // witness items after the signature (script, control, annex)
}

func buildTap(c tapCase) (*tapBuilt, error) {
	b := &tapBuilt{tx: refTx(c.Tx), spent: refSpent(c.Spent), csp: 0xffffffff}
	for i := range b.tx.In {
		b.tx.In[i].Witness = nil
	}
	b.tx.In[c.Idx].ScriptSig = nil
	ik := keys()[c.Internal]
	if c.Annex != nil {
		b.annex = unhx(*c.Annex)
	}
	var q []byte
	if c.KeyPath {
		var root []byte
		if len(c.Nodes) > 0 {
			root = unhx(c.Nodes[0])
		}
		tw := sighash.TapTweakHash(ik.xonly, root)
		var ok bool
		q, _, ok = ec.TweakAdd(ik.xonly, tw[:])
		if !ok {
			return nil, fmt.Errorf("harness: tweak failed")
		}
		b.signKey = ec.TweakSecret(ik.sk, tw[:])
	} else {
		lk := keys()[c.LeafKey]
		var ls []byte
		for i := 0; i < c.PreOps; i++ {
			ls = append(ls, 0x02, 0xaa, 0xbb, 0x75)
		}
		if c.CodeSep {
			ls = append(ls, 0xab)
			b.csp = uint32(2 * c.PreOps) // opcode position of the OP_CODESEPARATOR
		}
		switch c.LeafKind {
		case 0:
			ls = append(append(ls, 0x20), lk.xonly...)
			ls = append(ls, 0xac)
		case 1:
			ls = append(append(ls, 0x20), lk.xonly...)
			ls = append(ls, 0xad, 0x51)
		default:
			ls = append(append(ls, 0x00, 0x20), lk.xonly...)
			ls = append(ls, 0xba)
		}
		for len(ls) < c.LeafLen {
			ls = append(ls, 0x61) // trailing OP_NOPs (tapscript has neither a size nor an opcode-count limit)
		}
		lh := sighash.TapLeafHash(0xc0, ls)
		b.leaf = lh[:]
		b.ext = 1
		k := lh
		var path []byte
		for _, n := range c.Nodes {
			var nb [32]byte
			copy(nb[:], unhx(n))
			k = sighash.TapBranchHash(k, nb)
			path = append(path, nb[:]...)
		}
		tw := sighash.TapTweakHash(ik.xonly, k[:])
		var parity, ok bool
		q, parity, ok = ec.TweakAdd(ik.xonly, tw[:])
		if !ok {
			return nil, fmt.Errorf("harness: tweak failed")
		}
		ctl := byte(0xc0)
		if parity {
			ctl |= 1
		}
		control := append(append([]byte{ctl}, ik.xonly...), path...)
		b.signKey = lk.sk
		b.tail = [][]byte{ls, control}
	}
	if b.annex != nil {
		b.tail = append(b.tail, b.annex)
	}
	b.spk = append([]byte{0x51, 0x20}, q...)
	b.spent[c.Idx] = wire.TxOut{Value: b.spent[c.Idx].Value, PkScript: b.spk}
	return b, nil
}

func (b *tapBuilt) verify(c tapCase, sig []byte) (bool, error) {
	tx := b.tx.Copy()
	tx.In[c.Idx].Witness = append([][]byte{sig}, b.tail...)
	gtx, err := gocoinTx(tx.Serialize(true), b.spent)
	if err != nil {
		return false, err
	}
	return script.VerifyTxScript(b.spk, &script.SigChecker{Tx: gtx, Idx: c.Idx, Amount: b.spent[c.Idx].Value}, c.Flags), nil
}

func checkTap(c tapCase) (class string, err error) {
	rtx := refTx(c.Tx)
	if c.Idx < 0 || c.Idx >= len(rtx.In) || len(c.Spent) != len(rtx.In) {
		return "", nil
	}
	b, err := buildTap(c)
	if err != nil {
		return "", err
	}
	aux := fill(c.Aux, 32)
	sign := func(d []byte, ht byte, short bool) []byte {
		s := ec.SchnorrSign(b.signKey, d, aux)
		if s == nil {
			panic("harness: SchnorrSign failed")
		}
		if short {
			return s
		}
		return append(s, ht)
	}
	ref := func(ht byte) []byte {
		d, ok := sighash.BIP341(b.tx, c.Idx, b.spent, ht, b.ext, b.annex, b.leaf, b.csp)
		if !ok {
			return nil
		}
		return d[:]
	}
	ht := c.HashType
	if c.Sig64 {
		ht = 0
	}
	defined := sighash.BIP341Defined(b.tx, c.Idx, ht)
	switch {
	case !c.Sig64 && ht == 0:
		// an explicit 0x00 byte is not a valid encoding of SIGHASH_DEFAULT
		got, err := b.verify(c, sign(ref(0), 0, false))
		if err != nil {
			return "", err
		}
		if got {
			return "explicit_zero_type", fmt.Errorf("65-byte signature with hash type byte 0x00 accepted")
		}
		return "explicit_zero_type", nil
	case defined:
		got, err := b.verify(c, sign(ref(ht), ht, c.Sig64))
		if err != nil {
			return "", err
		}
		if !got {
			return "defined", fmt.Errorf("taproot spend (key path %v, hash type %#02x, annex %v, codesep_pos %#x) signed over the BIP341 digest is refused", c.KeyPath, ht, b.annex != nil, b.csp)
		}
		// control: the same signature with another (defined) hash type byte must not verify
		if !c.Sig64 {
			other := byte(1)
			if ht == 1 {
				other = 0x81
			}
			s := sign(ref(ht), other, false)
			if got, err = b.verify(c, s); err != nil {
				return "", err
			} else if got && sighash.BIP341Defined(b.tx, c.Idx, other) {
				return "defined", fmt.Errorf("signature over the digest of type %#02x accepted with type byte %#02x", ht, other)
			}
		}
		return "defined", nil
	}
	// no digest defined: nothing may be accepted
	class = "undefined_type"
	if ht <= 3 || ht >= 0x81 && ht <= 0x83 {
		class = "single_without_output"
	}
	type cand struct {
		name string
		d    []byte
	}
	cands := []cand{
		{"32 zero bytes", make([]byte, 32)},
		{"the digest of the type masked with 0x83", ref(ht & 0x83)},
		{"the digest of the type masked with 0x03", ref(ht & 0x03)},
		{"the SIGHASH_DEFAULT digest", ref(0)},
		{"the SIGHASH_ALL digest", ref(1)},
		{"the SIGHASH_NONE digest", ref(2 | ht&0x80)},
		{"the formula evaluated without validity rules", naiveTapDigest(b.tx, c.Idx, b.spent, ht, b.ext, b.annex, b.leaf, b.csp, false)},
		{"the formula with a zero single-output hash", naiveTapDigest(b.tx, c.Idx, b.spent, ht, b.ext, b.annex, b.leaf, b.csp, true)},
		{"uint256 ONE", sighash.One[:]},
	}
	// adaptive candidate: whatever gocoin's own TaprootSigHash returns for this request
	if gtx, err := gocoinTx(b.tx.Serialize(false), b.spent); err == nil {
		ed := &btc.ScriptExecutionData{M_codeseparator_pos: b.csp, M_codeseparator_pos_init: true, M_tapleaf_hash: b.leaf}
		if b.annex != nil {
			ed.M_annex_hash = sha(append(wire.CompactSize(uint64(len(b.annex))), b.annex...))
		}
		if d := gtx.TaprootSigHash(ed, c.Idx, ht, b.ext == 1); len(d) == 32 {
			cands = append(cands, cand{"the value Tx.TaprootSigHash returns", d})
		}
	}
	seen := map[string]bool{}
	for _, cd := range cands {
		if cd.d == nil || seen[string(cd.d)] {
			continue
		}
		seen[string(cd.d)] = true
		got, err := b.verify(c, sign(cd.d, ht, false))
		if err != nil {
			return class, err
		}
		if got {
			return class, fmt.Errorf("taproot spend (key path %v) with hash type %#02x on input %d of a transaction with %d outputs: BIP341 defines no digest, yet a signature over %s (%x) is accepted",
				c.KeyPath, ht, c.Idx, len(b.tx.Out), cd.name, cd.d)
		}
	}
	return class, nil
}

func genTap(t *rapid.T) tapCase {
	tx := genTx(t, false)
	c := tapCase{Tx: hx(tx.Serialize(false)), Idx: rapid.IntRange(0, len(tx.In)-1).Draw(t, "idx"), Spent: genSpent(t, len(tx.In))}
	c.KeyPath = rapid.Bool().Draw(t, "key_path")
	c.Internal = rapid.IntRange(0, poolSize-1).Draw(t, "internal")
	c.LeafKey = rapid.IntRange(0, poolSize-1).Draw(t, "leaf_key")
	c.LeafKind = rapid.IntRange(0, 2).Draw(t, "leaf_kind")
	c.PreOps = rapid.IntRange(0, 3).Draw(t, "pre_ops")
	c.CodeSep = rapid.Bool().Draw(t, "codesep")
	nn := rapid.IntRange(0, 3).Draw(t, "nodes")
	if c.KeyPath && nn > 1 {
		nn = 1
	}
	for i := 0; i < nn; i++ {
		c.Nodes = append(c.Nodes, hx(fill(rapid.Uint64().Draw(t, "node"), 32)))
	}
	if rapid.IntRange(0, 2).Draw(t, "has_annex") == 0 {
		a := fill(rapid.Uint64().Draw(t, "annex_seed"), rapid.SampledFrom([]int{1, 2, 40, 400, 1, 2, 40, 400, 252, 253, 254, 65534, 65535, 65536, 65537}).Draw(t, "annex_len"))
		a[0] = 0x50
		s := hx(a)
		c.Annex = &s
	}
	if !c.KeyPath && rapid.IntRange(0, 5).Draw(t, "leaf_boundary") == 0 {
		c.LeafLen = rapid.SampledFrom(boundarySizes).Draw(t, "leaf_len")
	}
	switch rapid.IntRange(0, 9).Draw(t, "ht_band") {
	case 0:
		c.Sig64 = true
	case 1, 2, 3:
		c.HashType = byte(rapid.SampledFrom(tapTypes).Draw(t, "ht_valid"))
	case 4, 5: // SINGLE, preferably on an input without a matching output
		c.HashType = rapid.SampledFrom([]byte{3, 0x83}).Draw(t, "ht_single")
		if len(tx.In) > len(tx.Out) {
			c.Idx = rapid.IntRange(len(tx.Out), len(tx.In)-1).Draw(t, "idx_oob")
		}
	default:
		c.HashType = byte(rapid.IntRange(0, 255).Draw(t, "ht_any"))
	}
	c.Aux = rapid.Uint64().Draw(t, "aux")
	c.Flags = script.VER_P2SH | script.VER_WITNESS | script.VER_TAPROOT
	if rapid.Bool().Draw(t, "more_flags") {
		c.Flags |= script.VER_NULLFAIL | script.VER_CLEANSTACK | script.VER_MINIMALIF | script.VER_WITNESS_PUBKEY | script.VER_CONST_SCRIPTCODE
	}
	return c
}

func TestTaprootSpend(t *testing.T) {
	pbt.Check(t, pbt.Cfg{Name: "taproot_spend", Quick: 10000, Thorough: 200000}, func(r *pbt.Run) {
		c := genTap(r.T)
		r.Case(c)
		if c.KeyPath {
			r.Class("key_path")
		} else {
			r.Class("script_path")
			if c.CodeSep {
				r.Class("code_separator_executed")
			}
		}
		if c.Annex != nil {
			r.Class("annex")
			if n := len(*c.Annex) / 2; n >= 252 && n <= 254 || n >= 65534 {
				r.Class(fmt.Sprintf("boundary/annex_len=%d", n))
				r.Class("compactsize_boundary")
			}
		}
		if c.LeafLen > 0 {
			r.Class(fmt.Sprintf("boundary/leaf_script_len=%d", c.LeafLen))
			r.Class("compactsize_boundary")
		}
		r.NonTrivial()
		class, err := checkTap(c)
		if class != "" {
			r.Class(class)
		}
		if err != nil {
			r.Failf("%v", err)
		}
	})
}
