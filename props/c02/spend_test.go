package c02

import (
	"bytes"
	"fmt"
	"math/big"
	"strings"
	"testing"

	"github.com/piotrnar/gocoin/lib/btc"
	"github.com/piotrnar/gocoin/lib/script"
	"pgregory.net/rapid"
	"verif/pbt"
	"verif/ref/ec"
	"verif/ref/sighash"
	"verif/ref/wire"
)

// (d) "signature removal" and, more generally, the verdict of script.VerifyTxScript for ECDSA signatures
// made by an independent signer (ref/ec) over the reference digest (ref/sighash).
//
// The spends come from one small template family whose evaluation is modelled here in a few lines (this is
// NOT a script interpreter: the template fixes the control flow, only the signature checks are open):
//
//	script   = { item } key-part [OP_NOT] { item }
//	item     = push(X) OP_DROP | OP_NOP | OP_CODESEPARATOR         X = one of the spend's signatures in a
//	                                                               chosen push encoding, or other data
//	key-part = push(pk) OP_CHECKSIG | push(pk) OP_CHECKSIGVERIFY OP_1
//	         | OP_m push(pk)*n OP_n OP_CHECKMULTISIG | ... OP_CHECKMULTISIGVERIFY OP_1
//
// used bare (scriptPubKey), as P2SH redeem script, or as P2WSH witness script; plus P2WPKH.  Signatures are
// made over the digest of the script with ALL embedded signature pushes left out.  Under the original
// algorithm that is the right digest exactly when every embedded push is the one Core's FindAndDelete
// removes (the push encoding CScript() << sig produces); under BIP143 it is right only without embeds.

type item struct {
	Kind string `json:"kind"`           // embed | data | nop | codesep
	Sig  int    `json:"sig,omitempty"`  // embed: which signature
	Enc  int    `json:"enc,omitempty"`  // 0 = as CScript()<<sig, 1 direct, 2 PUSHDATA1, 3 PUSHDATA2, 4 PUSHDATA4
	Data string `json:"data,omitempty"` // data: hex
}

type sigSpec struct {
	HashType byte   `json:"hash_type"`
	Canon    bool   `json:"canonical"` // strict DER
	PadR     int    `json:"pad_r"`
	PadS     int    `json:"pad_s"`
	Trail    int    `json:"trail"`
	Target   int    `json:"target,omitempty"` // when > 0: the garbage is sized so that the signature (with type byte) has exactly this length
	Seed     uint64 `json:"seed"`
	PushEnc  int    `json:"push_enc"` // encoding of the push in scriptSig
	Key      int    `json:"key"`      // position (in the script's key list) of the signing key
}

type spendCase struct {
	Tx     string    `json:"tx"` // before the spend's scriptSig / witness are filled in
	Idx    int       `json:"idx"`
	Amount uint64    `json:"amount"`
	Wrap   string    `json:"wrap"` // bare | p2sh | p2wsh | p2wpkh
	Multi  bool      `json:"multi"`
	M      int       `json:"m"`
	Keys   []int     `json:"keys"` // pool indexes of the script's public keys
	Uncomp []bool    `json:"uncompressed"`
	Pre    []item    `json:"pre"`
	Post   []item    `json:"post"`
	Verify bool      `json:"verify"`
	Not    bool      `json:"not"`
	Sigs   []sigSpec `json:"sigs"`
	Flags  uint32    `json:"flags"`
}

func (c *spendCase) pubkey(i int) []byte {
	k := keys()[c.Keys[i]]
	if c.Uncomp[i] {
		return k.uncompressed
	}
	return k.compressed
}

// build serialises the script; with sigs == nil every embedded signature push is left out.
// It also returns the offset where the script code starts at the time the signature opcode runs
// (after the last OP_CODESEPARATOR of the leading items).
func (c *spendCase) build(sigs [][]byte) (scr []byte, codeStart int) {
	emit := func(items []item, leading bool) {
		for _, it := range items {
			switch it.Kind {
			case "embed":
				if sigs != nil {
					scr = append(scr, pushEnc(it.Enc, sigs[it.Sig])...)
				}
				scr = append(scr, 0x75) // the OP_DROP stays: FindAndDelete removes the push only
			case "data":
				scr = append(scr, sighash.PushData(unhx(it.Data))...)
				scr = append(scr, 0x75)
			case "nop":
				scr = append(scr, 0x61)
			case "codesep":
				scr = append(scr, 0xab)
				if leading {
					codeStart = len(scr)
				}
			}
		}
	}
	emit(c.Pre, true)
	if c.Multi {
		scr = append(scr, byte(0x50+c.M))
		for i := range c.Keys {
			scr = append(scr, sighash.PushData(c.pubkey(i))...)
		}
		scr = append(scr, byte(0x50+len(c.Keys)))
		if c.Verify {
			scr = append(scr, 0xaf, 0x51)
		} else {
			scr = append(scr, 0xae)
		}
	} else {
		scr = append(scr, sighash.PushData(c.pubkey(0))...)
		if c.Verify {
			scr = append(scr, 0xad, 0x51)
		} else {
			scr = append(scr, 0xac)
		}
	}
	if c.Not && !c.Verify {
		scr = append(scr, 0x91)
	}
	emit(c.Post, false)
	return
}

func (c *spendCase) legacy() bool { return c.Wrap == "bare" || c.Wrap == "p2sh" }

func p2wpkhCode(pk []byte) []byte {
	h := btc.Rimp160AfterSha256(pk) // generation side only: HASH160 links key and program, it is not part of any digest rule
	return append(append([]byte{0x76, 0xa9, 0x14}, h[:]...), 0x88, 0xac)
}

// checkSpend builds the spend, predicts the verdict with the reference digest and compares.
func checkSpend(c spendCase) (info string, err error) {
	rtx := refTx(c.Tx)
	if c.Idx < 0 || c.Idx >= len(rtx.In) {
		return "", nil
	}
	digest := func(code []byte, ht byte) []byte {
		if c.legacy() {
			h := sighash.Legacy(rtx, c.Idx, code, uint32(ht))
			return h[:]
		}
		h := sighash.BIP143(rtx, c.Idx, code, c.Amount, uint32(ht))
		return h[:]
	}

	// 1. sign over the script without embedded signatures
	var skel []byte
	var skelStart int
	if c.Wrap == "p2wpkh" {
		skel = p2wpkhCode(c.pubkey(0))
	} else {
		skel, skelStart = c.build(nil)
	}
	sigs := make([][]byte, len(c.Sigs))
	for i, sp := range c.Sigs {
		d := digest(skel[skelStart:], sp.HashType)
		r, s, _ := ec.SignRFC6979(keys()[c.Keys[sp.Key]].sk, d)
		var der []byte
		if sp.Canon {
			der = ec.EncodeDER(r, s)
		} else {
			trail := sp.Trail
			if sp.Target > 0 {
				if trail = sp.Target - 1 - len(derSig(r, s, sp.PadR, sp.PadS, 0, 0)); trail < 0 {
					trail = 0
				}
			}
			der = derSig(r, s, sp.PadR, sp.PadS, trail, sp.Seed)
			if pr, ps, ok := ec.ParseDERLax(der); !ok || pr.Cmp(r) != 0 || ps.Cmp(s) != 0 {
				return "", fmt.Errorf("harness: padded signature does not parse back under Core's lax rules")
			}
		}
		sigs[i] = append(der, sp.HashType)
		if len(sigs[i]) > 520 {
			return "", fmt.Errorf("harness: signature of %d bytes", len(sigs[i]))
		}
	}

	// 2. the real script and the model's verdict
	var scr []byte
	var codeStart int
	if c.Wrap == "p2wpkh" {
		scr = skel
	} else {
		scr, codeStart = c.build(sigs)
	}
	code := scr[codeStart:]
	found := 0
	if c.legacy() {
		for _, sg := range sigs {
			var f int
			code, f = sighash.FindAndDelete(code, sighash.PushData(sg))
			found += f
		}
	}
	valid := func(si, ki int) bool {
		sg := sigs[si]
		return ec.VerifyConsensus(c.pubkey(ki), sg[:len(sg)-1], digest(code, sg[len(sg)-1]))
	}
	want := true
	why := ""
	switch {
	case c.legacy() && found > 0 && c.Flags&script.VER_CONST_SCRIPTCODE != 0:
		want, why = false, "SIG_FINDANDDELETE"
	default:
		var success bool
		if !c.Multi {
			success = valid(0, 0)
		} else {
			// Core's CHECKMULTISIG loop: signatures and keys are walked in script order (top of stack first,
			// which is the LAST pushed; order does not matter for the verdict as both lists are walked the same way)
			isig, ikey, nsig, nkey := len(sigs)-1, len(c.Keys)-1, len(sigs), len(c.Keys)
			success = true
			for success && nsig > 0 {
				if valid(isig, ikey) {
					isig--
					nsig--
				}
				ikey--
				nkey--
				if nsig > nkey {
					success = false
				}
			}
		}
		info = fmt.Sprintf("sigcheck=%v", success)
		switch {
		case !success && c.Flags&script.VER_NULLFAIL != 0:
			want, why = false, "NULLFAIL" // all generated signatures are non-empty
		case c.Verify:
			want, why = success, "VERIFY"
		case c.Not:
			want, why = !success, "NOT"
		default:
			want, why = success, "result"
		}
	}
	if found > 0 {
		info += " removed"
		if strings.Contains(info, "sigcheck=true") {
			info += " removed+valid"
		}
	}

	// 3. the spend as gocoin sees it
	tx := rtx.Copy()
	for i := range tx.In {
		tx.In[i].Witness = nil
	}
	var sigPushes []byte
	var witness [][]byte
	if c.Multi {
		sigPushes = append(sigPushes, 0x00)
		witness = append(witness, []byte{})
	}
	for i, sg := range sigs {
		sigPushes = append(sigPushes, pushEnc(c.Sigs[i].PushEnc, sg)...)
		witness = append(witness, sg)
	}
	var spk []byte
	switch c.Wrap {
	case "bare":
		spk = scr
		tx.In[c.Idx].ScriptSig = sigPushes
	case "p2sh":
		if len(scr) > 520 {
			return "", fmt.Errorf("harness: redeem script of %d bytes", len(scr))
		}
		h := btc.Rimp160AfterSha256(scr) // generation side only
		spk = append(append([]byte{0xa9, 0x14}, h[:]...), 0x87)
		tx.In[c.Idx].ScriptSig = append(sigPushes, sighash.PushData(scr)...)
	case "p2wsh":
		spk = append([]byte{0x00, 0x20}, sha(scr)...)
		tx.In[c.Idx].ScriptSig = nil
		tx.In[c.Idx].Witness = append(witness, scr)
	case "p2wpkh":
		spk = append([]byte{0x00, 0x14}, scr[3:23]...)
		tx.In[c.Idx].ScriptSig = nil
		tx.In[c.Idx].Witness = [][]byte{sigs[0], c.pubkey(0)}
	default:
		return "", fmt.Errorf("harness: wrap %q", c.Wrap)
	}
	spent := make([]wire.TxOut, len(tx.In))
	for i := range spent {
		spent[i] = wire.TxOut{Value: 1000 + uint64(i), PkScript: []byte{0x51}}
	}
	spent[c.Idx] = wire.TxOut{Value: c.Amount, PkScript: spk}
	gtx, err := gocoinTx(tx.Serialize(true), spent)
	if err != nil {
		return "", err
	}
	got := script.VerifyTxScript(spk, &script.SigChecker{Tx: gtx, Idx: c.Idx, Amount: c.Amount}, c.Flags)
	if got != want {
		lens := []int{}
		for _, sg := range sigs {
			lens = append(lens, len(sg))
		}
		return info, fmt.Errorf("%s spend (flags %#x, signature lengths %v, %d embedded pushes removed by FindAndDelete): VerifyTxScript=%v, with the reference digest the verdict is %v (%s)",
			c.Wrap, c.Flags, lens, found, got, want, why)
	}
	return info, nil
}

func genSigSpec(t *rapid.T, nkeys int) sigSpec {
	sp := sigSpec{Seed: rapid.Uint64().Draw(t, "sig_seed"), PushEnc: rapid.SampledFrom([]int{0, 0, 0, 2, 3, 4}).Draw(t, "sig_push_enc")}
	if rapid.IntRange(0, 2).Draw(t, "ht_any") == 0 {
		sp.HashType = byte(rapid.IntRange(0, 255).Draw(t, "ht"))
	} else {
		sp.HashType = rapid.SampledFrom([]byte{1, 1, 1, 2, 3, 0x81, 0x82, 0x83}).Draw(t, "ht_named")
	}
	switch rapid.IntRange(0, 6).Draw(t, "sig_size") {
	case 6: // exactly at the push-encoding boundaries
		sp.PadR = rapid.IntRange(0, 1).Draw(t, "pad_r")
		sp.Target = rapid.SampledFrom([]int{75, 76, 77, 255, 256, 257, 520}).Draw(t, "target_len")
	case 0, 1: // strict DER, 70..73 bytes
		sp.Canon = true
	case 2: // short but padded (< 76 bytes total)
		sp.PadR, sp.PadS = rapid.IntRange(0, 1).Draw(t, "pad_r"), rapid.IntRange(0, 1).Draw(t, "pad_s")
		sp.Trail = rapid.IntRange(0, 2).Draw(t, "trail")
	case 3, 4: // 76..255 bytes: PUSHDATA1 territory
		sp.PadR, sp.PadS = rapid.IntRange(0, 28).Draw(t, "pad_r"), rapid.IntRange(0, 28).Draw(t, "pad_s")
		sp.Trail = rapid.IntRange(8, 110).Draw(t, "trail")
	default: // 256..520 bytes: PUSHDATA2 territory
		sp.PadR, sp.PadS = rapid.IntRange(0, 28).Draw(t, "pad_r"), rapid.IntRange(0, 28).Draw(t, "pad_s")
		sp.Trail = rapid.IntRange(190, 380).Draw(t, "trail")
	}
	return sp
}

func genItems(t *rapid.T, label string, max int, nsigs int, codesep bool, embeds bool) []item {
	var out []item
	n := rapid.IntRange(0, max).Draw(t, label+"_n")
	for i := 0; i < n; i++ {
		k := rapid.IntRange(0, 9).Draw(t, label+"_kind")
		switch {
		case k <= 4 && embeds:
			enc := 0
			if rapid.IntRange(0, 3).Draw(t, label+"_noncanon") == 0 {
				enc = rapid.IntRange(1, 4).Draw(t, label+"_enc")
			}
			out = append(out, item{Kind: "embed", Sig: rapid.IntRange(0, nsigs-1).Draw(t, label+"_sig"), Enc: enc})
		case k <= 6:
			out = append(out, item{Kind: "data", Data: hx(fill(rapid.Uint64().Draw(t, label+"_seed"), rapid.IntRange(0, 90).Draw(t, label+"_len")))})
		case k == 7 && codesep:
			out = append(out, item{Kind: "codesep"})
		default:
			out = append(out, item{Kind: "nop"})
		}
	}
	return out
}

func genSpend(t *rapid.T) spendCase {
	tx := genTx(t, false)
	c := spendCase{Tx: hx(tx.Serialize(false)), Idx: rapid.IntRange(0, len(tx.In)-1).Draw(t, "idx"), Amount: genValue(t, "amount")}
	c.Wrap = rapid.SampledFrom([]string{"bare", "bare", "bare", "p2sh", "p2wsh", "p2wsh", "p2wpkh"}).Draw(t, "wrap")
	nkeys := 1
	if c.Wrap != "p2wpkh" && rapid.IntRange(0, 3).Draw(t, "multi") == 0 {
		c.Multi = true
		nkeys = rapid.IntRange(1, 3).Draw(t, "nkeys")
		c.M = rapid.IntRange(1, nkeys).Draw(t, "m")
	}
	for i := 0; i < nkeys; i++ {
		c.Keys = append(c.Keys, rapid.IntRange(0, poolSize-1).Draw(t, "key"))
		c.Uncomp = append(c.Uncomp, c.legacy() && rapid.IntRange(0, 3).Draw(t, "uncompressed") == 0)
	}
	nsigs := 1
	if c.Multi {
		nsigs = c.M
	}
	// signing keys: ascending positions in the key list (the order CHECKMULTISIG demands)
	pos := rapid.SliceOfNDistinct(rapid.IntRange(0, nkeys-1), nsigs, nsigs, rapid.ID[int]).Draw(t, "signers")
	for i := 0; i < len(pos); i++ {
		for j := i + 1; j < len(pos); j++ {
			if pos[j] < pos[i] {
				pos[i], pos[j] = pos[j], pos[i]
			}
		}
	}
	for i := 0; i < nsigs; i++ {
		sp := genSigSpec(t, nkeys)
		sp.Key = pos[i]
		c.Sigs = append(c.Sigs, sp)
	}
	// flags: only those whose effect the template model covers; none that judges signature *encoding*
	c.Flags = 0
	if c.Wrap == "p2sh" || c.Wrap == "p2wsh" || c.Wrap == "p2wpkh" || rapid.Bool().Draw(t, "f_p2sh") {
		c.Flags |= script.VER_P2SH
	}
	if c.Wrap == "p2wsh" || c.Wrap == "p2wpkh" {
		c.Flags |= script.VER_WITNESS
	}
	if rapid.IntRange(0, 3).Draw(t, "f_nullfail") == 0 {
		c.Flags |= script.VER_NULLFAIL
	}
	constCode := rapid.IntRange(0, 2).Draw(t, "f_constcode") == 0
	if constCode {
		c.Flags |= script.VER_CONST_SCRIPTCODE
	}
	if c.Wrap != "p2wpkh" {
		// OP_CODESEPARATOR in a legacy script is itself an error under CONST_SCRIPTCODE (C01's business): keep them apart
		codesep := !(constCode && c.legacy())
		embeds := rapid.IntRange(0, 4).Draw(t, "embeds") != 0
		c.Pre = genItems(t, "pre", 5, nsigs, codesep, embeds)
		c.Post = genItems(t, "post", 3, nsigs, codesep, embeds)
		c.Verify = rapid.IntRange(0, 3).Draw(t, "verify") == 0
		c.Not = rapid.IntRange(0, 2).Draw(t, "not") == 0
	}
	return c
}

func sigLenClass(c *spendCase) string {
	max := 0
	for _, sp := range c.Sigs {
		l := 72
		if sp.Target > 0 {
			l = sp.Target
		} else if !sp.Canon {
			l = 6 + 33 + 33 + sp.PadR + sp.PadS + sp.Trail
		}
		if l > max {
			max = l
		}
	}
	switch {
	case max < 76:
		return "sig<76"
	case max < 256:
		return "sig=76..255"
	default:
		return "sig=256..520"
	}
}

func TestECDSASpend(t *testing.T) {
	pbt.Check(t, pbt.Cfg{Name: "ecdsa_spend", Quick: 28000, Thorough: 500000}, func(r *pbt.Run) {
		c := genSpend(r.T)
		// P2SH redeem scripts are limited to 520 bytes: fall back to the bare form when the template grew larger
		if c.Wrap == "p2sh" {
			probe := make([][]byte, len(c.Sigs))
			for i, sp := range c.Sigs {
				probe[i] = make([]byte, 6+33+33+sp.PadR+sp.PadS+sp.Trail+sp.Target+1)
			}
			if s, _ := c.build(probe); len(s) > 500 {
				c.Wrap = "bare"
			}
		}
		r.Case(c)
		r.Class("wrap=" + c.Wrap)
		r.Class(sigLenClass(&c))
		for _, sp := range c.Sigs {
			if sp.Target > 0 {
				r.Class("sig_at_push_boundary")
				break
			}
		}
		nEmbed, nNonCanon := 0, 0
		for _, it := range append(append([]item{}, c.Pre...), c.Post...) {
			if it.Kind == "embed" {
				nEmbed++
				if it.Enc != 0 {
					nNonCanon++
				}
			}
		}
		if nEmbed > 0 {
			r.Class("embedded_signature")
			if c.legacy() {
				r.Class("legacy+embedded/" + sigLenClass(&c))
			}
		}
		if nNonCanon > 0 {
			r.Class("embedded_other_push_encoding")
		}
		if c.Multi {
			r.Class("multisig")
		}
		if c.Flags&script.VER_CONST_SCRIPTCODE != 0 {
			r.Class("CONST_SCRIPTCODE")
		}
		r.NonTrivial()
		info, err := checkSpend(c)
		if info != "" {
			for _, w := range bytes.Fields([]byte(info)) {
				r.Class(string(w))
			}
		}
		if err != nil {
			r.Failf("%v", err)
		}
	})
}

var _ = big.NewInt
