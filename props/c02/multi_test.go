package c02

import (
	"fmt"
	"testing"

	"github.com/piotrnar/gocoin/lib/script"
	"pgregory.net/rapid"
	"verif/pbt"
	"verif/ref/ec"
	"verif/ref/sighash"
	"verif/ref/wire"
)

// (e) SEVERAL signature checks in one script, separated by executed and by non-executed
// OP_CODESEPARATORs: every check must use the digest that belongs to ITS position (BIP342 codesep_pos =
// opcode index of the last executed OP_CODESEPARATOR; BIP143 / original algorithm: script code after the
// last executed OP_CODESEPARATOR), whatever an earlier check of the same execution used.
//
//	tapscript : 2..4 checks, mixes of <pk> CHECKSIGVERIFY / <pk> CHECKSIG ... / [0] <pk> CHECKSIGADD chains
//	            (an open counter is closed with <n> NUMEQUAL[VERIFY])
//	p2wsh/bare: <pk> CHECKSIGVERIFY / <pk> CHECKSIG VERIFY / m <pk>.. n CHECKMULTISIGVERIFY
//	between   : OP_CODESEPARATOR, 1 IF CODESEPARATOR ENDIF (executed), 0 IF CODESEPARATOR ENDIF (not
//	            executed, still counted as opcodes), PUSH2 <aabb> DROP, OP_NOP
//
// Each signature is made by ref/ec over the ref/sighash digest of the position that applies at that check
// - or, for "wrong position" variants, of another check's position.  The expected verdict is: accepted iff
// every signature verifies (ref/ec) under the reference digest of its own position.
type mcItem struct {
	Kind     string `json:"kind"`           // check | multisig | codesep | if_codesep | noif_codesep | fill | nop
	Form     string `json:"form,omitempty"` // check: V | C | A
	Keys     []int  `json:"keys,omitempty"` // pool indexes (check: one; multisig: n distinct)
	M        int    `json:"m,omitempty"`    // multisig: number of signatures (by the first m keys)
	HashType []byte `json:"hash_type,omitempty"`
	Sig64    bool   `json:"sig64,omitempty"`    // tapscript: 64-byte signature (implicit DEFAULT)
	SignPos  int    `json:"sign_pos,omitempty"` // 0 = own position; k>0: sign over the position of the k-th check (1-based)
}

type multiCase struct {
	Mode     string     `json:"mode"` // tapscript | p2wsh | bare
	Tx       string     `json:"tx"`
	Idx      int        `json:"idx"`
	Spent    []spentOut `json:"spent"`
	Items    []mcItem   `json:"items"`
	Internal int        `json:"internal_key"`
	Annex    *string    `json:"annex"`
	Aux      uint64     `json:"aux"`
	Flags    uint32     `json:"flags"`
}

type mcCheck struct {
	item    *mcItem
	opOff   int    // byte offset of the signature opcode
	csp     uint32 // tapscript: opcode position of the last executed OP_CODESEPARATOR before it
	codeOff int    // v0 / legacy: script code starts here
}

// buildMulti serialises the script and derives, per check, the position data that applies when it runs.
func buildMulti(c *multiCase) (scr []byte, checks []mcCheck) {
	tap := c.Mode == "tapscript"
	acc := 0 // tapscript: open CHECKSIG/CHECKSIGADD counter (number of checks in it)
	var sepOffs []int
	closeAcc := func(final bool) {
		if acc > 0 {
			op := byte(0x9d) // OP_NUMEQUALVERIFY
			if final {
				op = 0x9c // OP_NUMEQUAL
			}
			scr = append(scr, byte(0x50+acc), op)
			acc = 0
		} else if final {
			scr = append(scr, 0x51)
		}
	}
	for i := range c.Items {
		it := &c.Items[i]
		switch it.Kind {
		case "codesep":
			sepOffs = append(sepOffs, len(scr))
			scr = append(scr, 0xab)
		case "if_codesep":
			scr = append(scr, 0x51, 0x63)
			sepOffs = append(sepOffs, len(scr))
			scr = append(scr, 0xab, 0x68)
		case "noif_codesep":
			scr = append(scr, 0x00, 0x63, 0xab, 0x68)
		case "fill":
			scr = append(scr, 0x02, 0xaa, 0xbb, 0x75)
		case "nop":
			scr = append(scr, 0x61)
		case "check":
			k := keys()[it.Keys[0]]
			if tap {
				switch it.Form {
				case "A":
					if acc == 0 {
						scr = append(scr, 0x00)
					}
					scr = append(append(scr, 0x20), k.xonly...)
					checks = append(checks, mcCheck{item: it, opOff: len(scr)})
					scr = append(scr, 0xba)
					acc++
				case "C":
					closeAcc(false)
					scr = append(append(scr, 0x20), k.xonly...)
					checks = append(checks, mcCheck{item: it, opOff: len(scr)})
					scr = append(scr, 0xac)
					acc = 1
				default:
					closeAcc(false)
					scr = append(append(scr, 0x20), k.xonly...)
					checks = append(checks, mcCheck{item: it, opOff: len(scr)})
					scr = append(scr, 0xad)
				}
			} else {
				scr = append(scr, sighash.PushData(k.compressed)...)
				checks = append(checks, mcCheck{item: it, opOff: len(scr)})
				if it.Form == "C" {
					scr = append(scr, 0xac, 0x69)
				} else {
					scr = append(scr, 0xad)
				}
			}
		case "multisig":
			scr = append(scr, byte(0x50+it.M))
			for _, ki := range it.Keys {
				scr = append(scr, sighash.PushData(keys()[ki].compressed)...)
			}
			scr = append(scr, byte(0x50+len(it.Keys)))
			checks = append(checks, mcCheck{item: it, opOff: len(scr)})
			scr = append(scr, 0xaf)
		}
	}
	closeAcc(true)
	// positions: opcode index of every byte offset
	opIndex := map[int]uint32{}
	n := uint32(0)
	for pc := 0; pc < len(scr); n++ {
		opIndex[pc] = n
		_, _, next, ok := sighash.GetOp(scr, pc)
		if !ok {
			panic("harness: generated script does not decode")
		}
		pc = next
	}
	for i := range checks {
		checks[i].csp = 0xffffffff
		for _, so := range sepOffs {
			if so < checks[i].opOff {
				checks[i].csp = opIndex[so]
				checks[i].codeOff = so + 1
			}
		}
	}
	return
}

func checkMulti(c multiCase) (classes []string, err error) {
	rtx := refTx(c.Tx)
	if c.Idx < 0 || c.Idx >= len(rtx.In) || len(c.Spent) != len(rtx.In) {
		return nil, nil
	}
	for i := range rtx.In {
		rtx.In[i].Witness = nil
	}
	spent := refSpent(c.Spent)
	scr, checks := buildMulti(&c)
	if len(checks) == 0 {
		return nil, nil
	}
	tap := c.Mode == "tapscript"
	var annex, leaf []byte
	if tap {
		if c.Annex != nil {
			annex = unhx(*c.Annex)
		}
		lh := sighash.TapLeafHash(0xc0, scr)
		leaf = lh[:]
	}
	amount := spent[c.Idx].Value
	if c.Mode != "bare" {
		rtx.In[c.Idx].ScriptSig = nil
	}

	// output script first (the taproot digest commits to it)
	var spk []byte
	var tail [][]byte
	switch c.Mode {
	case "tapscript":
		ik := keys()[c.Internal]
		tw := sighash.TapTweakHash(ik.xonly, leaf)
		q, parity, ok := ec.TweakAdd(ik.xonly, tw[:])
		if !ok {
			return nil, fmt.Errorf("harness: tweak failed")
		}
		ctl := byte(0xc0)
		if parity {
			ctl |= 1
		}
		spk = append([]byte{0x51, 0x20}, q...)
		tail = [][]byte{scr, append([]byte{ctl}, ik.xonly...)}
		if annex != nil {
			tail = append(tail, annex)
		}
	case "p2wsh":
		spk = append([]byte{0x00, 0x20}, sha(scr)...)
		tail = [][]byte{scr}
	case "bare":
		spk = scr
	default:
		return nil, fmt.Errorf("harness: mode %q", c.Mode)
	}
	spent[c.Idx] = wire.TxOut{Value: amount, PkScript: spk}

	// reference digest of hash type ht at the position of check k
	digestAt := func(k int, ht byte) []byte {
		switch c.Mode {
		case "tapscript":
			d, ok := sighash.BIP341(rtx, c.Idx, spent, ht, 1, annex, leaf, checks[k].csp)
			if !ok {
				return nil
			}
			return d[:]
		case "p2wsh":
			d := sighash.BIP143(rtx, c.Idx, scr[checks[k].codeOff:], amount, uint32(ht))
			return d[:]
		default:
			d := sighash.Legacy(rtx, c.Idx, scr[checks[k].codeOff:], uint32(ht)) // no signature is part of the script
			return d[:]
		}
	}

	aux := fill(c.Aux, 32)
	allValid := true
	wrongPos := false
	perCheck := make([][][]byte, len(checks)) // stack items of each check, bottom -> top
	for k, ch := range checks {
		it := ch.item
		from := k
		if it.SignPos > 0 && it.SignPos <= len(checks) {
			from = it.SignPos - 1
		}
		if it.Kind == "multisig" {
			perCheck[k] = append(perCheck[k], []byte{})
		}
		nsig := 1
		if it.Kind == "multisig" {
			nsig = it.M
		}
		for s := 0; s < nsig; s++ {
			ht := it.HashType[s]
			kp := keys()[it.Keys[s]]
			if tap && it.Sig64 {
				ht = 0
			}
			own := digestAt(k, ht)
			signed := digestAt(from, ht)
			if own == nil || signed == nil {
				return nil, nil // hash type without a digest for this input: other tests
			}
			var sig []byte
			if tap {
				sig = ec.SchnorrSign(kp.sk, signed, aux)
				if !ec.SchnorrVerify(kp.xonly, own, sig) {
					allValid = false
				}
				if !it.Sig64 {
					if ht == 0 {
						return nil, nil // explicit 0x00 type byte: other test
					}
					sig = append(sig, ht)
				}
			} else {
				r, sv, _ := ec.SignRFC6979(kp.sk, signed)
				der := ec.EncodeDER(r, sv)
				if !ec.VerifyConsensus(kp.compressed, der, own) {
					allValid = false
				}
				sig = append(der, ht)
			}
			if string(own) != string(signed) {
				wrongPos = true
			}
			perCheck[k] = append(perCheck[k], sig)
		}
	}
	// the first check's items end up on top
	var stack [][]byte
	for k := len(checks) - 1; k >= 0; k-- {
		stack = append(stack, perCheck[k]...)
	}
	tx := rtx.Copy()
	if c.Mode == "bare" {
		var ss []byte
		for _, e := range stack {
			ss = append(ss, sighash.PushData(e)...)
		}
		tx.In[c.Idx].ScriptSig = ss
	} else {
		tx.In[c.Idx].Witness = append(stack, tail...)
	}
	gtx, err := gocoinTx(tx.Serialize(true), spent)
	if err != nil {
		return nil, err
	}
	got := script.VerifyTxScript(spk, &script.SigChecker{Tx: gtx, Idx: c.Idx, Amount: amount}, c.Flags)

	// classes
	distinctPos, sameTypeAcross := false, false
	for a := range checks {
		for b := a + 1; b < len(checks); b++ {
			if checks[a].csp != checks[b].csp {
				distinctPos = true
				ta, tb := checks[a].item.HashType[0], checks[b].item.HashType[0]
				if checks[a].item.Sig64 {
					ta = 0
				}
				if checks[b].item.Sig64 {
					tb = 0
				}
				if ta == tb {
					sameTypeAcross = true
				}
			}
		}
	}
	if len(checks) >= 2 && distinctPos {
		classes = append(classes, c.Mode+"/multi_check_with_executed_codesep")
		if sameTypeAcross {
			classes = append(classes, c.Mode+"/same_hash_type_across_codesep")
		}
		if allValid {
			classes = append(classes, c.Mode+"/multi_check_with_executed_codesep/valid")
		}
	}
	if wrongPos && !allValid {
		classes = append(classes, c.Mode+"/signature_over_neighbouring_position")
	}
	if allValid {
		classes = append(classes, "all_valid")
	}
	if got != allValid {
		desc := ""
		for k, ch := range checks {
			desc += fmt.Sprintf(" #%d:%s%s type %#02x pos %#x", k+1, ch.item.Kind, ch.item.Form, ch.item.HashType[0], ch.csp)
			if ch.item.SignPos > 0 {
				desc += fmt.Sprintf(" (signed for position of #%d)", ch.item.SignPos)
			}
		}
		return classes, fmt.Errorf("%s script with %d signature checks [%s ] (script %x): VerifyTxScript=%v, with the reference digest of each check's own code-separator position the verdict is %v",
			c.Mode, len(checks), desc, scr, got, allValid)
	}
	return classes, nil
}

func genMulti(t *rapid.T) multiCase {
	tx := genTx(t, false)
	c := multiCase{Tx: hx(tx.Serialize(false)), Idx: rapid.IntRange(0, len(tx.In)-1).Draw(t, "idx"), Spent: genSpent(t, len(tx.In))}
	c.Mode = rapid.SampledFrom([]string{"tapscript", "tapscript", "tapscript", "p2wsh", "p2wsh", "bare"}).Draw(t, "mode")
	tap := c.Mode == "tapscript"
	c.Internal = rapid.IntRange(0, poolSize-1).Draw(t, "internal")
	c.Aux = rapid.Uint64().Draw(t, "aux")
	if tap && rapid.IntRange(0, 3).Draw(t, "has_annex") == 0 {
		a := fill(rapid.Uint64().Draw(t, "annex_seed"), rapid.IntRange(1, 60).Draw(t, "annex_len"))
		a[0] = 0x50
		s := hx(a)
		c.Annex = &s
	}
	switch c.Mode {
	case "tapscript":
		c.Flags = script.VER_P2SH | script.VER_WITNESS | script.VER_TAPROOT
	case "p2wsh":
		c.Flags = script.VER_P2SH | script.VER_WITNESS
	default:
		if rapid.Bool().Draw(t, "f_p2sh") {
			c.Flags = script.VER_P2SH
		}
	}
	if rapid.Bool().Draw(t, "f_nullfail") {
		c.Flags |= script.VER_NULLFAIL
	}
	// hash types: a common one (so that neighbouring checks often share it) or an individual one
	var types []byte
	if tap {
		types = []byte{1, 2, 0x81, 0x82}
		if c.Idx < len(tx.Out) {
			types = append(types, 3, 0x83)
		}
	} else {
		types = []byte{1, 2, 3, 0x81, 0x82, 0x83, 0, 0x41, 0xff}
	}
	common := rapid.SampledFrom(types).Draw(t, "common_type")
	common64 := tap && rapid.IntRange(0, 2).Draw(t, "common_sig64") == 0
	nChecks := rapid.IntRange(2, 4).Draw(t, "nchecks")
	sep := func(label string) {
		n := rapid.IntRange(0, 2).Draw(t, label+"_n")
		for i := 0; i < n; i++ {
			k := rapid.SampledFrom([]string{"codesep", "codesep", "if_codesep", "noif_codesep", "fill", "nop"}).Draw(t, label)
			c.Items = append(c.Items, mcItem{Kind: k})
		}
	}
	for k := 0; k < nChecks; k++ {
		sep("between")
		it := mcItem{Kind: "check"}
		if !tap && rapid.IntRange(0, 3).Draw(t, "multisig") == 0 {
			it.Kind = "multisig"
			n := rapid.IntRange(1, 3).Draw(t, "nkeys")
			it.Keys = rapid.SliceOfNDistinct(rapid.IntRange(0, poolSize-1), n, n, rapid.ID[int]).Draw(t, "mkeys")
			it.M = rapid.IntRange(1, n).Draw(t, "m")
		} else {
			it.Keys = []int{rapid.IntRange(0, poolSize-1).Draw(t, "key")}
			if tap {
				it.Form = rapid.SampledFrom([]string{"V", "C", "A", "A"}).Draw(t, "form")
			} else {
				it.Form = rapid.SampledFrom([]string{"V", "C"}).Draw(t, "form")
			}
		}
		nsig := 1
		if it.Kind == "multisig" {
			nsig = it.M
		}
		for s := 0; s < nsig; s++ {
			if rapid.IntRange(0, 2).Draw(t, "own_type") == 0 {
				it.HashType = append(it.HashType, rapid.SampledFrom(types).Draw(t, "type"))
			} else {
				it.HashType = append(it.HashType, common)
			}
		}
		if tap {
			it.Sig64 = common64
			if rapid.IntRange(0, 5).Draw(t, "own_sig64") == 0 {
				it.Sig64 = !it.Sig64
			}
		}
		c.Items = append(c.Items, it)
	}
	sep("after")
	// one third of the cases: one check is signed for the position of a neighbouring check
	if rapid.IntRange(0, 2).Draw(t, "wrong_position") == 0 {
		victim := rapid.IntRange(1, nChecks).Draw(t, "victim")
		other := rapid.IntRange(1, nChecks-1).Draw(t, "other")
		if other >= victim {
			other++
		}
		seen := 0
		for i := range c.Items {
			if c.Items[i].Kind == "check" || c.Items[i].Kind == "multisig" {
				seen++
				if seen == victim {
					c.Items[i].SignPos = other
				}
			}
		}
	}
	return c
}

func TestMultiCheck(t *testing.T) {
	pbt.Check(t, pbt.Cfg{Name: "multi_check", Quick: 12000, Thorough: 250000}, func(r *pbt.Run) {
		c := genMulti(r.T)
		r.Case(c)
		r.Class("mode=" + c.Mode)
		for _, it := range c.Items {
			if it.Kind == "noif_codesep" {
				r.Class("non_executed_codesep")
				break
			}
		}
		r.NonTrivial()
		classes, err := checkMulti(c)
		for _, cl := range classes {
			r.Class(cl)
		}
		if err != nil {
			r.Failf("%v", err)
		}
	})
}
