package sim

import (
	"encoding/json"
	"fmt"
	"os"
	"testing"

	"github.com/piotrnar/gocoin/lib/script"
	"verif/env"
)

// go test ./sim -run TestDebugCase with VERIF_DEBUG_CASE=<replay file> prints gocoin's script diagnostics.
func TestDebugCase(t *testing.T) {
	fn := os.Getenv("VERIF_DEBUG_CASE")
	if fn == "" {
		t.Skip()
	}
	b, _ := os.ReadFile(fn)
	var doc struct {
		Case Case `json:"case"`
	}
	if err := json.Unmarshal(b, &doc); err != nil {
		t.Fatal(err)
	}
	env.Quiet()
	script.DBG_ERR = true
	s, err := RunCase(doc.Case, env.Options{}, Hooks{})
	if s != nil {
		defer s.Close()
		fmt.Println("labels:", s.Labels)
	}
	if err != nil {
		t.Fatal(err)
	}
}
