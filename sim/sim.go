// Package sim executes generated block histories against a real gocoin chain (env.Node) and the
// reference model (ref/consensus) in lock-step.  It is shared by the checks for C04, C05, C06 (and,
// through callbacks, C07, C11, C12, C17).  A history is pure data (Case); indices are resolved modulo
// the current model state so that every sub-sequence of a history is itself a history (shrinking).
package sim

import (
	"bytes"
	"crypto/sha256"
	"encoding/hex"
	"fmt"
	"math/big"
	"os"
	"path/filepath"
	"sort"
	"sync"
	"time"

	"github.com/piotrnar/gocoin/lib/btc"
	"github.com/piotrnar/gocoin/lib/chain"

	"github.com/piotrnar/gocoin/lib/utxo"
	"verif/env"
	"verif/ref/consensus"
	"verif/ref/interp"
	"verif/ref/wire"
)

// ParamSpec selects the chain parameters of a history.
type ParamSpec struct {
	BIP34   uint32 `json:"bip34"`
	BIP65   uint32 `json:"bip65"`
	BIP66   uint32 `json:"bip66"`
	CSV     uint32 `json:"csv"`
	Segwit  uint32 `json:"segwit"`
	Taproot uint32 `json:"taproot"`
	Prefix  int    `json:"prefix"`            // empty blocks mined and delivered before the ops
	Base    uint32 `json:"base,omitempty"`    // height assigned to the genesis node (to reach halving boundaries)
	Spacing uint32 `json:"spacing,omitempty"` // seconds between prefix blocks (default 600)
	Signed  bool   `json:"signed,omitempty"`  // outputs may also be P2PKH / P2WPKH / P2SH-P2WPKH / P2TR (signed by the reference signer)
	PowBits uint32 `json:"powbits,omitempty"`
	// Testnet: the chain is a test network (gocoin tells by the first byte of the genesis hash): a block more than 20
	// minutes after its parent carries the proof-of-work limit as its target
	Testnet bool `json:"testnet,omitempty"`
}

type OutSpec struct {
	Fam   int `json:"f"`
	Share int `json:"s"`
	N     int `json:"n,omitempty"`
	// Zero: the output carries no value (legal); never applied to the last output, which takes the remainder
	Zero bool `json:"z,omitempty"`
}

type TxSpec struct {
	Ins  []int     `json:"ins"`
	Outs []OutSpec `json:"outs"`
	Fee  int       `json:"fee"`            // per mille of the input sum
	Seq  int       `json:"seq,omitempty"`  // 0 final, 1 satisfied relative height lock, 2 disabled lock with noise, 3 satisfied time lock
	Lock int       `json:"lock,omitempty"` // 0 none, 1 height-1 (final), 2 MTP-1 (final)
	Ver  int       `json:"ver,omitempty"`  // 0 -> 2
	// Pad: that many zero-value outputs with an empty script come first (the real outputs then have high indexes)
	Pad int `json:"pad,omitempty"`
}

type Op struct {
	Kind   string   `json:"k"`           // block | deliver | idle | save | reopen
	Parent int      `json:"p,omitempty"` // block: -1 = model tip, else index into mined nodes (mod)
	Txs    []TxSpec `json:"txs,omitempty"`
	Viol   string   `json:"viol,omitempty"`
	Arg    int      `json:"arg,omitempty"`
	DT     int      `json:"dt,omitempty"`
	Hold   bool     `json:"hold,omitempty"`
	Pick   int      `json:"pick,omitempty"`
	CbLess int      `json:"cbless,omitempty"` // coinbase claims that much less than allowed (satoshi)
	Commit bool     `json:"commit,omitempty"` // add a witness commitment even without witness data
	Step   uint32   `json:"step,omitempty"`   // when set: timestamp = parent's + Step
}

type Case struct {
	Params ParamSpec `json:"params"`
	Ops    []Op      `json:"ops"`
}

// MNode is a mined block in the model's tree.
type MNode struct {
	Idx       *consensus.Index
	Parent    *MNode
	Block     *wire.Block
	Raw       []byte
	Delivered bool
	Present   int // 0 no, 1 yes, 2 maybe (invalid side-branch block: the node may have dropped it)
	Seq       int
	CheckErr  error
	state     int // 0 unknown, 1 valid, 2 invalid
	ConnErr   error
	View      consensus.UTXO
	Viol      string
	DelivStep int // step in which the block was first handed to the node (-1: prefix)
	// PreRaw, when set, is a malleated serialisation of this very block (same header, duplicated trailing
	// transactions: CVE-2012-2459).  It is handed to the node first and must be refused without poisoning
	// the genuine block that follows.
	PreRaw []byte
	// PoolTxs are transactions that are not in the block but that the (stand-in) mempool has verified when the
	// block arrives, e.g. the complete form of a transaction the block carries without its witness.
	PoolTxs []*wire.Tx
}

// Hooks lets other checks observe the run.
type Hooks struct {
	AfterStep func(s *Sim, op Op) error
}

// Excluded is returned (as the error of a history) when a disagreement falls into the documented class of
// an open known finding: the history cannot continue in lock-step, it is counted and ends there.
type Excluded struct{ Key, Msg string }

func (e *Excluded) Error() string { return "excluded by known finding " + e.Key + ": " + e.Msg }

// knownClass maps a generated violation (a property of the generated case, not of the outcome) and the
// reference's verdict to the key of the known finding whose class it belongs to.
func knownClass(n *MNode) string {
	err := n.ConnErr
	if err == nil {
		err = n.CheckErr // (the reference counts legacy sig-ops before connecting, gocoin when connecting)
	}
	if err == nil {
		return ""
	}
	e := err.Error()
	switch {
	case n.Viol == "sigops:after-opreturn+4" && e == "bad-blk-sigops":
		return "F6-sigops-after-opreturn"
	case (n.Viol == "bip68_height" || n.Viol == "bip68_time") && e == "bad-txns-nonfinal (BIP68)":
		return "F9-bip68-not-enforced"
	}
	return ""
}

type Sim struct {
	Open       func(key string) bool // reports whether a known finding is listed as open
	P          *consensus.Params
	B          *env.Builder
	Node       *env.Node
	Dir        string
	Opts       env.Options
	Root       *MNode
	Nodes      []*MNode
	Tip        *MNode
	Held       []*MNode
	seq        int
	minSeq     int
	extra      uint64
	quiet      bool
	scriptMemo map[string]bool
	Cfg        Config
	CurStep    int // index of the op being executed (-1 during the prefix)
	Hooks      Hooks
	Signed     bool     // also use signed output families (P2PKH, P2WPKH, P2SH-P2WPKH, P2TR key path)
	Labels     []string // class labels collected during the run
	// ExcludedKeys: disagreements inside the class of an open known finding after which the history went on
	ExcludedKeys []string
	// counters
	Reorgs, FailedReorgs, Ties, NearTies, Accepted, Refused, TxBlocks int
}

func (s *Sim) label(l string) { s.Labels = append(s.Labels, l) }

// Params builds the consensus parameters for a spec.
func Params(ps ParamSpec) *consensus.Params {
	p := env.DefaultParams()
	p.BIP34Height, p.BIP65Height, p.BIP66Height = ps.BIP34, ps.BIP65, ps.BIP66
	p.CSVHeight, p.SegwitHeight, p.TaprootHeight = ps.CSV, ps.Segwit, ps.Taproot
	if ps.PowBits != 0 {
		p.PowLimitBits = ps.PowBits
		p.PowLimit, _, _ = consensus.SetCompact(ps.PowBits)
	}
	if ps.Testnet {
		p.AllowMinDifficulty = true
		p.GenesisHash[0] = 0x43
	}
	return p
}

// Config refines how a Sim is set up.
type Config struct {
	Dir          string // use this data directory (kept on Close) instead of a fresh temp dir
	ModelOnly    bool   // no node at all: the model alone replays the history (deterministic block regeneration)
	AssumePrefix bool   // the directory already holds the prefix blocks: mine them in the model only
	StepLog      func(phase string, step int)
}

// New opens a fresh node in a temp dir and pre-mines the prefix.
func New(ps ParamSpec, opts env.Options) (*Sim, error) { return NewCfg(ps, opts, Config{}) }

// NewCfg is New with a Config.
func NewCfg(ps ParamSpec, opts env.Options, cfg Config) (*Sim, error) {
	utxo.UTXO_WRITING_TIME_TARGET = 0
	var err error
	dir := cfg.Dir
	if dir == "" && !cfg.ModelOnly {
		dir, err = os.MkdirTemp("", "sim")
		if err != nil {
			return nil, err
		}
	}
	installChecker()
	vouchMu.Lock()
	vouched = map[[32]byte]bool{} // per history: what the stand-in mempool has verified (see vouch)
	vouchMu.Unlock()
	s := &Sim{P: Params(ps), B: env.NewBuilder(), Dir: dir, Opts: opts, Cfg: cfg, CurStep: -1, Signed: ps.Signed}
	if !cfg.ModelOnly {
		s.Node, err = env.Open(dir, s.P, opts)
		if err != nil {
			return nil, err
		}
	}
	s.Root = &MNode{Idx: consensus.NewGenesis(s.P), Delivered: true, Present: 1, state: 1, View: consensus.UTXO{}}
	if ps.Base != 0 {
		s.Root.Idx.Height = ps.Base
		if s.Node != nil {
			s.Node.Ch.BlockTreeRoot.Height = ps.Base
		}
	}
	s.Nodes = []*MNode{s.Root}
	s.Tip = s.Root
	sp := ps.Spacing
	if sp == 0 {
		sp = 600
	}
	if cfg.AssumePrefix && s.Node != nil {
		// the blocks are on disk already: replay them in the model only, then check that the node agrees
		node := s.Node
		s.Node = nil
		for i := 0; i < ps.Prefix; i++ {
			if err := s.Step(Op{Kind: "block", Parent: -1, Step: sp}); err != nil {
				return s, err
			}
		}
		s.Node = node
		if err := s.compare("open-with-prefix"); err != nil {
			return s, err
		}
		return s, nil
	}
	for i := 0; i < ps.Prefix; i++ {
		if err := s.stepQuiet(Op{Kind: "block", Parent: -1, Step: sp}, i == ps.Prefix-1); err != nil {
			return s, fmt.Errorf("prefix block %d: %v", i, err)
		}
	}
	return s, nil
}

func (s *Sim) Close() {
	if s.Node != nil {
		s.Node.Close()
	}
	if s.Cfg.Dir == "" && s.Dir != "" {
		os.RemoveAll(s.Dir)
	}
}

// Valid reports whether the chain ending at n is valid in the model (lazy, cached).
func (s *Sim) Valid(n *MNode) bool {
	if n.state != 0 {
		return n.state == 1
	}
	if n.CheckErr != nil || !s.Valid(n.Parent) {
		n.state = 2
		if n.CheckErr != nil {
			n.ConnErr = n.CheckErr
		} else {
			n.ConnErr = fmt.Errorf("invalid ancestor")
		}
		return false
	}
	view := n.Parent.View.Clone()
	if err := consensus.ConnectBlock(n.Block, n.Parent.Idx, view, s.P, s.verifier()); err != nil {
		n.state, n.ConnErr = 2, err
		return false
	}
	n.state, n.View = 1, view
	return true
}

// verifier judges scripts with the independent reference interpreter; the builder's by-construction
// expectation is cross-checked against it (a disagreement is a bug of the harness, not of gocoin).
func (s *Sim) verifier() consensus.ScriptVerifier {
	return func(tx *wire.Tx, idx int, spent []wire.TxOut, flags uint32) bool {
		ok := s.scriptOK(tx, idx, spent, flags)
		id := tx.TxID()
		if v, known := s.B.Valid[consensus.OutKey(id, uint32(idx))]; known && v != ok && !s.B.Loose[consensus.OutKey(id, uint32(idx))] {
			panic(fmt.Sprintf("sim: harness bug: input %d of %x was built to be valid=%v, the reference interpreter says %v (pk %x)", idx, id[:6], v, ok, spent[idx].PkScript))
		}
		return ok
	}
}

// scriptOK is the reference interpreter's verdict, remembered per (wtxid, input, flags): the outputs a given
// transaction spends are fixed by its outpoints.
func (s *Sim) scriptOK(tx *wire.Tx, idx int, spent []wire.TxOut, flags uint32) bool {
	w := tx.WTxID()
	k := fmt.Sprintf("%x/%d/%x", w[:], idx, flags)
	if v, ok := s.scriptMemo[k]; ok {
		return v
	}
	ok, _ := interp.Verify(tx.In[idx].ScriptSig, spent[idx].PkScript, tx.In[idx].Witness, tx, idx, spent[idx].Value, spent, flags)
	if s.scriptMemo == nil {
		s.scriptMemo = map[string]bool{}
	}
	s.scriptMemo[k] = ok
	return ok
}

// validAncestor is n or its nearest ancestor with a valid chain.
func (s *Sim) validAncestor(n *MNode) *MNode {
	for !s.Valid(n) {
		n = n.Parent
	}
	return n
}

// modelTip picks the most-work valid present chain; ties by earliest delivery.  nearTie is set when
// Core's integer work and the exact Σ1/target measure pick different winners.
func (s *Sim) modelTip() (best *MNode, nearTie bool) {
	var bestCore *MNode
	for _, n := range s.Nodes {
		if n.Present != 1 || !s.Valid(n) {
			continue
		}
		if best == nil {
			best, bestCore = n, n
			continue
		}
		if c := n.Idx.InvWork.Cmp(best.Idx.InvWork); c > 0 || c == 0 && n.Seq < best.Seq {
			best = n
		}
		if c := n.Idx.Work.Cmp(bestCore.Idx.Work); c > 0 || c == 0 && n.Seq < bestCore.Seq {
			bestCore = n
		}
	}
	return best, best != bestCore
}

// stepQuiet mines and delivers a prefix block; the full state comparison is done only when check is set.
func (s *Sim) stepQuiet(op Op, check bool) error {
	s.quiet = !check
	defer func() { s.quiet = false }()
	return s.Step(op)
}

// Step executes one op and compares node and model.
func (s *Sim) Step(op Op) error {
	var err error
	switch op.Kind {
	case "block":
		n := s.buildBlock(op)
		if n == nil {
			return nil
		}
		if op.Hold || !n.Parent.Delivered {
			s.Held = append(s.Held, n)
			s.label("held")
		} else {
			err = s.deliver(n)
		}
	case "deliver":
		var cand []int
		for i, h := range s.Held {
			if h.Parent.Delivered {
				cand = append(cand, i)
			}
		}
		if len(cand) == 0 {
			return nil
		}
		i := cand[mod(op.Pick, len(cand))]
		n := s.Held[i]
		s.Held = append(s.Held[:i], s.Held[i+1:]...)
		err = s.deliver(n)
	case "redeliver":
		// hand an already delivered block to the node again
		var cand []*MNode
		for _, n := range s.Nodes[1:] {
			if n.Delivered {
				cand = append(cand, n)
			}
		}
		if len(cand) == 0 {
			return nil
		}
		err = s.deliver(cand[mod(op.Pick, len(cand))])
	case "redeliver_invalid":
		// a peer offers a branch again whose first block failed when the node tried to connect it: that block
		// and every delivered descendant, parents first
		var cand []*MNode
		for _, n := range s.Nodes[1:] {
			if n.Delivered && n.CheckErr == nil && s.Valid(n.Parent) && !s.Valid(n) {
				cand = append(cand, n)
			}
		}
		if len(cand) == 0 {
			return nil
		}
		bad := cand[mod(op.Pick, len(cand))]
		s.label("redeliver-invalid-branch")
		for _, n := range s.Nodes[1:] {
			if n.Delivered && isAncestor(bad, n) {
				if err = s.deliver(n); err != nil {
					break
				}
			}
		}
	case "idle":
		if s.Node == nil {
			break
		}
		s.Node.Ch.Idle()
		if op.Arg%2 == 1 { // let the snapshot finish
			s.WaitSnapshot()
		}
		err = s.compare("idle")
	case "flush":
		// write the queued blocks to the block files (what Chain.Idle does first), no snapshot
		if s.Node != nil {
			s.Node.Ch.Blocks.Idle()
		}
	case "reopen":
		if s.Node == nil {
			break
		}
		s.Node.Close()
		s.Node, err = env.Open(s.Dir, s.P, s.Opts)
		if err != nil {
			return fmt.Errorf("reopen failed: %v", err)
		}
		// after a restart the node knows exactly the blocks it had stored; invalid ones were dropped
		err = s.compare("reopen")
	default:
		// ops of other checks (handled in their AfterStep hook)
	}
	if err == nil && s.Hooks.AfterStep != nil {
		err = s.Hooks.AfterStep(s, op)
	}
	return err
}

func mod(a, n int) int {
	a %= n
	if a < 0 {
		a += n
	}
	return a
}

func (s *Sim) deliver(n *MNode) error {
	oldTip := s.Tip
	parentPresent := n.Parent.Present
	wasPresent := n.Present
	first := !n.Delivered
	n.Delivered = true

	if first {
		n.DelivStep = s.CurStep
	}
	// the two-hour rule is judged by the node's clock at delivery: re-evaluate it now for blocks near the limit
	if d := int64(n.Block.Header.Time) - (time.Now().Unix() + consensus.MaxFutureBlockTime); d > -300 && d < 300 && n.state == 0 || n.CheckErr != nil && n.CheckErr.Error() == "time-too-new" && first {
		if n.CheckErr == nil || n.CheckErr.Error() == "time-too-new" {
			if e := consensus.CheckHeader(&n.Block.Header, n.Parent.Idx, s.P, time.Now().Unix()); e != nil {
				n.CheckErr = e
			} else {
				n.CheckErr = consensus.CheckBlock(n.Block, n.Parent.Idx, s.P)
			}
			n.state = 0
		}
	}
	if s.Node == nil {
		return s.deliverModelOnly(n, oldTip, parentPresent, wasPresent, first)
	}
	s.vouch(n)
	if n.PreRaw != nil && first && parentPresent == 1 {
		if _, _, e := s.Node.Deliver(n.PreRaw); e == nil {
			return fmt.Errorf("block %x (height %d): a copy with duplicated trailing transactions (same merkle root) was accepted", n.Idx.Hash[:6], n.Idx.Height)
		}
		if e := s.compare("deliver-malleated-twin"); e != nil {
			return e
		}
		s.label("malleated-twin-first")
	}
	// one block in four takes the path of a block the client parked in its on-disk cache while syncing (checked on
	// arrival, re-parsed without hashing when it is committed); which one is a fixed function of the block
	deliverFn := s.Node.Deliver
	if n.Idx.Hash[1]&3 == 0 {
		deliverFn = s.Node.DeliverViaDiskCache
		s.label("via-disk-cache")
	}
	_, maybelater, gerr := deliverFn(n.Raw)

	what := fmt.Sprintf("block %x (height %d, viol=%q, model check=%v)", n.Idx.Hash[:6], n.Idx.Height, n.Viol, n.CheckErr)
	switch {
	case parentPresent == 0:
		if gerr == nil {
			return fmt.Errorf("%s: parent is not in the node's index, yet the block was accepted", what)
		}
		_ = maybelater
		s.Refused++
		return s.compare("deliver-orphan")
	case wasPresent == 1:
		if gerr == nil {
			return fmt.Errorf("%s: delivered twice, second delivery reported no error", what)
		}
		return s.compare("deliver-dup")
	case parentPresent == 2 || wasPresent == 2:
		// the node may or may not still know the (invalid) parent; either way nothing valid is added
		if gerr == nil && n.CheckErr != nil && !connectTimeRule(n.CheckErr) {
			return fmt.Errorf("%s: the reference refuses the block (%v), the node accepted it", what, n.CheckErr)
		}
		n.Present = 2
		if first {
			n.Seq = s.seq
			s.seq++
		}
		s.Valid(n)
		return s.settle(n, oldTip, gerr, what, true)
	}
	if n.CheckErr != nil && gerr == nil && n.Parent != oldTip && connectTimeRule(n.CheckErr) {
		// Two of C04's rules (no output spent twice, sig-op cost) are judged by the reference already in
		// CheckBlock; the property only demands that such a block never becomes part of the ACTIVE chain.
		// A node that stores it on a side branch and refuses it when it is about to be connected complies:
		// from here on it is a block that is invalid only when connected.
		if first || wasPresent == 0 {
			n.Seq = s.seq
			s.seq++
		}
		s.label("stored-on-side-branch/" + errClass(n.CheckErr))
		n.Present = 2
		s.Valid(n)
		return s.settle(n, oldTip, gerr, what, false)
	}
	if n.CheckErr != nil {
		s.Refused++
		s.label("refused/" + errClass(n.CheckErr))
		if gerr == nil {
			s.Valid(n)
			msg := fmt.Sprintf("%s: the reference refuses the block (%v), the node accepted it", what, n.CheckErr)
			if k := knownClass(n); k != "" && s.Open != nil && s.Open(k) {
				return &Excluded{k, msg}
			}
			return fmt.Errorf("%s", msg)
		}
		return s.compare("deliver-refused")
	}
	if first || wasPresent == 0 {
		n.Seq = s.seq
		s.seq++
	}
	n.Present = 1
	valid := s.Valid(n)
	if n.Parent == oldTip {
		// direct extension: connected at once
		if !valid {
			n.Present = 0
			s.Refused++
			s.label("refused/" + errClass(n.ConnErr))
			if gerr == nil {
				msg := fmt.Sprintf("%s extends the tip; the reference refuses to connect it (%v), the node connected it", what, n.ConnErr)
				if k := knownClass(n); k != "" && s.Open != nil && s.Open(k) {
					return &Excluded{k, msg}
				}
				return fmt.Errorf("%s", msg)
			}
			return s.compare("deliver-connect-refused")
		}
		if gerr != nil {
			return fmt.Errorf("%s extends the tip and is valid in the reference; the node refused it: %v", what, gerr)
		}
	}
	if !valid {
		n.Present = 2
	}
	return s.settle(n, oldTip, gerr, what, false)
}

// The running client installs chain.TrustedTxChecker (client/txpool): a transaction that sits in the mempool with
// the same wtxid has had its scripts verified (with the standard flags, a superset of every block's flags) against
// the very outputs it spends, and commitTxs skips its scripts when it arrives in a block.  The harness stands in
// for that mempool: before a block is handed to the node, each of its transactions whose inputs all exist in the
// model's view and all verify in the reference interpreter under the complete flag set of these parameters is
// vouched for - when a fixed bit of its wtxid is set, so that both the trusted and the untrusted path of commitTxs
// are exercised by the same histories.  Everything else about such a transaction (amounts, maturity, sigops cost,
// BIP68, double spends) must be judged exactly as before.
var (
	vouchMu sync.Mutex
	vouched = map[[32]byte]bool{}
	// Vouching can be switched off (VERIF_NO_TRUSTED=1) to compare behaviours while debugging.
	noVouch = os.Getenv("VERIF_NO_TRUSTED") != ""
	// VouchedSeen counts the calls of the checker that answered yes (evidence: the trusted path was taken).
	VouchedSeen int64
)

// TakeVouchedSeen returns and resets the number of transactions the node connected on its trusted path.
func TakeVouchedSeen() int64 {
	vouchMu.Lock()
	defer vouchMu.Unlock()
	n := VouchedSeen
	VouchedSeen = 0
	return n
}

// installChecker puts the stand-in in front of whatever checker the binary already has (the real
// client/txpool one when that package is linked in): either of them vouching makes the transaction trusted.
var (
	installOnce sync.Once
	// OnVouch, when set, is told every transaction (full serialisation, with witness) the stand-in vouches for -
	// C04 uses it to put the very same transactions into the real client/txpool.TransactionsToSend, so that
	// the client's own txChecker is the one that answers.
	OnVouch func(raw []byte)
)

func installChecker() {
	installOnce.Do(func() {
		prev := chain.TrustedTxChecker
		chain.TrustedTxChecker = func(tx *btc.Tx) bool {
			if prev != nil && prev(tx) {
				vouchMu.Lock()
				VouchedSeen++
				vouchMu.Unlock()
				return true
			}
			if OnVouch != nil {
				return false // the real pool holds everything that was vouched for: it alone decides
			}
			k := wire.DSHA(tx.SerializeNew())
			vouchMu.Lock()
			defer vouchMu.Unlock()
			if vouched[k] {
				VouchedSeen++
				return true
			}
			return false
		}
	})
}

func (s *Sim) vouch(n *MNode) {
	if noVouch || n.Parent == nil || n.CheckErr != nil || !s.Valid(n.Parent) || n.Parent.View == nil {
		return
	}
	full := consensus.BlockScriptFlags(0xffffffff, s.P)
	view := n.Parent.View
	created := map[[36]byte]consensus.Coin{}
	spentHere := map[[36]byte]bool{}
	type item struct {
		tx       *wire.Tx
		poolOnly bool
	}
	var items []item
	for ti, tx := range n.Block.Txs {
		if ti == 0 {
			id := tx.TxID()
			for j, o := range tx.Out {
				created[consensus.OutKey(id, uint32(j))] = consensus.Coin{Value: o.Value, Script: o.PkScript}
			}
			continue
		}
		items = append(items, item{tx, false})
	}
	for _, tx := range n.PoolTxs {
		items = append(items, item{tx, true})
	}
	for _, it := range items {
		tx := it.tx
		id := tx.TxID()
		{
			w := tx.WTxID()
			ok := w[0]&1 == 1 || it.poolOnly
			spent := make([]wire.TxOut, len(tx.In))
			for j, in := range tx.In {
				k := consensus.OutKey(in.PrevHash, in.PrevIndex)
				c, have := created[k]
				if !have {
					c, have = view[k]
				}
				if !have || spentHere[k] && !it.poolOnly {
					if it.poolOnly {
						ok = false
						break
					}
					return // the block cannot be connected: nothing after this point matters
				}
				if !it.poolOnly {
					spentHere[k] = true
				}
				spent[j] = wire.TxOut{Value: c.Value, PkScript: c.Script}
			}
			for j := 0; ok && j < len(tx.In); j++ {
				ok = s.scriptOK(tx, j, spent, full)
			}
			if ok {
				vouchMu.Lock()
				vouched[w] = true
				vouchMu.Unlock()
				if OnVouch != nil {
					OnVouch(tx.Serialize(true))
				}
			}
		}
		if it.poolOnly {
			continue
		}
		for j, o := range tx.Out {
			created[consensus.OutKey(id, uint32(j))] = consensus.Coin{Value: o.Value, Script: o.PkScript}
		}
	}
}

// connectTimeRule: rules of C04 (not of C05) that the reference happens to check before a block is stored.
func connectTimeRule(e error) bool {
	switch e.Error() {
	case "bad-txns-inputs-duplicate", "bad-blk-sigops":
		return true
	}
	return false
}

// WaitSnapshot waits until a started snapshot has been written and renamed (or aborted).
func (s *Sim) WaitSnapshot() {
	for i := 0; i < 5000 && s.Node.Ch.Unspent.WritingInProgress.Get(); i++ {
		time.Sleep(time.Millisecond)
	}
	for i := 0; i < 5000; i++ {
		m, _ := filepath.Glob(filepath.Join(s.Node.Dir, "*.db.tmp"))
		if len(m) == 0 {
			break
		}
		time.Sleep(time.Millisecond)
	}
}

// deliverModelOnly applies the delivery rules to the model alone.
func (s *Sim) deliverModelOnly(n, oldTip *MNode, parentPresent, wasPresent int, first bool) error {
	if parentPresent == 0 || wasPresent == 1 {
		return nil
	}
	if parentPresent == 2 || wasPresent == 2 {
		n.Present = 2
		if first {
			n.Seq = s.seq
			s.seq++
		}
		s.Valid(n)
		return s.settle(n, oldTip, nil, "", true)
	}
	if n.CheckErr != nil {
		return nil
	}
	if first || wasPresent == 0 {
		n.Seq = s.seq
		s.seq++
	}
	n.Present = 1
	valid := s.Valid(n)
	if n.Parent == oldTip && !valid {
		n.Present = 0
		return nil
	}
	if !valid {
		n.Present = 2
	}
	return s.settle(n, oldTip, nil, "", true)
}

// settle recomputes the model tip after a block was stored and compares.
func (s *Sim) settle(n, oldTip *MNode, gerr error, what string, fuzzy bool) error {
	best, near := s.modelTip()
	if near {
		s.NearTies++
		s.label("near-tie")
	}
	// a tie that the old tip wins
	if best == oldTip && n.Present == 1 && s.Valid(n) && n.Idx.InvWork.Cmp(oldTip.Idx.InvWork) == 0 && n != oldTip {
		s.Ties++
		s.label("tie")
	}
	if best != oldTip {
		if !isAncestor(oldTip, best) {
			s.Reorgs++
			s.label("reorg")
			if best.Idx.Height < oldTip.Idx.Height {
				s.label("reorg-to-shorter-branch")
			}
		}
	}
	heavier := n.Idx.InvWork.Cmp(oldTip.Idx.InvWork) > 0
	if heavier && best != n && n.Parent != oldTip {
		s.FailedReorgs++
		s.label("failed-reorg")
	}
	s.Tip = best
	if s.Node != nil && heavier && best != n && n.Parent != oldTip {
		// Fallback after a failed reorganisation.  Known finding F21: the node then walks to "the farthest
		// node" instead of the first-seen one among equal-work tips.  Inside that class (and only there) any
		// of the tied valid tips is accepted, counted, and the history continues from the node's choice.
		h, _ := s.Node.Tip()
		if h != best.Idx.Hash {
			for _, m := range s.Nodes {
				if m.Idx.Hash == h && m.Present == 1 && s.Valid(m) && m.Idx.InvWork.Cmp(best.Idx.InvWork) == 0 {
					if s.Open != nil && s.Open("F21-tie-after-failed-reorg") {
						s.ExcludedKeys = append(s.ExcludedKeys, "F21-tie-after-failed-reorg")
						s.Tip = m
						// from now on the node's choice is the incumbent of this tie
						s.minSeq--
						m.Seq = s.minSeq
					}
				}
			}
		}
	}
	if n.Present == 1 && s.Valid(n) {
		s.Accepted++
		if len(n.Block.Txs) > 1 {
			s.TxBlocks++
		}
	}
	// every block on an invalid chain that the node tried to connect is gone from its index; blocks it
	// did not try may still be there
	if best != n && heavier {
		for _, m := range s.Nodes {
			if m.Present == 1 && !s.Valid(m) {
				m.Present = 2
			}
		}
	}
	if s.Node == nil {
		return nil
	}
	if near {
		// either measure's winner is acceptable: compare against what the node chose if it is one of them
		h, _ := s.Node.Tip()
		for _, m := range s.Nodes {
			if m.Idx.Hash == h && m.Present == 1 && s.Valid(m) && (m.Idx.InvWork.Cmp(best.Idx.InvWork) == 0 || m.Idx.Work.Cmp(coreBest(s).Idx.Work) == 0) {
				s.Tip = m
			}
		}
	} else if !fuzzy {
		// error contract of AcceptBlock: nil when the block was stored and (connected, or not heavier)
		wantErr := heavier && s.Tip != n
		if wantErr && gerr == nil {
			msg := fmt.Sprintf("%s: heavier than the tip but the node did not end on it (model tip %x); AcceptBlock reported no error", what, s.Tip.Idx.Hash[:6])
			if k := knownClass(n); k != "" && s.Open != nil && s.Open(k) {
				return &Excluded{k, msg}
			}
			return fmt.Errorf("%s", msg)
		}
		if !wantErr && gerr != nil {
			return fmt.Errorf("%s: node reported %v; the reference expected it to be stored/connected without error", what, gerr)
		}
	}
	return s.compare("deliver")
}

func coreBest(s *Sim) *MNode {
	var b *MNode
	for _, n := range s.Nodes {
		if n.Present != 1 || !s.Valid(n) {
			continue
		}
		if b == nil {
			b = n
		} else if c := n.Idx.Work.Cmp(b.Idx.Work); c > 0 || c == 0 && n.Seq < b.Seq {
			b = n
		}
	}
	return b
}

func isAncestor(a, b *MNode) bool {
	for b != nil && b.Idx.Height > a.Idx.Height {
		b = b.Parent
	}
	return a == b
}

// compare checks tip and full UTXO set of the node against the model.
func (s *Sim) compare(when string) error {
	if s.Node == nil {
		return nil
	}
	h, height := s.Node.Tip()
	if s.quiet && h == s.Tip.Idx.Hash {
		return nil
	}
	if h != s.Tip.Idx.Hash {
		msg := fmt.Sprintf("after %s: node tip %x (height %d), model tip %x (height %d)", when, h[:6], height, s.Tip.Idx.Hash[:6], s.Tip.Idx.Height)
		// the node sits on a branch that contains a block of the class of an open known finding (stored on a side
		// branch first, connected by a later reorganisation): the same defect, seen later
		for _, m := range s.Nodes {
			if m.Idx.Hash != h {
				continue
			}
			for a := m; a != nil && a.Parent != nil; a = a.Parent {
				s.Valid(a)
				if k := knownClass(a); k != "" && s.Open != nil && s.Open(k) {
					return &Excluded{k, msg}
				}
			}
		}
		return fmt.Errorf("%s", msg)
	}
	if d := env.DiffEntries(s.Node.DumpUTXO(), env.EntriesOf(s.Tip.View)); d != "" {
		return fmt.Errorf("after %s at tip %x (height %d): unspent-output set differs from the replay of the tip's chain:\n%s", when, h[:6], height, d)
	}
	return nil
}

func errClass(e error) string {
	if e == nil {
		return "ok"
	}
	m := e.Error()
	if i := bytes.IndexAny([]byte(m), " (:"); i > 0 {
		m = m[:i]
	}
	return m
}

// ---------------------------------------------------------------------------------------------
// block construction

type cand struct {
	key  [36]byte
	coin consensus.Coin
}

// pending remembers single-input hand-made spends so that they can be re-signed after the violation code
// changed their outputs / prevout / lock time.
type pending struct {
	tx    *wire.Tx
	x     cand
	valid bool
}

type bctx struct {
	bad, badPos int // position of the input built to fail (addTx with validLast=false)
	pendingSign []pending
	poolTxs     []*wire.Tx
	s           *Sim
	parent      *MNode
	height      uint32
	view        consensus.UTXO
	list        []cand // spendable, mature, known recipe
	immature    []cand
	txs         []*wire.Tx
	fees        uint64
	mtp         uint32
	segwit      bool
}

func (s *Sim) sortedCands(view consensus.UTXO, height uint32, segwit bool) (list, immature []cand) {
	keys := make([][36]byte, 0, len(view))
	for k := range view {
		keys = append(keys, k)
	}
	sort.Slice(keys, func(i, j int) bool { return bytes.Compare(keys[i][:], keys[j][:]) < 0 })
	for _, k := range keys {
		c := view[k]
		if !s.B.Spendable(c.Script) {
			continue
		}
		if needSW, needTR := s.B.NeedsWitness(c.Script); needSW && !segwit || needTR && !(s.P.TaprootHeight != 0 && height >= s.P.TaprootHeight) {
			continue
		}
		if c.Coinbase && height-c.Height < consensus.CoinbaseMaturity {
			immature = append(immature, cand{k, c})
			continue
		}
		list = append(list, cand{k, c})
	}
	return
}

func (c *bctx) take(sel int) (cand, bool) {
	if len(c.list) == 0 {
		return cand{}, false
	}
	i := mod(sel, len(c.list))
	x := c.list[i]
	c.list = append(c.list[:i], c.list[i+1:]...)
	return x, true
}

func (c *bctx) outScript(o OutSpec) []byte {
	b := c.s.B
	n := int64(mod(o.N, 1000) + 17)
	fam := mod(o.Fam, 18)
	if fam >= 14 {
		if !c.s.Signed {
			fam = mod(o.Fam, 9)
		} else {
			switch fam {
			case 14:
				return b.P2PKH(mod(o.N, 6))
			case 15:
				return b.P2WPKH(mod(o.N, 6))
			case 16:
				return b.P2SHP2WPKH(mod(o.N, 6))
			default:
				return b.P2TR(mod(o.N, 6))
			}
		}
	}
	switch fam {
	case 12, 13:
		return b.Unspendable(lookalike(o.N, 0))
	case 9:
		return b.WrapP2SH(b.WrapP2WSH(b.True()))
	case 10:
		return b.WrapP2SH(b.WrapP2WSH(b.Puzzle(n)))
	case 11:
		return b.WrapP2SH(b.WrapP2WSH(b.SigOps(mod(o.N, 15))))
	case 0:
		return b.True()
	case 1:
		return b.Puzzle(n)
	case 2:
		return b.WrapP2SH(b.True())
	case 3:
		return b.WrapP2SH(b.Puzzle(n))
	case 4:
		return b.WrapP2WSH(b.True())
	case 5:
		return b.WrapP2WSH(b.Puzzle(n))
	case 6:
		return b.OpReturn([]byte{byte(o.N), byte(o.N >> 8)})
	case 7:
		return b.SigOps(mod(o.N, 40))
	default:
		return b.WrapP2SH(b.SigOps(mod(o.N, 15)))
	}
}

// lookalike gives an output script that is, or merely resembles, one of the standard address forms - with a hash /
// program nobody has a key for.  Nothing here is ever spent; it is there for whatever looks at output scripts by
// shape (record compression, the per-address index).
func lookalike(n int, salt uint64) []byte {
	h := sha256.Sum256([]byte{byte(n), byte(n >> 8), byte(n >> 16), byte(salt), byte(salt >> 8), 0x1a})
	h2 := sha256.Sum256(h[:])
	d := append(append([]byte{}, h[:]...), h2[:]...) // 64 pseudo-random bytes
	cat := func(parts ...[]byte) (r []byte) {
		for _, p := range parts {
			r = append(r, p...)
		}
		return
	}
	variants := [][]byte{
		cat([]byte{0x76, 0xa9, 0x14}, d[:20], []byte{0x88, 0xac}), // the real forms, foreign hashes
		cat([]byte{0xa9, 0x14}, d[:20], []byte{0x87}),
		cat([]byte{0x00, 0x14}, d[:20]),
		cat([]byte{0x00, 0x20}, d[:32]),
		cat([]byte{0x51, 0x20}, d[:32]),
		cat([]byte{0x76, 0xa9, 0x13}, d[:20], []byte{0x88, 0xac}), // 25 bytes, wrong push opcode
		cat([]byte{0x76, 0xa9, 0x15}, d[:20], []byte{0x88, 0xac}),
		cat([]byte{0x76, 0xa9, 0x4c}, d[:20], []byte{0x88, 0xac}),
		cat([]byte{0x76, 0xa9, 0x14}, d[:20], []byte{0x88, 0xad}), // wrong last / first opcodes
		cat([]byte{0x76, 0xa9, 0x14}, d[:20], []byte{0x87, 0xac}),
		cat([]byte{0x76, 0xaa, 0x14}, d[:20], []byte{0x88, 0xac}),
		cat([]byte{0x75, 0xa9, 0x14}, d[:20], []byte{0x88, 0xac}),
		cat([]byte{0xa9, 0x13}, d[:20], []byte{0x87}), // 23 bytes
		cat([]byte{0xa9, 0x14}, d[:20], []byte{0x88}),
		cat([]byte{0xaa, 0x14}, d[:20], []byte{0x87}),
		cat([]byte{0x00, 0x13}, d[:19], []byte{0x51}), // 22 bytes, not a witness program
		cat([]byte{0x00, 0x1f}, d[:31], []byte{0x51}), // 34 bytes, not a witness program
		cat([]byte{0x00, 0x1f}, d[:31], []byte{0x00}),
		cat([]byte{0x51, 0x1f}, d[:31], []byte{0x51}),
		cat([]byte{0x52, 0x20}, d[:32]), // other witness versions: programs, but no address of version 0 / 1
		cat([]byte{0x60, 0x20}, d[:32]),
		cat([]byte{0x52, 0x14}, d[:20]),
		cat([]byte{0x51, 0x14}, d[:20]),               // version 1 with a 20-byte program
		cat([]byte{0x00, 0x21}, d[:33]),               // version 0 with a 33-byte program
		cat([]byte{0x4f, 0x20}, d[:32]),               // OP_1NEGATE instead of a version
		cat([]byte{0x21, 0x02}, d[:32], []byte{0xac}), // pay-to-public-key shapes (the x need not be on the curve)
		cat([]byte{0x21, 0x03}, d[:32], []byte{0xac}),
		cat([]byte{0x21, 0x05}, d[:32], []byte{0xac}),
		cat([]byte{0x41, 0x04}, d[:64], []byte{0xac}),
		cat([]byte{0x41, 0x06}, d[:64], []byte{0xac}),
		cat([]byte{0x21, 0x02}, d[:32], []byte{0xad}),
	}
	return variants[mod(n/7, len(variants))]
}

// addTx builds one transaction from a spec; validLast=false makes one input's script fail (the input at
// position c.badPos modulo the input count - first, middle or last).
func (c *bctx) addTx(ts TxSpec, validLast bool) *wire.Tx {
	tx := &wire.Tx{Version: 2}
	if ts.Ver != 0 {
		tx.Version = uint32(ts.Ver)
	}
	var coins []cand
	nin := len(ts.Ins)
	if nin == 0 {
		nin = 1
	}
	for i := 0; i < nin; i++ {
		sel := 0
		if i < len(ts.Ins) {
			sel = ts.Ins[i]
		}
		x, ok := c.take(sel)
		if !ok {
			break
		}
		coins = append(coins, x)
	}
	if len(coins) == 0 {
		return nil
	}
	c.bad = -1
	if !validLast {
		c.bad = mod(c.badPos, len(coins))
		if !c.s.B.Breakable(coins[c.bad].coin.Script) {
			// need a breakable coin at that position
			found := false
			for i, x := range c.list {
				if c.s.B.Breakable(x.coin.Script) {
					c.list[i] = coins[c.bad] // hand the unbreakable one back
					coins[c.bad] = x
					found = true
					break
				}
			}
			if !found {
				validLast = true
				c.bad = -1
			}
		}
	}
	var in uint64
	for _, x := range coins {
		var h [32]byte
		copy(h[:], x.key[:32])
		idx := uint32(x.key[32]) | uint32(x.key[33])<<8 | uint32(x.key[34])<<16 | uint32(x.key[35])<<24
		seq := uint32(0xffffffff)
		switch ts.Seq {
		case 1:
			if d := c.height - x.coin.Height; d > 0 {
				seq = uint32(mod(ts.Fee+1, int(min64(uint64(d), 0xffff))+1))
			} else {
				seq = 0
			}
		case 2:
			seq = 1<<31 | uint32(ts.Fee*7919)&0x7fffffff
		case 3:
			seq = consensus.SeqTypeFlag // 0 units of 512 s: satisfied as soon as MTP advanced past the coin's
		}
		tx.In = append(tx.In, wire.TxIn{PrevHash: h, PrevIndex: idx, Sequence: seq})
		in += x.coin.Value
	}
	switch ts.Lock {
	case 1:
		if c.height > 0 {
			tx.LockTime = c.height - 1
		}
	case 2:
		tx.LockTime = c.mtp - 1
	}
	fee := in * uint64(mod(ts.Fee, 51)) / 1000
	rest := in - fee
	outs := ts.Outs
	if len(outs) == 0 {
		outs = []OutSpec{{Fam: 0, Share: 1}}
	}
	total := 0
	for _, o := range outs {
		total += mod(o.Share, 100) + 1
	}
	var assigned uint64
	for i := 0; i < ts.Pad; i++ {
		tx.Out = append(tx.Out, wire.TxOut{})
	}
	for i, o := range outs {
		v := rest * uint64(mod(o.Share, 100)+1) / uint64(total)
		if i == len(outs)-1 {
			v = rest - assigned
		} else if o.Zero {
			v = 0
		}
		scr := c.outScript(o)
		if consensus.Unspendable(scr) && len(outs) > 1 && i != len(outs)-1 {
			v = 0
		}
		assigned += v
		tx.Out = append(tx.Out, wire.TxOut{Value: v, PkScript: scr})
	}
	c.finishTx(tx, coins, validLast)
	c.fees += in - assigned
	return tx
}

// finishTx signs (fills scripts), registers verdicts and the new outputs as spendable candidates.
func (c *bctx) finishTx(tx *wire.Tx, coins []cand, validLast bool) {
	spent := make([]wire.TxOut, len(coins))
	for i, x := range coins {
		spent[i] = wire.TxOut{Value: x.coin.Value, PkScript: x.coin.Script}
	}
	for i, x := range coins {
		v := validLast || i != c.bad
		if !c.s.B.Spend(tx, i, x.coin.Script, v) {
			panic("sim: cannot build spend")
		}
	}
	for i, x := range coins {
		if c.s.B.Signed(x.coin.Script) {
			if !c.s.B.SpendSigned(tx, i, spent, validLast || i != c.bad) {
				panic("sim: cannot sign")
			}
		}
	}
	id := tx.TxID()
	for i := range coins {
		c.s.B.Valid[consensus.OutKey(id, uint32(i))] = validLast || i != c.bad
	}
	c.txs = append(c.txs, tx)
	for j, o := range tx.Out {
		needSW, needTR := c.s.B.NeedsWitness(o.PkScript)
		if c.s.B.Spendable(o.PkScript) && (c.segwit || !needSW) && (!needTR || c.s.P.TaprootHeight != 0 && c.height >= c.s.P.TaprootHeight) {
			c.list = append(c.list, cand{consensus.OutKey(id, uint32(j)), consensus.Coin{Value: o.Value, Script: o.PkScript, Height: c.height}})
		}
	}
}

// rawTx appends a hand-made transaction whose inputs need no script data (or fail anyway).
func (c *bctx) rawTx(tx *wire.Tx, verdicts ...bool) {
	for _, p := range c.pendingSign {
		if p.tx == tx && c.s.B.Signed(p.x.coin.Script) {
			spent := make([]wire.TxOut, len(tx.In))
			for i := range spent {
				spent[i] = wire.TxOut{Value: p.x.coin.Value, PkScript: p.x.coin.Script}
			}
			for i := range tx.In {
				c.s.B.SpendSigned(tx, i, spent, p.valid)
			}
		}
	}
	id := tx.TxID()
	for i := range tx.In {
		c.s.B.Loose[consensus.OutKey(id, uint32(i))] = true
	}
	for i := range tx.In {
		v := true
		if i < len(verdicts) {
			v = verdicts[i]
		}
		c.s.B.Valid[consensus.OutKey(id, uint32(i))] = v
	}
	c.txs = append(c.txs, tx)
}

func min64(a, b uint64) uint64 {
	if a < b {
		return a
	}
	return b
}

func (s *Sim) buildBlock(op Op) *MNode {
	var parent *MNode
	if op.Parent == -2 {
		// the heaviest leaf that is not on the active chain (a competing branch), else fork off the tip's parent
		for _, m := range s.Nodes {
			if m == s.Root || isAncestor(m, s.Tip) || m.CheckErr != nil {
				continue
			}
			leaf := true
			for _, k := range s.Nodes {
				if k.Parent == m {
					leaf = false
					break
				}
			}
			if leaf && (parent == nil || m.Idx.InvWork.Cmp(parent.Idx.InvWork) > 0) {
				parent = m
			}
		}
		if parent == nil {
			parent = s.Tip
			if parent.Parent != nil {
				parent = parent.Parent
			}
		}
	} else if op.Parent < 0 {
		parent = s.Tip
	} else {
		// among the most recently mined nodes (forks near the tips)
		w := len(s.Nodes)
		if w > 10 {
			w = 10
		}
		parent = s.Nodes[len(s.Nodes)-1-mod(op.Parent, w)]
	}
	// never fork deeper than the node accepts by design
	if int(s.Tip.Idx.Height)-int(parent.Idx.Height) > 1500 {
		parent = s.Tip
	}
	base := s.validAncestor(parent)
	height := parent.Idx.Height + 1
	c := &bctx{s: s, parent: parent, height: height, view: base.View, mtp: parent.Idx.MedianTimePast()}
	c.segwit = s.P.SegwitHeight != 0 && height >= s.P.SegwitHeight
	c.list, c.immature = s.sortedCands(base.View, height, c.segwit)

	hdr := wire.Header{Version: 4, PrevBlock: parent.Idx.Hash}
	hdr.Time = c.mtp + 1 + uint32(mod(op.DT, 1200))
	if hdr.Time <= parent.Idx.Header.Time && op.DT%3 != 0 {
		hdr.Time = parent.Idx.Header.Time + 1 + uint32(mod(op.DT, 1200))
	}
	if op.Step != 0 {
		hdr.Time = parent.Idx.Header.Time + op.Step
	}
	if s.P.AllowMinDifficulty && op.Step == 0 {
		// on a test network the distance to the PARENT decides the target: every third block comes more than 20
		// minutes after it (a minimum-difficulty block), some exactly at the boundary
		switch mod(op.Arg+op.DT, 6) {
		case 0, 1:
			hdr.Time = parent.Idx.Header.Time + 1201 + uint32(mod(op.DT, 600))
		case 2:
			hdr.Time = parent.Idx.Header.Time + 1200
		}
	}
	hdr.Bits = consensus.NextWorkRequiredAt(parent.Idx, s.P, hdr.Time)

	for _, ts := range op.Txs {
		c.addTx(ts, true)
	}
	bv := &violCtx{c: c, op: op, hdr: &hdr}
	bv.pre()

	s.extra++
	subsidy := consensus.BlockSubsidy(height)
	claim := subsidy + c.fees
	if bv.cbFixed {
		claim = subsidy
	}
	if op.CbLess > 0 && uint64(op.CbLess) < claim {
		claim -= uint64(op.CbLess)
	}
	claim += bv.cbExtraClaim
	cbOuts := []wire.TxOut{{Value: claim, PkScript: s.B.True()}}
	if op.Arg%5 == 1 && claim > 1000 && op.Viol == "" {
		cbOuts = []wire.TxOut{{Value: claim / 2, PkScript: s.B.Puzzle(int64(17 + op.Arg%100))}, {Value: claim - claim/2, PkScript: s.B.WrapP2SH(s.B.True())}}
	}
	var cb *wire.Tx
	if bv.cb != nil {
		cb = bv.cb
	} else {
		cb = env.Coinbase(height, cbOuts, s.extra, false)
	}
	blk := &wire.Block{Header: hdr, Txs: append([]*wire.Tx{cb}, c.txs...)}
	hasWit := false
	for _, t := range blk.Txs {
		if t.HasWitness() {
			hasWit = true
		}
	}
	commit := c.segwit && (hasWit || op.Commit)
	bv.post(blk, &commit)
	if !bv.finished {
		env.FinishBlock(blk, commit)
	}
	bv.final(blk)

	n := &MNode{Parent: parent, Block: blk, Raw: blk.Serialize(true), Viol: op.Viol}
	if bv.raw != nil {
		n.Raw = bv.raw
	}
	n.PreRaw = bv.preRaw
	n.PoolTxs = c.poolTxs
	n.Idx = parent.Idx.Child(&blk.Header)
	for _, m := range s.Nodes {
		if m.Idx.Hash == n.Idx.Hash {
			return nil // identical block mined twice (can only happen for hand-made degenerate ops)
		}
	}
	now := time.Now().Unix()
	if err := consensus.CheckHeader(&blk.Header, parent.Idx, s.P, now); err != nil {
		n.CheckErr = err
	} else if bv.rawErr != nil {
		n.CheckErr = bv.rawErr
	} else {
		n.CheckErr = consensus.CheckBlock(blk, parent.Idx, s.P)
	}
	s.Nodes = append(s.Nodes, n)
	if op.Viol != "" {
		ok := s.Valid(n)
		name := op.Viol
		if bv.sub != "" {
			name += ":" + bv.sub
		}
		n.Viol = name
		if !bv.effective {
			s.label("viol-skipped/" + name)
		} else if ok {
			s.label("viol-valid-side/" + name)
		} else {
			s.label("viol/" + name + "/" + errClass(n.ConnErr))
		}
	}
	return n
}

// Describe renders a node for messages.
func (n *MNode) Describe() string {
	return fmt.Sprintf("%x@%d", n.Idx.Hash[:6], n.Idx.Height)
}

// RunCase executes a whole case; the returned error is the first disagreement.
func RunCase(c Case, opts env.Options, hooks Hooks) (s *Sim, err error) {
	return RunCaseOpen(c, opts, hooks, nil)
}

// RunCaseOpen is RunCase with the open-known-finding predicate installed.
func RunCaseOpen(c Case, opts env.Options, hooks Hooks, open func(string) bool) (s *Sim, err error) {
	return RunCaseCfg(c, opts, hooks, open, Config{})
}

// RunCaseCfg is the general form.
func RunCaseCfg(c Case, opts env.Options, hooks Hooks, open func(string) bool, cfg Config) (s *Sim, err error) {
	s, err = NewCfg(c.Params, opts, cfg)
	if s != nil {
		s.Hooks = hooks
		s.Open = open
		s.CurStep = -1
	}
	if err != nil {
		return s, err
	}
	for i, op := range c.Ops {
		s.CurStep = i
		if cfg.StepLog != nil {
			cfg.StepLog("start", i)
		}
		e := s.Step(op)
		if cfg.StepLog != nil && e == nil {
			cfg.StepLog("done", i)
		}
		if e != nil {
			if x, ok := e.(*Excluded); ok {
				return s, x
			}
			return s, fmt.Errorf("step %d (%s %s): %v", i, op.Kind, op.Viol, e)
		}
	}
	return s, nil
}

var _ = hex.EncodeToString
var _ = big.NewInt
