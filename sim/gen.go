package sim

import (
	"pgregory.net/rapid"
)

// Profile steers the generator towards the histories a property is about.
type Profile struct {
	Forks     bool     // build on arbitrary known nodes, withhold blocks (C06)
	Viols     []string // violation kinds to draw from
	ViolPct   int      // percentage of blocks carrying a violation
	MaxTx     int
	MinOps    int
	MaxOps    int
	Prefixes  []int // candidate prefix lengths
	Reopen    bool
	Staggered bool // draw activation heights instead of "everything from height 1"
	Signed    bool // mostly use the signed output families too
	Halving   bool // sometimes place the chain just below a subsidy halving
	// UnwindWindow: sometimes place the chain so that its tip crosses height UnwindBufLen (2560, the number of blocks
	// whose undo data the node keeps): every block above it makes CommitBlockTxs discard the undo file that leaves the
	// window - what a node on a real network does with every block - while reorganisations need the files inside it
	UnwindWindow bool
	Retarget     bool // sometimes pre-mine ~2016 blocks with a drawn spacing so that the history crosses a retarget
	IdlePct      int
	RedelivPct   int
}

func GenTx(t *rapid.T) TxSpec {
	ts := TxSpec{}
	nin := rapid.IntRange(1, 3).Draw(t, "nin")
	for i := 0; i < nin; i++ {
		ts.Ins = append(ts.Ins, rapid.IntRange(0, 1<<16).Draw(t, "in"))
	}
	nout := rapid.IntRange(1, 4).Draw(t, "nout")
	for i := 0; i < nout; i++ {
		ts.Outs = append(ts.Outs, OutSpec{Fam: rapid.IntRange(0, 17).Draw(t, "fam"), Share: rapid.IntRange(0, 99).Draw(t, "share"), N: rapid.IntRange(0, 999).Draw(t, "n")})
	}
	ts.Fee = rapid.IntRange(0, 50).Draw(t, "fee")
	if rapid.IntRange(0, 5).Draw(t, "seqsel") == 0 {
		ts.Seq = rapid.IntRange(1, 3).Draw(t, "seq")
	}
	if rapid.IntRange(0, 7).Draw(t, "locksel") == 0 {
		ts.Lock = rapid.IntRange(1, 2).Draw(t, "lock")
	}
	return ts
}

func GenParams(t *rapid.T, p Profile) ParamSpec {
	ps := ParamSpec{BIP34: 1, BIP65: 1, BIP66: 1, CSV: 1, Segwit: 1, Taproot: 1}
	if p.Staggered && rapid.IntRange(0, 2).Draw(t, "staggered") == 0 {
		h := func(name string) uint32 { return uint32(rapid.IntRange(1, 12).Draw(t, name)) }
		ps.BIP34, ps.BIP66, ps.BIP65 = h("bip34"), h("bip66"), h("bip65")
		ps.CSV, ps.Segwit = h("csv"), h("segwit")
		ps.Taproot = ps.Segwit + uint32(rapid.IntRange(0, 3).Draw(t, "taproot"))
		if rapid.IntRange(0, 5).Draw(t, "nosegwit") == 0 {
			ps.Segwit, ps.Taproot = 0, 0
		}
	}
	if len(p.Prefixes) > 0 {
		ps.Prefix = rapid.SampledFrom(p.Prefixes).Draw(t, "prefix")
	}
	if p.Signed {
		ps.Signed = rapid.IntRange(0, 3).Draw(t, "signed") != 0
	}
	if p.Retarget && rapid.IntRange(0, 9).Draw(t, "retarget") == 0 {
		ps.Prefix = rapid.IntRange(2010, 2016).Draw(t, "rprefix")
		ps.Spacing = uint32(rapid.SampledFrom([]int{100, 149, 150, 151, 300, 600, 1200, 2399, 2400, 2401, 4000}).Draw(t, "spacing"))
		ps.PowBits = rapid.SampledFrom([]uint32{0x207fffff, 0x2000ffff, 0x1f7fffff}).Draw(t, "powbits")
		// half of these chains are test networks: once a retarget has made the target harder than the limit, blocks
		// of two difficulties alternate (the 20-minute rule), and so do the branches of a fork
		ps.Testnet = rapid.Bool().Draw(t, "testnet")
	}
	if p.Halving && ps.Prefix < 1000 && rapid.IntRange(0, 5).Draw(t, "halving") == 0 {
		k := uint32(rapid.IntRange(1, 34).Draw(t, "halvings"))
		if k%6 == 0 {
			k++ // every 6th halving coincides with a retarget boundary, which a short synthetic chain cannot serve
		}
		ps.Base = k*210000 - uint32(ps.Prefix) - uint32(rapid.IntRange(1, 12).Draw(t, "below"))
	}
	if p.UnwindWindow && ps.Base == 0 && ps.Prefix < 1000 && rapid.IntRange(0, 4).Draw(t, "unwind_window") == 0 {
		ps.Base = uint32(2560 - ps.Prefix + rapid.IntRange(-8, 12).Draw(t, "unwind_delta"))
	}
	return ps
}

func GenOp(t *rapid.T, p Profile) Op {
	k := rapid.IntRange(0, 99).Draw(t, "kind")
	switch {
	case k < p.IdlePct:
		return Op{Kind: "idle", Arg: rapid.IntRange(0, 1).Draw(t, "wait")}
	case k < p.IdlePct+p.RedelivPct:
		return Op{Kind: "redeliver", Pick: rapid.IntRange(0, 1<<16).Draw(t, "pick")}
	case p.RedelivPct > 0 && p.Forks && k < p.IdlePct+p.RedelivPct+2:
		return Op{Kind: "redeliver_invalid", Pick: rapid.IntRange(0, 1<<16).Draw(t, "pick")}
	case p.Reopen && k < p.IdlePct+p.RedelivPct+3:
		return Op{Kind: "reopen"}
	case p.Forks && k < p.IdlePct+p.RedelivPct+3+12:
		return Op{Kind: "deliver", Pick: rapid.IntRange(0, 1<<16).Draw(t, "pick")}
	}
	op := Op{Kind: "block", Parent: -1, DT: rapid.IntRange(0, 1199).Draw(t, "dt")}
	if p.Forks {
		switch rapid.IntRange(0, 9).Draw(t, "parentsel") {
		case 0, 1, 2:
			op.Parent = -1
		case 3, 4, 5, 6:
			op.Parent = -2
		default:
			// biased to recently mined nodes: negative offsets from the end are encoded as large indexes
			op.Parent = rapid.IntRange(0, 9).Draw(t, "parent")
		}
		op.Hold = rapid.IntRange(0, 5).Draw(t, "hold") == 0
	}
	ntx := rapid.IntRange(0, p.MaxTx).Draw(t, "ntx")
	for i := 0; i < ntx; i++ {
		op.Txs = append(op.Txs, GenTx(t))
	}
	if len(p.Viols) > 0 && rapid.IntRange(0, 99).Draw(t, "violsel") < p.ViolPct {
		op.Viol = rapid.SampledFrom(p.Viols).Draw(t, "viol")
	}
	op.Arg = rapid.IntRange(0, 1<<12).Draw(t, "arg")
	if rapid.IntRange(0, 9).Draw(t, "cbless") == 0 {
		op.CbLess = rapid.IntRange(1, 5000).Draw(t, "cblessv")
	}
	op.Commit = rapid.IntRange(0, 3).Draw(t, "commit") == 0
	return op
}

func GenCase(t *rapid.T, p Profile) Case {
	c := Case{Params: GenParams(t, p)}
	n := rapid.IntRange(p.MinOps, p.MaxOps).Draw(t, "nops")
	for i := 0; i < n; i++ {
		c.Ops = append(c.Ops, GenOp(t, p))
	}
	return c
}

// AddWideBlock turns one early violation-free block of the history into a block that spends outputs of 31..34 or
// 64..67 DIFFERENT confirmed transactions in single-input transactions (the unspent-set commit splits its work into
// batches of 32 records), followed by blocks that try to spend them again.  The prefix is lengthened so that enough
// mature coinbases exist.  Reports whether the history had a suitable block.
func AddWideBlock(t *rapid.T, c *Case) bool {
	var cand []int
	for i, op := range c.Ops {
		if op.Kind == "block" && op.Viol == "" && !op.Hold {
			cand = append(cand, i)
		}
	}
	if len(cand) == 0 {
		return false
	}
	// early in the history: the spendable set is then mostly the prefix's one-output coinbases, every input a
	// different confirmed transaction
	hi := len(cand) - 1
	if hi > 2 {
		hi = 2
	}
	i := cand[rapid.IntRange(0, hi).Draw(t, "wideop")]
	n := rapid.SampledFrom([]int{31, 32, 33, 34, 64, 65, 66, 67}).Draw(t, "widen")
	op := &c.Ops[i]
	op.Txs = nil
	for j := 0; j < n; j++ {
		// selector 0: always the first of the (sorted) confirmed candidates, never an output created in this block
		op.Txs = append(op.Txs, TxSpec{Ins: []int{0},
			Outs: []OutSpec{{Fam: rapid.IntRange(0, 17).Draw(t, "widefam"), Share: 1, N: j}}, Fee: 1})
	}
	// enough mature coinbases: the chain tip stays at the same absolute height
	if need := 100 + n + 8 + 20*i; c.Params.Prefix < need {
		d := uint32(need - c.Params.Prefix)
		if c.Params.Base >= d {
			c.Params.Base -= d
		}
		c.Params.Prefix = need
		// a synthetic chain (no blocks below Base) cannot serve a retarget: keep every multiple of 2016 out of it
		if lo, hi := c.Params.Base, c.Params.Base+uint32(need+len(c.Ops)+2); lo != 0 && lo/2016 != hi/2016 {
			c.Params.Base = 0
		}
	}
	// blocks that try to spend outputs consumed by an earlier block
	for k := i + 1; k < len(c.Ops) && k < i+6; k++ {
		if c.Ops[k].Kind == "block" && c.Ops[k].Viol == "" && rapid.Bool().Draw(t, "respend") {
			c.Ops[k].Viol = "spent_earlier"
			c.Ops[k].Arg = rapid.IntRange(0, 1<<12).Draw(t, "respendarg")
		}
	}
	return true
}
