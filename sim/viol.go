package sim

import (
	"crypto/sha256"
	"encoding/binary"
	"time"

	"verif/env"
	"verif/ref/consensus"
	"verif/ref/wire"
)

// Violations: each kind builds an otherwise valid block in which one rule of C04 / C05 is broken
// (or, for some values of Arg, sits exactly on the permitted side of the boundary).  The verdict is
// never assumed from the kind: the reference model judges the finished block.

// TxViolations concern the spend graph / amounts / scripts (C04).
var TxViolations = []string{"missing_txid", "alias8", "vout_oob", "dup_in_block", "dup_in_tx", "spent_earlier",
	"later_output", "own_coinbase", "immature", "out_toolarge", "in_below_out", "cb_overclaim", "sigops",
	"bip68_height", "bip68_time", "bad_script", "wit_stripped"}

// BlockViolations concern header, structure and commitments (C05).
var BlockViolations = []string{"high_hash", "bits", "time_mtp", "time_future", "version", "no_coinbase", "two_coinbase",
	"cb_not_first", "cb_len", "bip34", "nonfinal", "merkle_wrong", "merkle_dup", "merkle_dup_twin", "weight", "wit_commit_wrong",
	"wit_commit_missing", "wit_nonce_size", "wit_commit_multi", "tx_no_outputs"}

type violCtx struct {
	c            *bctx
	op           Op
	hdr          *wire.Header
	cb           *wire.Tx
	cbFixed      bool
	cbExtraClaim uint64
	effective    bool
	finished     bool
	raw          []byte
	rawErr       error
	sub          string // sub-variant, for the class histogram
	cbSigOps     int    // sigops: that many OP_CHECKSIG opcodes are appended to the coinbase's input script
	preRaw       []byte
}

func keyParts(k [36]byte) (h [32]byte, idx uint32) {
	copy(h[:], k[:32])
	idx = binary.LittleEndian.Uint32(k[32:])
	return
}

func (v *violCtx) spendTx(x cand, valid bool, outValue uint64) *wire.Tx {
	h, idx := keyParts(x.key)
	tx := &wire.Tx{Version: 2, In: []wire.TxIn{{PrevHash: h, PrevIndex: idx, Sequence: 0xffffffff}},
		Out: []wire.TxOut{{Value: outValue, PkScript: v.c.s.B.True()}}}
	if !v.c.s.B.Spend(tx, 0, x.coin.Script, valid) {
		panic("sim: cannot spend")
	}
	v.c.pendingSign = append(v.c.pendingSign, pending{tx, x, valid})
	v.c.s.B.SpendSigned(tx, 0, []wire.TxOut{{Value: x.coin.Value, PkScript: x.coin.Script}}, valid)
	return tx
}

// bip68Version: the rule applies to every version >= 2 compared as an UNSIGNED number (0x80000000 and above too).
func (v *violCtx) bip68Version(tx *wire.Tx, arg int) {
	tx.Version = []uint32{2, 2, 2, 3, 0x7fffffff, 0x80000000, 0x80000002, 0xffffffff}[mod(arg/3, 8)]
	if tx.Version >= 0x80000000 {
		v.sub = "version>=2^31"
	}
}

// pre runs after the ordinary transactions were built, before the coinbase.
func (v *violCtx) pre() {
	c, s, arg := v.c, v.c.s, v.op.Arg
	switch v.op.Viol {
	case "missing_txid":
		h := sha256.Sum256([]byte{byte(arg), byte(arg >> 8), byte(s.extra), byte(s.extra >> 8), 0x77})
		tx := &wire.Tx{Version: 2, In: []wire.TxIn{{PrevHash: h, PrevIndex: uint32(mod(arg, 3)), Sequence: 0xffffffff}},
			Out: []wire.TxOut{{Value: 1000, PkScript: s.B.True()}}}
		c.rawTx(tx)
		v.effective = true
	case "alias8":
		// a prevout whose txid shares only the first 8 bytes with an existing record (the node's index key)
		if x, ok := c.take(arg); ok {
			tx := v.spendTx(x, true, x.coin.Value)
			for i := 8; i < 32; i++ {
				tx.In[0].PrevHash[i] ^= byte(0x5a + i + arg)
			}
			if mod(arg, 4) == 0 { // differ in the very last byte only
				h, _ := keyParts(x.key)
				h[31] ^= 1
				tx.In[0].PrevHash = h
			}
			c.rawTx(tx)
			v.effective = true
		}
	case "wit_stripped":
		// a valid spend of a witness output that the mempool knows in full arrives in the block WITHOUT its
		// witness data: same txid, other wtxid, and its script no longer verifies
		for i, x := range c.list {
			if needSW, _ := s.B.NeedsWitness(x.coin.Script); !needSW {
				continue
			}
			c.list = append(c.list[:i:i], c.list[i+1:]...)
			tx := v.spendTx(x, true, x.coin.Value)
			c.rawTx(tx, false) // (signs the pending inputs)
			if !tx.HasWitness() {
				break
			}
			c.poolTxs = append(c.poolTxs, tx.Copy())
			for j := range tx.In {
				tx.In[j].Witness = nil
			}
			v.effective = true
			break
		}
	case "vout_oob":
		if x, ok := c.take(arg); ok {
			tx := v.spendTx(x, true, x.coin.Value)
			tx.In[0].PrevIndex += uint32(1000 + mod(arg, 5))
			c.rawTx(tx)
			v.effective = true
		}
	case "dup_in_block":
		if x, ok := c.take(arg); ok {
			a := v.spendTx(x, true, x.coin.Value)
			b := v.spendTx(x, true, x.coin.Value-uint64(mod(arg, 7)))
			b.Out[0].PkScript = s.B.Puzzle(int64(20 + mod(arg, 50)))
			c.rawTx(a)
			c.rawTx(b)
			// optionally put unrelated transactions between the two
			v.effective = true
		}
	case "dup_in_tx":
		if x, ok := c.take(arg); ok {
			tx := v.spendTx(x, true, 2*x.coin.Value)
			tx.In = append(tx.In, tx.In[0])
			c.rawTx(tx, true, true)
			v.effective = true
		}
	case "spent_earlier":
		// an outpoint consumed by one of the last blocks of this branch
		for a, depth := c.parent, 0; a != nil && a.Parent != nil && depth < 8 && !v.effective; a, depth = a.Parent, depth+1 {
			if !s.Valid(a) {
				continue
			}
			for _, t := range a.Block.Txs[1:] {
				in := t.In[mod(arg, len(t.In))]
				coin, ok := a.Parent.View[consensus.OutKey(in.PrevHash, in.PrevIndex)]
				if !ok || !s.B.Spendable(coin.Script) {
					continue
				}
				if _, still := c.view[consensus.OutKey(in.PrevHash, in.PrevIndex)]; still {
					continue
				}
				tx := v.spendTx(cand{consensus.OutKey(in.PrevHash, in.PrevIndex), coin}, true, coin.Value)
				c.rawTx(tx)
				v.effective = true
				break
			}
		}
	case "later_output":
		if a := c.addTx(TxSpec{Ins: []int{arg}, Outs: []OutSpec{{Fam: 0, Share: 1}}}, true); a != nil {
			x := c.list[len(c.list)-1]
			c.list = c.list[:len(c.list)-1]
			b := v.spendTx(x, true, x.coin.Value)
			c.rawTx(b)
			n := len(c.txs)
			c.txs[n-1], c.txs[n-2] = c.txs[n-2], c.txs[n-1]
			v.effective = true
		}
	case "own_coinbase":
		s.extra++
		v.cbFixed = true
		v.cb = env.Coinbase(c.height, []wire.TxOut{{Value: consensus.BlockSubsidy(c.height), PkScript: s.B.True()}}, s.extra, false)
		x := cand{consensus.OutKey(v.cb.TxID(), 0), consensus.Coin{Value: v.cb.Out[0].Value, Script: v.cb.Out[0].PkScript, Height: c.height, Coinbase: true}}
		c.rawTx(v.spendTx(x, true, x.coin.Value))
		v.effective = true
	case "immature":
		// prefer the boundary: depth 99 (refused) or, for odd Arg, depth 100 (allowed)
		if arg%2 == 1 {
			for i, x := range c.list {
				if x.coin.Coinbase && c.height-x.coin.Height == consensus.CoinbaseMaturity {
					c.list = append(c.list[:i], c.list[i+1:]...)
					c.rawTx(v.spendTx(x, true, x.coin.Value))
					v.effective = true
					return
				}
			}
		}
		if len(c.immature) > 0 {
			best := c.immature[mod(arg, len(c.immature))]
			for _, x := range c.immature {
				if c.height-x.coin.Height == consensus.CoinbaseMaturity-1 {
					best = x
				}
			}
			c.rawTx(v.spendTx(best, true, best.coin.Value))
			v.effective = true
		}
	case "out_toolarge":
		if x, ok := c.take(arg); ok {
			tx := v.spendTx(x, true, 0)
			switch mod(arg, 6) {
			case 0:
				tx.Out[0].Value = consensus.MaxMoney + 1
			case 1:
				tx.Out[0].Value = 1 << 63
			case 2: // the sum wraps around 2^64 to exactly the input value
				tx.Out[0].Value = 1 << 63
				tx.Out = append(tx.Out, wire.TxOut{Value: 1<<63 + x.coin.Value, PkScript: s.B.True()})
			case 3: // each in range, total above the limit
				tx.Out[0].Value = consensus.MaxMoney
				tx.Out = append(tx.Out, wire.TxOut{Value: consensus.MaxMoney, PkScript: s.B.True()})
			case 4: // 2^64-1 plus the input value + 1 wraps to the input value
				tx.Out[0].Value = ^uint64(0)
				tx.Out = append(tx.Out, wire.TxOut{Value: x.coin.Value + 1, PkScript: s.B.True()})
			default: // 8785 outputs, each one in range, whose total wraps around 2^64 to exactly the input value
				const n = 8784
				rest := uint64(1<<64-n*consensus.MaxMoney) + x.coin.Value // 2^64 - n*21e14 = 344073709551616
				if rest <= consensus.MaxMoney {
					tx.Out[0].Value = rest
					for i := 0; i < n; i++ {
						tx.Out = append(tx.Out, wire.TxOut{Value: consensus.MaxMoney, PkScript: []byte{0x51}})
					}
				} else {
					tx.Out[0].Value = consensus.MaxMoney + 1
				}
			}
			v.sub = []string{"max+1", "2^63", "two-wrap", "two-in-range", "max-u64-wrap", "8785-in-range-wrap"}[mod(arg, 6)]
			c.rawTx(tx)
			v.effective = true
		}
	case "in_below_out":
		if x, ok := c.take(arg); ok {
			c.rawTx(v.spendTx(x, true, x.coin.Value+1+uint64(mod(arg, 3))))
			v.effective = true
		}
	case "cb_overclaim":
		v.effective = true
		switch {
		case mod(arg, 5) == 4:
			// the claim itself is exactly what is allowed, but it is split into two outputs above 2^63 whose
			// sum wraps around 2^64 to that amount (see post): only the money-range rule refuses it
			v.sub = "outputs-wrap-2^64"
		case arg%2 == 0:
			v.cbExtraClaim = 1
		}
	case "sigops":
		v.sigops()
	case "bip68_height":
		if x, ok := c.take(arg); ok && c.height > x.coin.Height {
			tx := v.spendTx(x, true, x.coin.Value)
			d := c.height - x.coin.Height
			if d < 0xffff {
				tx.In[0].Sequence = d + 1 // needs one more block
				if arg%2 == 1 {
					tx.In[0].Sequence = d // exactly satisfied
				}
				if arg%7 == 3 {
					tx.Version = 1 // BIP68 does not apply to version 1
				} else {
					v.bip68Version(tx, arg)
				}
				v.effective = true
			}
			c.rawTx(tx)
		}
	case "bip68_time":
		if x, ok := c.take(arg); ok {
			tx := v.spendTx(x, true, x.coin.Value)
			ah := uint32(0)
			if x.coin.Height > 0 {
				ah = x.coin.Height - 1
			}
			anc := c.parent.Idx.Ancestor(ah)
			if anc != nil && c.mtp >= anc.MedianTimePast() {
				k := (c.mtp - anc.MedianTimePast()) / 512
				if arg%2 == 0 {
					k++
				}
				if k <= 0xffff {
					tx.In[0].Sequence = consensus.SeqTypeFlag | k
					v.bip68Version(tx, arg)
					v.effective = true
				}
			}
			c.rawTx(tx)
		}
	case "bad_script":
		// 1..4 inputs, the failing one first, in the middle or last
		ins := []int{arg, arg / 3, arg / 7, arg / 11}[:1+mod(arg/5, 4)]
		c.badPos = mod(arg/2, 4)
		if c.addTx(TxSpec{Ins: ins, Outs: []OutSpec{{Fam: arg, Share: 1}}}, false) != nil && c.bad >= 0 {
			v.effective = true
			v.sub = []string{"first-input", "inner-input", "last-input"}[func() int {
				n := len(c.txs[len(c.txs)-1].In)
				switch {
				case c.bad == n-1:
					return 2
				case c.bad == 0:
					return 0
				}
				return 1
			}()]
		}
	case "nonfinal":
		if x, ok := c.take(arg); ok {
			tx := v.spendTx(x, true, x.coin.Value)
			tx.In[0].Sequence = 0xfffffffe
			csv := s.P.CSVHeight != 0 && c.height >= s.P.CSVHeight
			switch mod(arg, 4) {
			case 0:
				tx.LockTime = c.height // not final
			case 1:
				tx.LockTime = c.height - 1 // final
			case 2:
				if csv {
					tx.LockTime = c.mtp
				} else {
					tx.LockTime = v.hdr.Time
				}
			default:
				if csv {
					tx.LockTime = c.mtp - 1
				} else {
					tx.LockTime = v.hdr.Time - 1
				}
			}
			c.rawTx(tx)
			v.effective = true
		}
	case "tx_no_outputs":
		if x, ok := c.take(arg); ok {
			tx := v.spendTx(x, true, 0)
			tx.Out = nil
			c.rawTx(tx)
			v.effective = true
		}
	case "merkle_dup", "merkle_dup_twin":
		// make the transaction count one that admits a duplicated tail (odd >= 3, or 6, 10, ...)
		for i := 0; i < 3 && ((1+len(c.txs))%2 == 0 || 1+len(c.txs) < 3); i++ {
			if c.addTx(TxSpec{Ins: []int{arg + i}, Outs: []OutSpec{{Fam: i, Share: 1}}, Fee: 1}, true) == nil {
				break
			}
		}
	case "time_mtp":
		v.hdr.Time = c.mtp
		if arg%2 == 1 {
			v.hdr.Time = c.mtp + 1
		}
		v.hdr.Bits = consensus.NextWorkRequiredAt(c.parent.Idx, s.P, v.hdr.Time) // (on a test network the time decides the target)
		v.effective = true
	case "time_future":
		now := uint32(time.Now().Unix())
		v.hdr.Time = now + consensus.MaxFutureBlockTime + 90
		switch mod(arg, 8) {
		case 1, 3:
			v.hdr.Time = now + consensus.MaxFutureBlockTime - 90
		case 4: // so far ahead that the difference to the clock no longer fits a signed 32-bit number
			v.hdr.Time = now + 1<<31
			v.sub = "now+2^31"
		case 5:
			v.hdr.Time = now + 1<<31 + 3600
			v.sub = "now+2^31+1h"
		case 6:
			v.hdr.Time = 0xffffffff
			v.sub = "2^32-1"
		case 7:
			v.hdr.Time = now + 1<<31 - 100
			v.sub = "now+2^31-100"
		}
		v.hdr.Bits = consensus.NextWorkRequiredAt(c.parent.Idx, s.P, v.hdr.Time)
		v.effective = true
	case "version":
		vs := []uint32{1, 2, 3, 4, 0x20000000, 0x80000000, 0x80000004, 0xffffffff, 5}
		v.hdr.Version = vs[mod(arg, len(vs))]
		v.effective = true
	case "bits":
		req := v.hdr.Bits
		switch mod(arg, 7) {
		case 0:
			v.hdr.Bits = req - 1 // slightly harder than required
		case 1:
			v.hdr.Bits = req&0xff000000 | (req&0x007fffff)>>1 // half the target
		case 2:
			v.hdr.Bits = req | 0x00800000 // negative
		case 3:
			v.hdr.Bits = req & 0xff000000 // zero mantissa
		case 4:
			v.hdr.Bits = 0x21000000 | req&0x007fffff // exponent beyond 256 bits
		case 5:
			v.hdr.Bits = 0xff000000 | req&0x007fffff
		default:
			v.hdr.Bits = (req>>24-1)<<24 | req&0x007fffff // 256 times harder
		}
		v.effective = true
	}
}

// sigops fills the block up to a chosen total sig-op cost.
func (v *violCtx) sigops() {
	c, s, arg := v.c, v.c.s, v.op.Arg
	flags := consensus.BlockScriptFlags(c.height, s.P)
	cost := 0
	for _, t := range c.txs {
		coins := make([]consensus.Coin, len(t.In))
		ok := true
		for j, in := range t.In {
			k := consensus.OutKey(in.PrevHash, in.PrevIndex)
			if cn, found := c.view[k]; found {
				coins[j] = cn
			} else {
				found := false
				for _, t2 := range c.txs {
					if t2.TxID() == in.PrevHash && int(in.PrevIndex) < len(t2.Out) {
						coins[j] = consensus.Coin{Value: t2.Out[in.PrevIndex].Value, Script: t2.Out[in.PrevIndex].PkScript}
						found = true
					}
				}
				ok = ok && found
			}
		}
		if !ok {
			return
		}
		cost += consensus.TxSigOpCost(t, coins, flags)
	}
	variant := mod(arg, 12)
	v.sub = []string{"at-limit", "legacy+4", "witness+1", "after-opreturn+4", "p2sh+4", "multisig+4", "coinbase-scriptsig+4", "coinbase-scriptsig-at-limit",
		"p2sh-wrapped-witness+1", "p2sh-wrapped-witness-at-limit", "p2sh-multisig16+4", "witness-multisig16+4"}[variant]
	wrapped := variant == 8 || variant == 9 // the witness script sits behind a P2SH output: its sig-ops count all the same
	if variant == 8 {
		variant = 2
	}
	// OP_16 OP_CHECKMULTISIG in a redeem / witness script counts 16 (accurate counting), the largest key count
	multisig16 := 0
	if variant >= 10 {
		multisig16 = 1 + mod(arg/12, 3)
	}
	target := consensus.MaxBlockSigOpsCost
	switch variant {
	case 0, 9: // exactly at the limit
	case 2:
		target += 1
	case 6: // the other transactions reach the limit; one OP_CHECKSIG in the coinbase's input script adds 4 (see post)
		v.cbSigOps = 1
	case 7: // 4 below the limit + the coinbase's one: exactly at the limit
		target -= 4
		v.cbSigOps = 1
	default:
		target += 4
	}
	x, ok := c.take(arg / 6)
	if !ok {
		return
	}
	need := target - cost
	if need <= 0 {
		return
	}
	witnessPart, p2shPart := 0, 0
	if variant == 2 {
		if !c.segwit {
			return
		}
		witnessPart = 1 + 4*mod(arg/6, 3) // ≡ 1 mod 4
	}
	if variant == 9 { // exactly at the limit, 4..12 of it from a P2SH-wrapped witness script
		if !c.segwit {
			return
		}
		witnessPart = 4 * (1 + mod(arg/6, 3))
	}
	if variant == 4 {
		p2shPart = 4 * (1 + mod(arg/6, 12))
	}
	if variant == 10 {
		p2shPart = 4 * 16 * multisig16
	}
	if variant == 11 {
		if !c.segwit {
			return
		}
		witnessPart = 16 * multisig16
	}
	legacy := (need - witnessPart - p2shPart) / 4
	if legacy < 0 || (need-witnessPart-p2shPart)%4 != 0 {
		return
	}
	tx := v.spendTx(x, true, x.coin.Value)
	tx.Out[0].Value = x.coin.Value / 2
	rest := x.coin.Value - tx.Out[0].Value
	// helper outputs that will be spent inside this block
	var wsh, p2sh []byte
	if witnessPart > 0 {
		wsh = s.B.WrapP2WSH(s.B.SigOps(witnessPart))
		if variant == 11 {
			wsh = s.B.WrapP2WSH(s.B.MultiSigOps(multisig16, 16))
		}
		if wrapped {
			wsh = s.B.WrapP2SH(wsh)
		}
		tx.Out = append(tx.Out, wire.TxOut{Value: rest / 2, PkScript: wsh})
		rest -= rest / 2
	}
	if p2shPart > 0 {
		p2sh = s.B.WrapP2SH(s.B.SigOps(p2shPart / 4))
		if variant == 10 {
			p2sh = s.B.WrapP2SH(s.B.MultiSigOps(multisig16, 16))
		}
		tx.Out = append(tx.Out, wire.TxOut{Value: rest / 2, PkScript: p2sh})
		rest -= rest / 2
	}
	first := true
	for legacy > 0 {
		k := legacy
		if k > 9000 {
			k = 9000
		}
		var scr []byte
		switch {
		case variant == 3 && first:
			scr = s.B.OpReturnThenSigOps(k)
		case variant == 5 && k >= 20:
			k = k / 20 * 20
			scr = s.B.MultiSigOps(k/20, 1+mod(arg, 16)) // inaccurate count: 20 each
			if k > 2000 {
				k = 2000
				scr = s.B.MultiSigOps(100, 1+mod(arg, 16))
			}
		default:
			scr = s.B.SigOps(k)
		}
		first = false
		tx.Out = append(tx.Out, wire.TxOut{Value: 0, PkScript: scr})
		legacy -= k
	}
	tx.Out[len(tx.Out)-1].Value += rest
	c.finishTxRaw(tx, x)
	id := tx.TxID()
	oi := 1
	if witnessPart > 0 {
		y := cand{consensus.OutKey(id, uint32(oi)), consensus.Coin{Value: tx.Out[oi].Value, Script: wsh, Height: c.height}}
		c.rawTx(v.spendTx(y, true, y.coin.Value))
		oi++
	}
	if p2shPart > 0 {
		y := cand{consensus.OutKey(id, uint32(oi)), consensus.Coin{Value: tx.Out[oi].Value, Script: p2sh, Height: c.height}}
		c.rawTx(v.spendTx(y, true, y.coin.Value))
	}
	v.effective = true
}

func (c *bctx) finishTxRaw(tx *wire.Tx, x cand) {
	if !c.s.B.Spend(tx, 0, x.coin.Script, true) {
		panic("sim: cannot spend")
	}
	c.rawTx(tx)
}

// post runs on the assembled block before the merkle root / commitment / mining.
func (v *violCtx) post(b *wire.Block, commit *bool) {
	c, s, arg := v.c, v.c.s, v.op.Arg
	switch v.op.Viol {
	case "cb_overclaim":
		if v.sub == "outputs-wrap-2^64" {
			cb := b.Txs[0]
			v0 := cb.Out[0].Value
			cb.Out[0].Value = 1 << 63
			cb.Out = append(cb.Out, wire.TxOut{Value: 1<<63 + v0, PkScript: s.B.True()})
		}
	case "sigops":
		for i := 0; i < v.cbSigOps && v.effective; i++ {
			b.Txs[0].In[0].ScriptSig = append(b.Txs[0].In[0].ScriptSig, 0xac) // OP_CHECKSIG, counted like any other
		}
	case "no_coinbase":
		if mod(arg, 3) == 1 {
			// the first transaction starts with a null input but has a second input too: that is not a coinbase
			h := sha256.Sum256([]byte{byte(arg), byte(arg >> 8), 0x33})
			b.Txs[0].In = append(b.Txs[0].In, wire.TxIn{PrevHash: h, PrevIndex: uint32(mod(arg, 2)), Sequence: 0xffffffff})
			v.sub = "null-first-input-plus-another"
			v.effective = true
		} else if len(b.Txs) > 1 {
			b.Txs = b.Txs[1:]
			*commit = false
			v.effective = true
		}
	case "two_coinbase":
		s.extra++
		cb2 := env.Coinbase(c.height, []wire.TxOut{{Value: 0, PkScript: s.B.True()}}, s.extra, false)
		pos := 1 + mod(arg, len(b.Txs))
		b.Txs = append(b.Txs[:pos], append([]*wire.Tx{cb2}, b.Txs[pos:]...)...)
		v.effective = true
	case "cb_not_first":
		if len(b.Txs) > 1 {
			b.Txs[0], b.Txs[1] = b.Txs[1], b.Txs[0]
			*commit = false
			v.effective = true
		}
	case "cb_len":
		ss := consensus.HeightScript(c.height)
		want := []int{1, 101, 2, 100, 0, 150}[mod(arg, 6)]
		if want < len(ss) {
			ss = ss[:want]
		}
		for len(ss) < want {
			ss = append(ss, byte(0x51+len(ss)%7))
		}
		b.Txs[0].In[0].ScriptSig = ss
		v.effective = true
	case "bip34":
		h := c.height
		var ss []byte
		switch mod(arg, 6) {
		case 0:
			ss = consensus.HeightScript(h + 1)
		case 1:
			ss = consensus.HeightScript(h - 1)
		case 2: // non-minimal: an explicit push even for small heights / padded with a zero byte
			n := env.ScriptNum(int64(h))
			if h <= 16 {
				ss = env.Push(n)
			} else {
				ss = env.Push(append(n, 0))
			}
		case 3: // height somewhere else than at the start
			ss = append([]byte{0x51}, consensus.HeightScript(h)...)
		case 4: // PUSHDATA1 form
			n := env.ScriptNum(int64(h))
			ss = append([]byte{0x4c, byte(len(n))}, n...)
		default: // correct
			ss = consensus.HeightScript(h)
		}
		b.Txs[0].In[0].ScriptSig = append(ss, 0x51, 0x52, 0x53)
		v.effective = true
	case "wit_commit_missing":
		has := false
		for _, t := range b.Txs {
			has = has || t.HasWitness()
		}
		if !has {
			// no witness spend in the block (always so below the activation height): a witness-serialised coinbase
			b.Txs[0].In[0].Witness = [][]byte{make([]byte, 32)}
			has = true
			v.sub = "coinbase-witness-only"
			if !c.segwit {
				v.sub = "below-activation-height"
			}
		}
		if has {
			*commit = false
			v.effective = true
		}
	case "wit_nonce_size":
		if c.segwit {
			*commit = true
			switch mod(arg, 6) {
			case 5:
				// the coinbase carries the commitment output but no witness at all (stripped after the block is
				// finished, see final): serialised in the old format when no other transaction has a witness
				v.sub = "no-coinbase-witness"
			case 0:
				b.Txs[0].In[0].Witness = [][]byte{make([]byte, 31)}
			case 1:
				b.Txs[0].In[0].Witness = [][]byte{make([]byte, 33)}
			case 2:
				b.Txs[0].In[0].Witness = [][]byte{make([]byte, 32), make([]byte, 32)}
			case 3:
				b.Txs[0].In[0].Witness = [][]byte{{}}
			default: // legal: any 32 bytes
				nonce := sha256.Sum256([]byte{byte(arg)})
				b.Txs[0].In[0].Witness = [][]byte{nonce[:]}
			}
			v.effective = true
		}
	case "wit_commit_multi":
		if c.segwit {
			*commit = true
			v.effective = true
		}
	case "weight":
		v.weight(b, commit)
	}
}

// weight pads the block to an exact weight around the 4,000,000 limit.
func (v *violCtx) weight(b *wire.Block, commit *bool) {
	c, s, arg := v.c, v.c.s, v.op.Arg
	if !c.segwit {
		return
	}
	x, ok := c.take(arg)
	if !ok {
		return
	}
	target := consensus.MaxBlockWeight + []int{0, 1, 2, 3, 4, -1}[mod(arg, 6)]
	v.sub = []string{"at-limit", "+1", "+2", "+3", "+4", "-1"}[mod(arg, 6)]
	*commit = true
	dropTrue := []byte{0x75, 0x51} // OP_DROP OP_1
	wsh := env.P2WSH(dropTrue)
	h, idx := keyParts(x.key)
	p1 := &wire.Tx{Version: 2, In: []wire.TxIn{{PrevHash: h, PrevIndex: idx, Sequence: 0xffffffff}},
		Out: []wire.TxOut{{Value: x.coin.Value, PkScript: wsh}, {Value: 0, PkScript: nil}}}
	if !s.B.Spend(p1, 0, x.coin.Script, true) {
		panic("sim: cannot spend")
	}
	p2 := &wire.Tx{Version: 2, In: []wire.TxIn{{PrevIndex: 0, Sequence: 0xffffffff}}, Out: []wire.TxOut{{Value: x.coin.Value, PkScript: s.B.True()}}}
	base := append([]*wire.Tx{}, b.Txs...)
	// the commitment output and nonce must be in place for the measurement
	cb := b.Txs[0]
	if consensus.CommitmentIndex(cb) < 0 {
		cb.Out = append(cb.Out, wire.TxOut{PkScript: env.CommitmentScript([32]byte{})})
	}
	if len(cb.In[0].Witness) == 0 {
		cb.In[0].Witness = [][]byte{make([]byte, 32)}
	}
	L, k := 900000, 1
	for iter := 0; iter < 12; iter++ {
		p1.Out[1].PkScript = append([]byte{0x6a}, make([]byte, L)...)
		p2.In[0].PrevHash = p1.TxID()
		p2.In[0].Witness = [][]byte{make([]byte, k), dropTrue}
		b.Txs = append(append([]*wire.Tx{}, base...), p1, p2)
		w := b.Weight()
		if w == target {
			c.rawTx(p1)
			c.rawTx(p2)
			v.effective = true
			return
		}
		d := target - w
		L += d / 4
		k += d % 4
		for k < 1 {
			k += 4
			L--
		}
		for k > 400 {
			k -= 4
			L++
		}
		if L < 1 {
			break
		}
	}
	b.Txs = base
}

// final runs after the block was finished (merkle root set, mined).
func (v *violCtx) final(b *wire.Block) {
	c, arg := v.c, v.op.Arg
	remine := func() {
		b.Header.MerkleRoot, _ = b.TxMerkleRoot()
		env.Mine(&b.Header, true)
	}
	switch v.op.Viol {
	case "wit_nonce_size":
		if v.sub == "no-coinbase-witness" {
			b.Txs[0].In[0].Witness = nil // (not part of the txid: merkle root and proof of work stay)
		}
	case "high_hash":
		v.effective = env.Mine(&b.Header, false)
	case "merkle_wrong":
		b.Header.MerkleRoot[mod(arg, 32)] ^= 1 << uint(mod(arg, 8))
		env.Mine(&b.Header, true)
		v.effective = true
	case "merkle_dup":
		n := len(b.Txs)
		for j := 0; n>>uint(j) > 1; j++ {
			if n%(1<<uint(j)) == 0 && (n>>uint(j))%2 == 1 {
				b.Txs = append(b.Txs, b.Txs[n-(1<<uint(j)):]...)
				v.effective = true
				break
			}
		}
	case "merkle_dup_twin":
		// the genuine block stays as it is; a malleated copy is delivered first
		n := len(b.Txs)
		for j := 0; n>>uint(j) > 1; j++ {
			if n%(1<<uint(j)) == 0 && (n>>uint(j))%2 == 1 {
				cp := &wire.Block{Header: b.Header, Txs: append(append([]*wire.Tx{}, b.Txs...), b.Txs[n-(1<<uint(j)):]...)}
				v.preRaw = cp.Serialize(true)
				v.effective = true
				break
			}
		}
	case "wit_commit_wrong":
		if ci := consensus.CommitmentIndex(b.Txs[0]); ci >= 0 {
			b.Txs[0].Out[ci].PkScript[6+mod(arg, 32)] ^= 0x10
			remine()
			v.effective = true
		}
	case "wit_commit_multi":
		if ci := consensus.CommitmentIndex(b.Txs[0]); ci >= 0 {
			good := b.Txs[0].Out[ci]
			bad := wire.TxOut{PkScript: append([]byte{}, good.PkScript...)}
			bad.PkScript[10] ^= 0xff
			switch mod(arg, 3) {
			case 0: // a stale commitment first, the right one last: legal
				b.Txs[0].Out = append([]wire.TxOut{bad}, b.Txs[0].Out...)
			case 1: // the right one first, a wrong one last: illegal
				b.Txs[0].Out = append(b.Txs[0].Out, bad)
			default: // the commitment followed by an ordinary output: legal
				b.Txs[0].Out = append(b.Txs[0].Out, wire.TxOut{PkScript: c.s.B.True()})
			}
			// the witness root does not cover the coinbase, so the commitment itself is unchanged
			remine()
			v.effective = true
		}
	}
}
