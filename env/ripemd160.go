package env

import "math/bits"

// Ripemd160 is RIPEMD-160 written from the specification (Dobbertin, Bosselaers, Preneel 1996);
// checked against the published test strings in the package tests.
func Ripemd160(msg []byte) []byte {
	rl := [80]uint{0, 1, 2, 3, 4, 5, 6, 7, 8, 9, 10, 11, 12, 13, 14, 15,
		7, 4, 13, 1, 10, 6, 15, 3, 12, 0, 9, 5, 2, 14, 11, 8,
		3, 10, 14, 4, 9, 15, 8, 1, 2, 7, 0, 6, 13, 11, 5, 12,
		1, 9, 11, 10, 0, 8, 12, 4, 13, 3, 7, 15, 14, 5, 6, 2,
		4, 0, 5, 9, 7, 12, 2, 10, 14, 1, 3, 8, 11, 6, 15, 13}
	rr := [80]uint{5, 14, 7, 0, 9, 2, 11, 4, 13, 6, 15, 8, 1, 10, 3, 12,
		6, 11, 3, 7, 0, 13, 5, 10, 14, 15, 8, 12, 4, 9, 1, 2,
		15, 5, 1, 3, 7, 14, 6, 9, 11, 8, 12, 2, 10, 0, 4, 13,
		8, 6, 4, 1, 3, 11, 15, 0, 5, 12, 2, 13, 9, 7, 10, 14,
		12, 15, 10, 4, 1, 5, 8, 7, 6, 2, 13, 14, 0, 3, 9, 11}
	sl := [80]int{11, 14, 15, 12, 5, 8, 7, 9, 11, 13, 14, 15, 6, 7, 9, 8,
		7, 6, 8, 13, 11, 9, 7, 15, 7, 12, 15, 9, 11, 7, 13, 12,
		11, 13, 6, 7, 14, 9, 13, 15, 14, 8, 13, 6, 5, 12, 7, 5,
		11, 12, 14, 15, 14, 15, 9, 8, 9, 14, 5, 6, 8, 6, 5, 12,
		9, 15, 5, 11, 6, 8, 13, 12, 5, 12, 13, 14, 11, 8, 5, 6}
	sr := [80]int{8, 9, 9, 11, 13, 15, 15, 5, 7, 7, 8, 11, 14, 14, 12, 6,
		9, 13, 15, 7, 12, 8, 9, 11, 7, 7, 12, 7, 6, 15, 13, 11,
		9, 7, 15, 11, 8, 6, 6, 14, 12, 13, 5, 14, 13, 13, 7, 5,
		15, 5, 8, 11, 14, 14, 6, 14, 6, 9, 12, 9, 12, 5, 15, 8,
		8, 5, 12, 9, 12, 5, 14, 6, 8, 13, 6, 5, 15, 13, 11, 11}
	kl := [5]uint32{0, 0x5a827999, 0x6ed9eba1, 0x8f1bbcdc, 0xa953fd4e}
	kr := [5]uint32{0x50a28be6, 0x5c4dd124, 0x6d703ef3, 0x7a6d76e9, 0}
	f := func(j int, x, y, z uint32) uint32 {
		switch j / 16 {
		case 0:
			return x ^ y ^ z
		case 1:
			return x&y | ^x&z
		case 2:
			return (x | ^y) ^ z
		case 3:
			return x&z | y&^z
		}
		return x ^ (y | ^z)
	}
	h := [5]uint32{0x67452301, 0xefcdab89, 0x98badcfe, 0x10325476, 0xc3d2e1f0}
	m := append([]byte{}, msg...)
	m = append(m, 0x80)
	for len(m)%64 != 56 {
		m = append(m, 0)
	}
	l := uint64(len(msg)) * 8
	for i := 0; i < 8; i++ {
		m = append(m, byte(l>>(8*uint(i))))
	}
	for off := 0; off < len(m); off += 64 {
		var x [16]uint32
		for i := range x {
			x[i] = uint32(m[off+4*i]) | uint32(m[off+4*i+1])<<8 | uint32(m[off+4*i+2])<<16 | uint32(m[off+4*i+3])<<24
		}
		a, b, c, d, e := h[0], h[1], h[2], h[3], h[4]
		a2, b2, c2, d2, e2 := a, b, c, d, e
		for j := 0; j < 80; j++ {
			t := bits.RotateLeft32(a+f(j, b, c, d)+x[rl[j]]+kl[j/16], sl[j]) + e
			a, e, d, c, b = e, d, bits.RotateLeft32(c, 10), b, t
			t = bits.RotateLeft32(a2+f(79-j, b2, c2, d2)+x[rr[j]]+kr[j/16], sr[j]) + e2
			a2, e2, d2, c2, b2 = e2, d2, bits.RotateLeft32(c2, 10), b2, t
		}
		t := h[1] + c + d2
		h[1] = h[2] + d + e2
		h[2] = h[3] + e + a2
		h[3] = h[4] + a + b2
		h[4] = h[0] + b + c2
		h[0] = t
	}
	out := make([]byte, 20)
	for i, v := range h {
		out[4*i], out[4*i+1], out[4*i+2], out[4*i+3] = byte(v), byte(v>>8), byte(v>>16), byte(v>>24)
	}
	return out
}
