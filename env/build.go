package env

import (
	"crypto/sha256"
	"encoding/binary"
	"encoding/hex"
	"math/big"

	"verif/ref/ec"
	"verif/ref/sighash"

	"verif/ref/consensus"
	"verif/ref/wire"
)

// ---------------------------------------------------------------------------------------------
// script helpers (reference side; nothing here comes from gocoin)

// Push returns the canonical push of data (CScript() << data).
func Push(data []byte) []byte {
	n := len(data)
	switch {
	case n < 0x4c:
		return append([]byte{byte(n)}, data...)
	case n <= 0xff:
		return append([]byte{0x4c, byte(n)}, data...)
	case n <= 0xffff:
		return append([]byte{0x4d, byte(n), byte(n >> 8)}, data...)
	}
	return append([]byte{0x4e, byte(n), byte(n >> 8), byte(n >> 16), byte(n >> 24)}, data...)
}

// ScriptNum is the minimal CScriptNum encoding of n >= 0.
func ScriptNum(n int64) []byte {
	if n == 0 {
		return nil
	}
	var b []byte
	for v := n; v > 0; v >>= 8 {
		b = append(b, byte(v))
	}
	if b[len(b)-1]&0x80 != 0 {
		b = append(b, 0)
	}
	return b
}

// PushNum pushes n the way CScript() << int64 does (OP_0, OP_1..16, else minimal push).
func PushNum(n int64) []byte {
	if n == 0 {
		return []byte{0}
	}
	if n >= 1 && n <= 16 {
		return []byte{0x50 + byte(n)}
	}
	return Push(ScriptNum(n))
}

func hash160(b []byte) []byte {
	h := sha256.Sum256(b)
	return Ripemd160(h[:])
}

// P2SH / P2WSH wrap an inner script.
func P2SH(inner []byte) []byte {
	return append(append([]byte{0xa9, 0x14}, hash160(inner)...), 0x87)
}
func P2WSH(inner []byte) []byte {
	h := sha256.Sum256(inner)
	return append([]byte{0x00, 0x20}, h[:]...)
}

// Recipe says how an output script built here can be spent.
type Recipe struct {
	Kind  string // "true", "puzzle", "dead", "opreturn", "p2sh", "p2wsh", "p2pkh", "p2wpkh", "p2sh-p2wpkh", "p2tr"
	N     int64  // puzzle number
	Inner []byte // redeem / witness script
	In    *Recipe
	Key   int // index into the key pool for the signed kinds
}

// Key pool: secret k+1 multiplied by a fixed odd constant, so that keys are not tiny but reproducible.
func Secret(k int) []byte {
	v := new(big.Int).Mul(big.NewInt(int64(k)+1), new(big.Int).SetBytes([]byte("gocoin-verif-key-pool-constant!!")))
	v.Mod(v, new(big.Int).Sub(ec.N, big.NewInt(1)))
	v.Add(v, big.NewInt(1))
	return ec.Bytes32(v)
}

// PubKey is the compressed public key of pool key k.
func PubKey(k int) []byte {
	return ec.SerializeCompressed(ec.BaseMul(new(big.Int).SetBytes(Secret(k))))
}

func p2pkhScript(h []byte) []byte {
	return append(append([]byte{0x76, 0xa9, 0x14}, h...), 0x88, 0xac)
}

// P2PKH / P2WPKH / P2SH-P2WPKH / P2TR (key path only, BIP86-style tweak with an empty merkle root).
func (b *Builder) P2PKH(k int) []byte {
	return b.reg(p2pkhScript(hash160(PubKey(k))), &Recipe{Kind: "p2pkh", Key: k})
}
func (b *Builder) P2WPKH(k int) []byte {
	return b.reg(append([]byte{0x00, 0x14}, hash160(PubKey(k))...), &Recipe{Kind: "p2wpkh", Key: k})
}
func (b *Builder) P2SHP2WPKH(k int) []byte {
	redeem := append([]byte{0x00, 0x14}, hash160(PubKey(k))...)
	return b.reg(P2SH(redeem), &Recipe{Kind: "p2sh-p2wpkh", Key: k, Inner: redeem})
}
func (b *Builder) P2TR(k int) []byte {
	x, _ := ec.XOnlyPubKey(Secret(k))
	t := sighash.TapTweakHash(x, nil)
	q, _, ok := ec.TweakAdd(x, t[:])
	if !ok {
		panic("tweak failed")
	}
	return b.reg(append([]byte{0x51, 0x20}, q...), &Recipe{Kind: "p2tr", Key: k})
}

// Signed reports whether spending pk needs a signature over the finished transaction.
func (b *Builder) Signed(pk []byte) bool {
	r := b.Recipes[string(pk)]
	return r != nil && (r.Kind == "p2pkh" || r.Kind == "p2wpkh" || r.Kind == "p2sh-p2wpkh" || r.Kind == "p2tr")
}

// SpendSigned signs input idx of the finished transaction (all inputs and outputs in place; spent = the
// outputs spent by all inputs).  valid=false corrupts the signature.
func (b *Builder) SpendSigned(tx *wire.Tx, idx int, spent []wire.TxOut, valid bool) bool {
	pk := spent[idx].PkScript
	r := b.Recipes[string(pk)]
	if r == nil || !b.Signed(pk) {
		return false // (not a key-based script: whatever Spend put into the input stays)
	}
	in := &tx.In[idx]
	in.ScriptSig, in.Witness = nil, nil
	sec, pub := Secret(r.Key), PubKey(r.Key)
	ecdsa := func(digest [32]byte) []byte {
		rr, ss, _ := ec.SignRFC6979(sec, digest[:])
		sig := append(ec.EncodeDER(rr, ss), 0x01)
		if !valid {
			sig[len(sig)-2] ^= 0x01
		}
		return sig
	}
	switch r.Kind {
	case "p2pkh":
		sig := ecdsa(sighash.Legacy(tx, idx, pk, 1))
		in.ScriptSig = append(Push(sig), Push(pub)...)
	case "p2wpkh":
		sig := ecdsa(sighash.BIP143(tx, idx, p2pkhScript(hash160(pub)), spent[idx].Value, 1))
		in.Witness = [][]byte{sig, pub}
	case "p2sh-p2wpkh":
		in.ScriptSig = Push(r.Inner)
		sig := ecdsa(sighash.BIP143(tx, idx, p2pkhScript(hash160(pub)), spent[idx].Value, 1))
		in.Witness = [][]byte{sig, pub}
	case "p2tr":
		x, _ := ec.XOnlyPubKey(sec)
		t := sighash.TapTweakHash(x, nil)
		d, ok := sighash.BIP341(tx, idx, spent, 0, 0, nil, nil, 0)
		if !ok {
			return false
		}
		sig := ec.SchnorrSign(ec.TweakSecret(sec, t[:]), d[:], make([]byte, 32))
		if !valid {
			sig[40] ^= 0x01
		}
		in.Witness = [][]byte{sig}
	default:
		return false
	}
	return true
}

// Builder remembers the recipes of the scripts it produced and the verdict of the spends it built.
type Builder struct {
	Recipes map[string]*Recipe
	// Verdict of (txid, input index) for the spends built here; consulted by the by-construction verifier.
	Valid map[[36]byte]bool
	// Loose marks inputs whose by-construction verdict is only a guess (hand-made violating transactions)
	Loose map[[36]byte]bool
}

func NewBuilder() *Builder {
	return &Builder{Recipes: map[string]*Recipe{}, Valid: map[[36]byte]bool{}, Loose: map[[36]byte]bool{}}
}

func (b *Builder) reg(script []byte, r *Recipe) []byte {
	b.Recipes[string(script)] = r
	return script
}

// Bare scripts.
func (b *Builder) True() []byte { return b.reg([]byte{0x51}, &Recipe{Kind: "true"}) }
func (b *Builder) Puzzle(n int64) []byte {
	return b.reg(append(PushNum(n), 0x87), &Recipe{Kind: "puzzle", N: n})
}

// SigOps is an unspendable-in-practice script carrying k CHECKSIG opcodes in a dead branch followed by
// OP_1: spendable with an empty scriptSig, counts k legacy sig-ops.
func (b *Builder) SigOps(k int) []byte {
	s := []byte{0x00, 0x63} // OP_0 OP_IF
	for i := 0; i < k; i++ {
		s = append(s, 0xac)
	}
	s = append(s, 0x68, 0x51) // OP_ENDIF OP_1
	if k > 190 {              // more than 201 non-push opcodes: the script can never be executed successfully
		return b.reg(s, &Recipe{Kind: "dead"})
	}
	return b.reg(s, &Recipe{Kind: "true"})
}

// MultiSigOps: dead-branch script with k CHECKMULTISIG opcodes each preceded by OP_m (accurate count m,
// inaccurate 20).
func (b *Builder) MultiSigOps(k int, m int) []byte {
	s := []byte{0x00, 0x63}
	for i := 0; i < k; i++ {
		s = append(s, 0x50+byte(m), 0xae)
	}
	s = append(s, 0x68, 0x51)
	if k > 190 {
		return b.reg(s, &Recipe{Kind: "dead"})
	}
	return b.reg(s, &Recipe{Kind: "true"})
}

func (b *Builder) OpReturn(data []byte) []byte {
	return b.reg(append([]byte{0x6a}, Push(data)...), &Recipe{Kind: "opreturn"})
}

// OpReturnThenSigOps: OP_RETURN followed by k CHECKSIGs (Core counts them, see DESIGN F6).
func (b *Builder) OpReturnThenSigOps(k int) []byte {
	s := []byte{0x6a}
	for i := 0; i < k; i++ {
		s = append(s, 0xac)
	}
	return b.reg(s, &Recipe{Kind: "opreturn"})
}

// Unspendable registers a script that the builder never spends (nobody has a key / preimage for it).
func (b *Builder) Unspendable(script []byte) []byte {
	if r := b.Recipes[string(script)]; r != nil {
		return script
	}
	return b.reg(script, &Recipe{Kind: "dead"})
}

func (b *Builder) WrapP2SH(inner []byte) []byte {
	return b.reg(P2SH(inner), &Recipe{Kind: "p2sh", Inner: inner, In: b.Recipes[string(inner)]})
}
func (b *Builder) WrapP2WSH(inner []byte) []byte {
	return b.reg(P2WSH(inner), &Recipe{Kind: "p2wsh", Inner: inner, In: b.Recipes[string(inner)]})
}

// Spend fills scriptSig / witness of input idx for a coin with the given script.  valid=false builds a
// spend that fails script evaluation (only possible for puzzle-based scripts; ok=false otherwise).
func (b *Builder) Spend(tx *wire.Tx, idx int, pk []byte, valid bool) (ok bool) {
	r := b.Recipes[string(pk)]
	if r == nil {
		return false
	}
	if b.Signed(pk) {
		return true // filled in by SpendSigned once the transaction is complete
	}
	var items [][]byte // stack items for the innermost script, then wrappers
	var breakable func(r *Recipe) bool
	breakable = func(r *Recipe) bool {
		switch r.Kind {
		case "puzzle":
			return true
		case "p2sh", "p2wsh":
			return r.In != nil && breakable(r.In)
		}
		return false
	}
	if r.Kind == "p2sh" && r.In != nil && r.In.Kind == "p2wsh" {
		// P2SH-wrapped P2WSH: the input script is the single push of the witness program, the witness carries the
		// stack for the inner script and the inner script
		w := r.In
		if w.In == nil || !valid && !breakable(w.In) {
			return false
		}
		in := &tx.In[idx]
		in.ScriptSig, in.Witness = Push(r.Inner), nil
		switch w.In.Kind {
		case "true":
		case "puzzle":
			n := w.In.N
			if !valid {
				n++
			}
			in.Witness = append(in.Witness, ScriptNum(n))
		default:
			return false
		}
		in.Witness = append(in.Witness, w.Inner)
		return true
	}
	if !valid && !breakable(r) {
		return false
	}
	var inner func(r *Recipe) bool
	inner = func(r *Recipe) bool {
		switch r.Kind {
		case "true":
			return true
		case "puzzle":
			n := r.N
			if !valid {
				n++
			}
			items = append(items, ScriptNum(n))
			return true
		}
		return false
	}
	in := &tx.In[idx]
	in.ScriptSig, in.Witness = nil, nil
	switch r.Kind {
	case "true", "puzzle":
		if !inner(r) {
			return false
		}
		for _, it := range items {
			in.ScriptSig = append(in.ScriptSig, pushItem(it)...)
		}
	case "p2sh":
		if r.In == nil || !inner(r.In) {
			return false
		}
		for _, it := range items {
			in.ScriptSig = append(in.ScriptSig, pushItem(it)...)
		}
		in.ScriptSig = append(in.ScriptSig, Push(r.Inner)...)
	case "p2wsh":
		if r.In == nil || !inner(r.In) {
			return false
		}
		in.Witness = append(append([][]byte{}, items...), r.Inner)
	default:
		return false
	}
	return true
}

func pushItem(it []byte) []byte {
	if len(it) == 0 {
		return []byte{0}
	}
	if len(it) == 1 && it[0] >= 1 && it[0] <= 16 {
		return []byte{0x50 + it[0]}
	}
	return Push(it)
}

// Spendable reports whether the builder knows how to spend pk.
func (b *Builder) Spendable(pk []byte) bool {
	r := b.Recipes[string(pk)]
	if r == nil {
		return false
	}
	switch r.Kind {
	case "true", "puzzle", "p2pkh", "p2wpkh", "p2sh-p2wpkh", "p2tr":
		return true
	case "p2sh", "p2wsh":
		if r.Kind == "p2sh" && r.In != nil && r.In.Kind == "p2wsh" {
			r = r.In
		}
		return r.In != nil && (r.In.Kind == "true" || r.In.Kind == "puzzle")
	}
	return false
}

// NeedsWitness reports whether pk can only be spent with segwit (resp. taproot) active.
func (b *Builder) NeedsWitness(pk []byte) (segwit, taproot bool) {
	r := b.Recipes[string(pk)]
	if r == nil {
		return
	}
	switch r.Kind {
	case "p2wsh", "p2wpkh", "p2sh-p2wpkh":
		return true, false
	case "p2sh":
		return r.In != nil && r.In.Kind == "p2wsh", false
	case "p2tr":
		return true, true
	}
	return
}

// Breakable reports whether an invalid spend can be built for pk.
func (b *Builder) Breakable(pk []byte) bool {
	r := b.Recipes[string(pk)]
	if r == nil {
		return false
	}
	if r.Kind == "puzzle" || b.Signed(pk) {
		return true
	}
	if r.Kind == "p2sh" && r.In != nil && r.In.Kind == "p2wsh" {
		r = r.In
	}
	return (r.Kind == "p2sh" || r.Kind == "p2wsh") && r.In != nil && r.In.Kind == "puzzle"
}

// ---------------------------------------------------------------------------------------------
// blocks

// Coinbase builds a coinbase for height paying value to the given outputs; extra makes it unique.
func Coinbase(height uint32, outs []wire.TxOut, extra uint64, withWitnessNonce bool) *wire.Tx {
	ss := consensus.HeightScript(height)
	var e [8]byte
	binary.LittleEndian.PutUint64(e[:], extra)
	ss = append(ss, Push(e[:])...)
	tx := &wire.Tx{Version: 2, In: []wire.TxIn{{PrevIndex: 0xffffffff, ScriptSig: ss, Sequence: 0xffffffff}}, Out: outs}
	if withWitnessNonce {
		tx.In[0].Witness = [][]byte{make([]byte, 32)}
	}
	return tx
}

// CommitmentScript is the BIP141 coinbase commitment output script.
func CommitmentScript(c [32]byte) []byte {
	return append([]byte{0x6a, 0x24, 0xaa, 0x21, 0xa9, 0xed}, c[:]...)
}

// FinishBlock sets the witness commitment (when asked), the merkle root and mines the header.
func FinishBlock(b *wire.Block, commit bool) {
	if commit {
		cb := b.Txs[0]
		ci := consensus.CommitmentIndex(cb)
		if ci < 0 {
			cb.Out = append(cb.Out, wire.TxOut{})
			ci = len(cb.Out) - 1
		}
		if len(cb.In[0].Witness) == 0 {
			cb.In[0].Witness = [][]byte{make([]byte, 32)}
		}
		cb.Out[ci].PkScript = CommitmentScript(wire.WitnessCommitment(b.WitnessMerkleRoot(), cb.In[0].Witness[0]))
	}
	b.Header.MerkleRoot, _ = b.TxMerkleRoot()
	Mine(&b.Header, true)
}

// Mine searches a nonce whose hash meets (want=true) or misses (want=false) the header's own target.
func Mine(h *wire.Header, want bool) bool {
	t, neg, of := consensus.SetCompact(h.Bits)
	if neg || of || t.Sign() == 0 {
		h.Nonce = 0
		return !want
	}
	for n := uint32(0); n < 1<<26; n++ {
		h.Nonce = n
		if (consensus.HashToBig(h.Hash()).Cmp(t) <= 0) == want {
			return true
		}
	}
	return false
}

// Hex is a short helper for messages.
func Hex(b []byte) string { return hex.EncodeToString(b) }
