// Package env is the "mini node": a real gocoin chain.Chain in a temp directory running under
// regtest-like parameters, plus builders for blocks and transactions (builders use only the
// reference packages; see build.go).  See DESIGN.md §2.4.
package env

import (
	"bytes"
	"fmt"
	"math/big"
	"os"
	"sort"
	"sync"
	"sync/atomic"

	"github.com/piotrnar/gocoin/lib/btc"
	"github.com/piotrnar/gocoin/lib/chain"
	"github.com/piotrnar/gocoin/lib/others/memory"
	"github.com/piotrnar/gocoin/lib/script"
	"github.com/piotrnar/gocoin/lib/utxo"
	"verif/ref/consensus"
)

// DefaultParams: everything active from height 1, 2 hashes per block, chain anchored in 2020.
func DefaultParams() *consensus.Params {
	p := &consensus.Params{
		PowLimitBits:  0x207fffff,
		BIP34Height:   1,
		BIP65Height:   1,
		BIP66Height:   1,
		CSVHeight:     1,
		SegwitHeight:  1,
		TaprootHeight: 1,
		GenesisTime:   1600000000,
	}
	p.PowLimit, _, _ = consensus.SetCompact(p.PowLimitBits)
	for i := range p.GenesisHash {
		p.GenesisHash[i] = byte(0xa0 + i)
	}
	p.GenesisHash[0] = 0x11 // anything but 0x43 (testnet marker in gocoin)
	return p
}

// Options for opening a node.
type Options struct {
	CompressUTXO   bool
	CompressBlocks bool
	MaxCached      int
	MaxDataFile    uint64
	KeepDataFiles  uint32 // BlockDBOpts.DataFilesKeep: older block data files are removed (0: keep all)
	UTXOCallbacks  utxo.CallbackFunctions
	BlockMinedCB   func(*btc.Block)
	BlockUndoneCB  func(*btc.Block)
	Volatile       bool
	// TrueFresh opens a brand-new directory exactly as gocoin would (256 maps pre-sized for 100k records
	// each: ~0.6 GB and slow to walk).  By default a new directory is seeded with an empty snapshot at the
	// genesis block instead, which is the same logical state with small maps.
	TrueFresh bool
}

// ObserverCallbacks returns UTXO callbacks that only count: the client installs callbacks when its wallet is on, and
// UnspentDB then takes other code paths (commit workers, undo) than without them.
func ObserverCallbacks() utxo.CallbackFunctions {
	return utxo.CallbackFunctions{
		NotifyTxAdd: func(*utxo.UtxoRec) { atomic.AddInt64(&ObserverCalls, 1) },
		NotifyTxDel: func(*utxo.UtxoRec, []bool) { atomic.AddInt64(&ObserverCalls, 1) },
	}
}

// ObserverCalls counts the calls of the ObserverCallbacks.
var ObserverCalls int64

// Node wraps a gocoin chain.
type Node struct {
	Dir    string
	P      *consensus.Params
	Ch     *chain.Chain
	Opts   Options
	closed bool
	// RecoveryDiscarded lists stored blocks that failed to connect while the node was re-applying them at start-up
	RecoveryDiscarded []string
}

var quietOnce sync.Once

// Quiet switches off gocoin's script debug output (process-wide).
func Quiet() {
	quietOnce.Do(func() {
		script.DBG_ERR = false
	})
}

// ApplyParams overwrites the exported consensus fields the way NewChainExt does for testnet4.
func ApplyParams(ch *chain.Chain, p *consensus.Params) {
	ch.Consensus.MaxPOWBits = p.PowLimitBits
	ch.Consensus.MaxPOWValue = new(big.Int).Set(p.PowLimit)
	ch.Consensus.GensisTimestamp = p.GenesisTime
	ch.Consensus.BIP34Height = p.BIP34Height
	ch.Consensus.BIP65Height = p.BIP65Height
	ch.Consensus.BIP66Height = p.BIP66Height
	ch.Consensus.Enforce_CSV = p.CSVHeight
	ch.Consensus.Enforce_SEGWIT = p.SegwitHeight
	ch.Consensus.Enforce_Taproot = p.TaprootHeight
	ch.RebuildGenesisHeader()
}

// Open opens (or re-opens) the chain in dir following the client's sequence: NewChainExt with
// DoNotRescan, then the consensus parameters, then the recovery walk of client/main.go
// (do_the_blocks + LocalAcceptBlock) up to the farthest known node.
func Open(dir string, p *consensus.Params, o Options) (n *Node, err error) {
	Quiet()
	defer func() {
		if r := recover(); r != nil {
			err = fmt.Errorf("panic while opening: %v", r)
		}
	}()
	if dir[len(dir)-1] != os.PathSeparator {
		dir += string(os.PathSeparator)
	}
	n = &Node{Dir: dir, P: p, Opts: o}
	if o.MaxCached == 0 {
		o.MaxCached = 20
	}
	if _, e := os.Stat(dir + "UTXO.db"); e != nil && !o.TrueFresh {
		if _, e2 := os.Stat(dir + "UTXO.old"); e2 != nil {
			if _, e3 := os.Stat(dir + "blockchain.new"); e3 != nil {
				seedEmptySnapshot(dir, p, o.CompressUTXO)
			}
		}
	}
	ext := &chain.NewChanOpts{UTXOCallbacks: o.UTXOCallbacks, BlockMinedCB: o.BlockMinedCB, BlockUndoneCB: o.BlockUndoneCB,
		DoNotRescan: true, CompressUTXO: o.CompressUTXO, UTXOVolatileMode: o.Volatile}
	n.Ch = chain.NewChainExt(dir, btc.NewUint256(p.GenesisHash[:]), false, ext,
		&chain.BlockDBOpts{MaxCachedBlocks: o.MaxCached, MaxDataFileSize: o.MaxDataFile, DataFilesKeep: o.KeepDataFiles, CompressOnDisk: o.CompressBlocks})
	ApplyParams(n.Ch, p)
	if e := n.recoverBlocks(); e != nil {
		return n, e
	}
	return n, nil
}

// seedEmptySnapshot writes the snapshot of the empty unspent set at the genesis block.
func seedEmptySnapshot(dir string, p *consensus.Params, compressed bool) {
	os.MkdirAll(dir, 0o770)
	var b bytes.Buffer
	h := uint64(0)
	if compressed {
		h |= 0x8000000000000000
	}
	var u [8]byte
	for i := range u {
		u[i] = byte(h >> (8 * uint(i)))
	}
	b.Write(u[:])
	b.Write(p.GenesisHash[:])
	b.Write(make([]byte, 8))
	os.WriteFile(dir+"UTXO.db", b.Bytes(), 0o660)
}

// recoverBlocks mirrors client/main.go do_the_blocks + LocalAcceptBlock (kept literal).
func (n *Node) recoverBlocks() error {
	ch := n.Ch
	end, _ := ch.BlockTreeRoot.FindFarthestNode()
	if end.Height <= ch.LastBlock().Height {
		return nil
	}
	last := ch.LastBlock()
	if last != end {
		last = last.FindFirstFather(end)
	}
	for last != end {
		nxt := last.FindPathTo(end)
		if nxt == nil {
			break
		}
		if nxt.BlockSize == 0 {
			return fmt.Errorf("BlockSize is zero - corrupt database")
		}
		crec, trusted, _ := ch.Blocks.BlockGetInternal(nxt.BlockHash, true)
		if crec == nil || crec.Data == nil {
			return fmt.Errorf("no data for block #%d", nxt.Height)
		}
		bl, er := btc.NewBlock(crec.Data)
		if er != nil {
			return fmt.Errorf("btc.NewBlock() error - corrupt database")
		}
		bl.Height = nxt.Height
		ch.ApplyBlockFlags(bl)
		if er = bl.BuildTxList(); er != nil {
			return fmt.Errorf("bl.BuildTxList() error - corrupt database")
		}
		bl.Trusted.Store(trusted)
		// LocalAcceptBlock
		ch.Unspent.AbortWriting()
		ch.Blocks.BlockAdd(nxt.Height, bl)
		if e := ch.CommitBlock(bl, nxt); e != nil {
			// HandleNetBlock: the error is printed, the block (and, through CheckParentDiscarded, every queued
			// descendant) is discarded and the node carries on from where it is
			n.RecoveryDiscarded = append(n.RecoveryDiscarded, fmt.Sprintf("#%d: %v", nxt.Height, e))
			break
		}
		last = nxt
	}
	return nil
}

// Deliver hands a serialized block to the node the way the client's RPC path does.
func (n *Node) Deliver(raw []byte) (dos, maybelater bool, err error) {
	bl, e := btc.NewBlock(raw)
	if e != nil {
		return true, false, e
	}
	n.Ch.Unspent.AbortWriting()
	n.Ch.BlockIndexAccess.Lock()
	dos, maybelater, err = n.Ch.CheckBlock(bl)
	n.Ch.BlockIndexAccess.Unlock()
	if err != nil {
		return
	}
	err = n.Ch.AcceptBlock(bl)
	return
}

// DeliverViaDiskCache is Deliver the way the client handles a block it parked in its on-disk cache while syncing
// (client/network netBlockReceived -> store_on_disk, client/main.go get_block_from_disk_cache): the block is checked
// in full when it arrives, only its bytes, its transaction hashes and its BlockExtraInfo are kept, and what is
// committed later is a block re-parsed from those bytes WITHOUT hashing (BuildTxListExt(false)) with the hashes
// and the extra info copied back.  (Literal mirror: package main code cannot be imported.)
func (n *Node) DeliverViaDiskCache(raw []byte) (dos, maybelater bool, err error) {
	bl, e := btc.NewBlock(raw)
	if e != nil {
		return true, false, e
	}
	n.Ch.Unspent.AbortWriting()
	n.Ch.BlockIndexAccess.Lock()
	dos, maybelater, err = n.Ch.CheckBlock(bl)
	n.Ch.BlockIndexAccess.Unlock()
	if err != nil {
		return
	}
	// store_on_disk
	buf := make([]byte, 0, 64*len(bl.Txs))
	for _, tx := range bl.Txs {
		buf = append(buf, tx.WTxID().Hash[:]...)
		if tx.SegWit != nil {
			buf = append(buf, tx.Hash.Hash[:]...)
		}
	}
	bei := bl.BlockExtraInfo
	dat := append([]byte{}, bl.Raw...)
	// get_block_from_disk_cache
	bl2, e := btc.NewBlock(dat)
	if e != nil {
		panic(e.Error())
	}
	if e = bl2.BuildTxListExt(false); e != nil {
		panic(e.Error())
	}
	var offs int
	for _, tx := range bl2.Txs {
		copy(tx.WTxID().Hash[:], buf[offs:])
		offs += 32
		if tx.SegWit != nil {
			copy(tx.Hash.Hash[:], buf[offs:])
			offs += 32
		}
	}
	bl2.BlockExtraInfo = bei
	err = n.Ch.AcceptBlock(bl2)
	return
}

// Tip returns the hash and height of the active tip.
func (n *Node) Tip() (h [32]byte, height uint32) {
	l := n.Ch.LastBlock()
	return l.BlockHash.Hash, l.Height
}

// Close shuts the chain down cleanly.
func (n *Node) Close() {
	if !n.closed {
		n.closed = true
		n.Ch.Close()
		if clientAlloc != nil {
			// nothing refers to the records any more: hand them back, so that the allocator's pages are unmapped
			db := n.Ch.Unspent
			for i := range db.HashMap {
				for k, v := range db.HashMap[i] {
					utxo.Memory_Free(v)
					delete(db.HashMap[i], k)
				}
			}
		}
	}
}

// The running client stores the unspent-set records not on the Go heap but in its own recycling allocator
// (lib/others/memory; config Memory.UseGoHeap=false is the default): client/common wires utxo.Memory_Malloc /
// Memory_Free to it.  UseClientAllocator does the same for this process (once): freed record memory is then
// really reused, so code that keeps a pointer into a record it has handed back reads something else.
var (
	clientAlloc     *memory.Allocator
	clientAllocOnce sync.Once
)

func UseClientAllocator() {
	clientAllocOnce.Do(func() {
		clientAlloc = memory.NewAllocator()
		// A page of a fresh allocator hands out never-used slots first and only then the freed ones; in a node that
		// has been running for a while the pages are full and a freed slot is the very next one handed out.  Bring
		// every small size class into that state: fill its first page, then free all of it but one slot.
		a := clientAlloc
		seen := map[int]bool{}
		for size := 1; size <= 4096; size += 8 {
			first := a.Malloc(size)
			c := cap(*first)
			if seen[c] {
				a.Free(first)
				continue
			}
			seen[c] = true
			held := []*[]byte{first}
			pages := a.SharedMmaps.Load()
			for a.SharedMmaps.Load() == pages {
				held = append(held, a.Malloc(size))
			}
			// the last one opened a second page (the allocator keeps a page with never-used slots as the current
			// one even when it is empty): fill that one up as well, then free everything but one slot per page
			n := len(held) - 1 // slots per page
			for i := 1; i < n; i++ {
				held = append(held, a.Malloc(size))
			}
			for i := len(held) - 1; i >= 1; i-- {
				if i != n {
					a.Free(held[i])
				}
			}
		}
		utxo.Memory_Malloc = clientAlloc.Malloc
		utxo.Memory_Free = clientAlloc.Free
	})
}

// Entry is one unspent output as the node sees it.
type Entry struct {
	TxID     [32]byte
	Vout     uint32
	Value    uint64
	Script   []byte
	Height   uint32
	Coinbase bool
}

func (e Entry) String() string {
	return fmt.Sprintf("%x:%d v=%d h=%d cb=%v s=%x", e.TxID[:6], e.Vout, e.Value, e.Height, e.Coinbase, e.Script)
}

// SortEntries orders by (txid, vout).
func SortEntries(es []Entry) {
	sort.Slice(es, func(i, j int) bool {
		if c := bytes.Compare(es[i].TxID[:], es[j].TxID[:]); c != 0 {
			return c < 0
		}
		return es[i].Vout < es[j].Vout
	})
}

// DumpUTXO decodes every record of the unspent database (provably unspendable outputs are left out on
// both sides of every comparison: Core never stores them, gocoin does; no spend can tell).
func (n *Node) DumpUTXO() []Entry {
	return DumpDB(n.Ch.Unspent)
}

// DumpDB decodes every record of an UnspentDB.
func DumpDB(db *utxo.UnspentDB) []Entry {
	var out []Entry
	for i := range db.HashMap {
		db.MapMutex[i].RLock()
		for _, v := range db.HashMap[i] {
			rec := utxo.NewUtxoRec(*v)
			for vout, o := range rec.Outs {
				if o == nil || consensus.Unspendable(o.PKScr) {
					continue
				}
				out = append(out, Entry{TxID: rec.TxID, Vout: uint32(vout), Value: o.Value,
					Script: append([]byte{}, o.PKScr...), Height: rec.InBlock, Coinbase: rec.Coinbase})
			}
		}
		db.MapMutex[i].RUnlock()
	}
	SortEntries(out)
	return out
}

// EntriesOf flattens a reference UTXO view the same way.
func EntriesOf(u consensus.UTXO) []Entry {
	out := make([]Entry, 0, len(u))
	for k, c := range u {
		if consensus.Unspendable(c.Script) {
			continue
		}
		var e Entry
		copy(e.TxID[:], k[:32])
		e.Vout = uint32(k[32]) | uint32(k[33])<<8 | uint32(k[34])<<16 | uint32(k[35])<<24
		e.Value, e.Script, e.Height, e.Coinbase = c.Value, c.Script, c.Height, c.Coinbase
		out = append(out, e)
	}
	SortEntries(out)
	return out
}

// DiffEntries returns "" when equal, else a short description of the first differences.
func DiffEntries(got, want []Entry) string {
	var b bytes.Buffer
	i, j, n := 0, 0, 0
	for (i < len(got) || j < len(want)) && n < 6 {
		switch {
		case i < len(got) && j < len(want) && got[i].TxID == want[j].TxID && got[i].Vout == want[j].Vout:
			if got[i].Value != want[j].Value || !bytes.Equal(got[i].Script, want[j].Script) || got[i].Height != want[j].Height || got[i].Coinbase != want[j].Coinbase {
				fmt.Fprintf(&b, "  differs: node %s / model %s\n", got[i], want[j])
				n++
			}
			i++
			j++
		case j >= len(want) || i < len(got) && (bytes.Compare(got[i].TxID[:], want[j].TxID[:]) < 0 || got[i].TxID == want[j].TxID && got[i].Vout < want[j].Vout):
			fmt.Fprintf(&b, "  only in node:  %s\n", got[i])
			i++
			n++
		default:
			fmt.Fprintf(&b, "  only in model: %s\n", want[j])
			j++
			n++
		}
	}
	if b.Len() > 0 {
		return fmt.Sprintf("node has %d outputs, model %d\n%s", len(got), len(want), b.String())
	}
	return ""
}
