package env

import (
	"encoding/hex"
	"testing"
)

func TestRipemd160Vectors(t *testing.T) {
	for _, v := range [][2]string{
		{"", "9c1185a5c5e9fc54612808977ee8f548b2258d31"},
		{"a", "0bdc9d2d256b3ee9daae347be6f4dc835a467ffe"},
		{"abc", "8eb208f7e05d987a9b044a8e98c6b087f15a0bfc"},
		{"message digest", "5d0689ef49d2fae572b881b123a85ffa21595f36"},
		{"abcdefghijklmnopqrstuvwxyz", "f71c27109c692c1b56bbdceb5b9d2865b3708dbc"},
		{"abcdbcdecdefdefgefghfghighijhijkijkljklmklmnlmnomnopnopq", "12a053384a9c0c88e405a06c27dcf49ada62eb2b"},
	} {
		if got := hex.EncodeToString(Ripemd160([]byte(v[0]))); got != v[1] {
			t.Errorf("%q: %s want %s", v[0], got, v[1])
		}
	}
}
